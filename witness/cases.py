"""Witness programs: each is a tiny bin crate that must build (`ok`) or must fail to build with a
diagnostic containing a given text (`fail`).  Every failing witness has a compiling twin that differs only
in the offending token, so a witness that fails for a wrong path or a typo is detected.

The grids are generated (not frozen source text): C04 = ill-formed (BITS, LIMBS) pairs x constants and
constructor families; C19 = uint! literal grid."""

PRELUDE = "#![allow(unused)]\nuse ruint::{Uint, Bits, uint};\n"


def prog(body, extra_use=""):
    return PRELUDE + extra_use + "fn main() {\n" + body + "\n}\n"


def c04():
    out = []
    LIMBS_MSG = "incorrect LIMBS"
    # (label, expression template with {B},{L}; needs features)
    items = [
        ("ZERO", "let x = Uint::<{B}, {L}>::ZERO; std::hint::black_box(x);"),
        ("ONE", "let x = Uint::<{B}, {L}>::ONE; std::hint::black_box(x);"),
        ("MIN", "let x = Uint::<{B}, {L}>::MIN; std::hint::black_box(x);"),
        ("MAX", "let x = Uint::<{B}, {L}>::MAX; std::hint::black_box(x);"),
        ("Bits::ZERO", "let x = Bits::<{B}, {L}>::ZERO; std::hint::black_box(x);"),
        ("from_limbs", "let x = Uint::<{B}, {L}>::from_limbs([0; {L}]); std::hint::black_box(x);"),
        ("from_limbs_slice", "let x = Uint::<{B}, {L}>::from_limbs_slice(&[]); std::hint::black_box(x);"),
        ("from(u64)", "let x = Uint::<{B}, {L}>::from(0_u64); std::hint::black_box(x);"),
        ("try_from(u128)", "let x = Uint::<{B}, {L}>::try_from(0_u128); std::hint::black_box(x);"),
        ("from_str", "let x = \"0\".parse::<Uint<{B}, {L}>>(); std::hint::black_box(x);"),
        ("from_be_bytes", "let x = Uint::<{B}, {L}>::from_be_bytes([0u8; ({B} + 7) / 8]); std::hint::black_box(x);"),
        ("try_from_le_slice", "let x = Uint::<{B}, {L}>::try_from_le_slice(&[]); std::hint::black_box(x);"),
        ("default", "let x = <Uint<{B}, {L}> as Default>::default(); std::hint::black_box(x);"),
        ("sum-empty", "let x: Uint<{B}, {L}> = std::iter::empty::<Uint<{B}, {L}>>().sum(); std::hint::black_box(x);"),
        ("Zero::zero", "let x = <Uint<{B}, {L}> as num_traits::Zero>::zero(); std::hint::black_box(x);"),
        ("Bounded::max_value", "let x = <Uint<{B}, {L}> as num_traits::Bounded>::max_value(); std::hint::black_box(x);"),
        ("arbitrary", "let mut u = arbitrary::Unstructured::new(&[0u8; 64]); let x = <Uint<{B}, {L}> as arbitrary::Arbitrary>::arbitrary(&mut u); std::hint::black_box(x);"),
        ("proptest", "use proptest::arbitrary::Arbitrary; let s = <Uint<{B}, {L}> as Arbitrary>::arbitrary(); std::hint::black_box(&s); let mut r = proptest::test_runner::TestRunner::deterministic(); use proptest::strategy::{{Strategy, ValueTree}}; let x = s.new_tree(&mut r).unwrap().current(); std::hint::black_box(x);"),
        ("random", "let x = Uint::<{B}, {L}>::random(); std::hint::black_box(x);"),
    ]
    bad = [(64, 2), (65, 1), (0, 1), (128, 3)]
    good = {(64, 2): (64, 1), (65, 1): (65, 2), (0, 1): (0, 0), (128, 3): (128, 2)}
    for label, tmpl in items:
        for (b, l) in bad:
            gb, gl = good[(b, l)]
            out.append({
                "name": "C04/%s/<%d,%d>" % (label, b, l),
                "fail": prog(tmpl.format(B=b, L=l)), "fail_text": LIMBS_MSG,
                "ok": prog(tmpl.format(B=gb, L=gl)),
                "quick": (b, l) == (64, 2) or label in ("MAX", "from_limbs"),
            })
    return out


def c19():
    out = []

    def pair(name, fail_body, fail_text, ok_body, quick=True):
        out.append({"name": "C19/" + name, "fail": prog(fail_body), "fail_text": fail_text, "ok": prog(ok_body),
                    "quick": quick})

    def okonly(name, body, quick=True):
        out.append({"name": "C19/" + name, "ok": prog(body), "quick": quick})
    # value too large: 2^bits rejected, 2^bits - 1 accepted
    for bits in (0, 1, 7, 8, 63, 64, 65, 128, 256):
        for ty in ("U", "B"):
            big = 1 << bits
            pair("too-large/%s%d" % (ty, bits),
                 "let x = uint!(%d_%s%d); std::hint::black_box(x);" % (big, ty, bits), "too large",
                 "let x = uint!(%d_%s%d); std::hint::black_box(x);" % (big - 1, ty, bits),
                 quick=bits in (0, 8, 64, 65))
    # hex forms
    pair("too-large/hex-U8", "let x = uint!(0x100_U8);", "too large", "let x = uint!(0xff_U8);")
    pair("too-large/bin-U3", "let x = uint!(0b1000_U3);", "too large", "let x = uint!(0b111_U3);")
    pair("too-large/oct-U6", "let x = uint!(0o100_U6);", "too large", "let x = uint!(0o77_U6);")
    # invalid digits
    pair("digit/decimal-b", "let x = uint!(1b_U16);", "Invalid digit", "let x = uint!(11_U16);")
    pair("digit/decimal-a-equals-base", "let x = uint!(1a_U8);", "Invalid digit", "let x = uint!(19_U8);")
    pair("digit/decimal-f", "let x = uint!(1f_U16);", "Invalid digit", "let x = uint!(15_U16);")
    pair("digit/hex-g", "let x = uint!(0x1g_U16);", "Invalid", "let x = uint!(0x1f_U16);")
    pair("digit/octal-8-equals-base", "let x = uint!(0o18_U16);", "", "let x = uint!(0o17_U16);", quick=False)
    pair("digit/binary-2-equals-base", "let x = uint!(0b12_U16);", "", "let x = uint!(0b11_U16);", quick=False)
    # accepted forms: underscores, upper-case hex, value equality checked by the type and by const assertions
    okonly("underscores", "let x: Uint<64, 1> = uint!(1_000_000_U64); let y: Uint<16, 1> = uint!(0x_ff_ff_U16);")
    okonly("upper-hex", "let x: Uint<16, 1> = uint!(0xABCD_U16); let y: Bits<16, 1> = uint!(0xABCD_B16);")
    okonly("width", "let x: Uint<65, 2> = uint!(1_U65); let y: Uint<0, 0> = uint!(0_U0); let z: Bits<256, 4> = uint!(0_B256);")
    # pass-through of ordinary literals and of hex literals that merely end in B<digits>
    okonly("passthrough/u64-suffix", "let x: u64 = uint!(0xBBBB_B432_B245_B323_u64);")
    okonly("passthrough/plain-hex", "let x: u32 = uint!(0xAB64);")
    okonly("passthrough/hex-ending-in-B8", "let x: i32 = uint!(0x1B8); let y: Bits<8, 1> = uint!(0x1_B8);")
    # grid: `B<digits>` directly after the 0x prefix or after hex digits is part of the number, never a Bits suffix;
    # the type ascription and the const assertion fail to build if the macro rewrites the literal
    lines = []
    for pre in ("", "1", "AB", "ff", "0", "B"):
        for suf in ("B8", "B16", "B256", "B0", "B1", "B64"):
            litx = "0x%s%s" % (pre, suf)
            lines.append("let _: u64 = uint!(%s); const _: () = assert!(uint!(%s) == %du64);" % (litx, litx, int(litx, 16)))
    okonly("passthrough/hex-B-grid", "\n".join(lines))
    okonly("passthrough/float-str", "let x: f64 = uint!(1.5); let s: &str = uint!(\"1_U8\"); let c = uint!('U');")
    okonly("nesting", "let x: [Uint<8, 1>; 1] = uint!{ [ ( { 1_U8 } ) ] }; let v = uint!(vec![1_U8, 2_U8]); let _: Vec<Uint<8, 1>> = v;")
    # literals that arrive inside the invisible groups the compiler wraps around macro_rules! fragments ($x:expr,
    # $x:literal) are transformed like any others (seed C19d: an arm that returned Delimiter::None groups untouched)
    okonly("nesting/macro-fragments",
           "macro_rules! fwd_lit { ($x:literal) => { uint!($x) }; }\n"
           "macro_rules! fwd_expr { ($x:expr) => { uint!($x) }; }\n"
           "let a: Uint<8, 1> = fwd_lit!(5_U8); let b: Uint<65, 2> = fwd_expr!(0x10_U65 + 1_U65); "
           "let c: Uint<256, 4> = fwd_expr!((5_U256));")
    # type-level proof that a hex literal ending in B<digits> without underscore is NOT a Bits literal
    pair("passthrough/hex-B-is-integer", "let x: Bits<8, 1> = uint!(0x1B8);", "mismatched types", "let x: Bits<8, 1> = uint!(0x1_B8);")
    # const evaluation equality with runtime parsing for a few literals (compile-time assertion)
    okonly("value/const-assert",
           "const A: Uint<128, 2> = uint!(0x1234_5678_9abc_def0_1122_3344_5566_7788_U128);\n"
           "const _: () = assert!(A.as_limbs()[0] == 0x1122_3344_5566_7788 && A.as_limbs()[1] == 0x1234_5678_9abc_def0);\n"
           "const B: Uint<8, 1> = uint!(255_U8); const _: () = assert!(B.as_limbs()[0] == 255);\n"
           "const C: Uint<70, 2> = uint!(1180591620717411303423_U70); const _: () = assert!(C.as_limbs()[1] == 63 && C.as_limbs()[0] == u64::MAX);\n"
           "const D: Uint<16, 1> = uint!(0o17_U16); const _: () = assert!(D.as_limbs()[0] == 15);\n"
           "const E: Uint<16, 1> = uint!(0b1011_U16); const _: () = assert!(E.as_limbs()[0] == 11);")
    # multi-limb value grid: for every base the literal's limbs are asserted at compile time against the limbs
    # computed here from the same digits (values chosen at limb boundaries and with all-ones / alternating digits)
    def lit(v, base):
        if base == 10:
            return "%d" % v
        return {2: "0b%s" % bin(v)[2:], 8: "0o%s" % oct(v)[2:], 16: "0x%s" % hex(v)[2:]}[base]
    grid = []
    for bits in (65, 66, 127, 128, 130, 192, 200, 256):
        full = (1 << bits) - 1
        vals = {1 << 64, (1 << 64) + 1, full, full - (1 << 64), (1 << (bits - 1)) | 1, int("5" * 60) & full,
                int("7" * (bits // 3), 8), int("a5" * (bits // 8), 16) & full, (1 << 63) + (1 << 64) + (1 << (bits - 2))}
        for v in sorted({x & full for x in vals} - {0}):
            grid.append((bits, v))
    n = 0
    for base in (2, 8, 10, 16):
        lines = []
        for bits, v in grid:
            limbs = (bits + 63) // 64
            exp = ", ".join("0x%x" % ((v >> (64 * i)) & ((1 << 64) - 1)) for i in range(limbs))
            n += 1
            lines.append("const V%d: Uint<%d, %d> = uint!(%s_U%d); const _: () = { let e: [u64; %d] = [%s]; let g = V%d.as_limbs(); "
                         "let mut i = 0; while i < %d { assert!(g[i] == e[i]); i += 1; } };" % (n, bits, limbs, lit(v, base), bits, limbs, exp, n, limbs))
        okonly("value/grid-base%d" % base, "\n".join(lines))
    # too-large on the multi-limb boundary for every base
    for base in (2, 8, 16):
        pair("too-large/base%d-U65" % base, "let x = uint!(%s_U65);" % lit(1 << 65, base), "too large",
             "let x = uint!(%s_U65);" % lit((1 << 65) - 1, base))
        pair("too-large/base%d-U130" % base, "let x = uint!(%s_U130);" % lit(1 << 130, base), "too large",
             "let x = uint!(%s_U130);" % lit((1 << 130) - 1, base), quick=False)
    return out


GROUPS = {"C04": c04, "C19": c19}
