"""Program model over mirfacts JSON: bodies, configuration-pruned CFGs,
dominators, definition chasing, call graph."""
import re
import collections
import functools

from . import pp

U64 = (1 << 64) - 1

INT_BITS = {
    "u8": 8, "u16": 16, "u32": 32, "u64": 64, "u128": 128, "usize": 64,
    "i8": 8, "i16": 16, "i32": 32, "i64": 64, "i128": 128, "isize": 64,
    "bool": 1, "char": 32,
}
SIGNED = {"i8", "i16", "i32", "i64", "i128", "isize"}

UINT = "crate::Uint"
BYTES_CONST = "crate::bytes::<impl crate::Uint<BITS, LIMBS>>::BYTES"
BITS_T = "crate::bit_arr::Bits"


def is_uint_ty(t, also_bits=False):
    return t.get("k") == "adt" and (t["n"] == UINT or (also_bits and t["n"] == BITS_T))


def ty_contains(t, pred):
    if pred(t):
        return True
    k = t.get("k")
    if k == "adt":
        return any(("k" in a) and ty_contains(a, pred) for a in t["a"])
    if k in ("ref", "ptr", "array", "slice"):
        return ty_contains(t["t"], pred)
    if k == "tuple":
        return any(ty_contains(x, pred) for x in t["ts"])
    return False


class Program:
    def __init__(self, crate_facts):
        self.facts = crate_facts
        self.bodies = {}
        for b in crate_facts["bodies"]:
            self.bodies[b["key"]] = b
        self.impls = {i["key"]: i for i in crate_facts["impls"]}
        self.aliases = crate_facts["aliases"]
        self.structs = {s["key"]: s for s in crate_facts["structs"]}
        self.configs = [tuple(c) for c in crate_facts["configs"]]
        # constant tables
        self.const_concrete = {}
        self.const_cfg = {}
        for b in crate_facts["bodies"]:
            if "value" in b:
                self.const_concrete[b["key"]] = b["value"]
            if "values" in b:
                self.const_cfg[b["key"]] = {(x[0], x[1]): x[2] for x in b["values"]}
        self._views = {}
        self._callgraph = None

    # -- bodies -----------------------------------------------------------
    def fn_bodies(self):
        return [b for b in self.facts["bodies"] if b["kind"] in ("Fn", "AssocFn", "Closure")]

    def body(self, key):
        return self.bodies.get(key)

    def impl_of(self, body):
        k = body.get("impl")
        return self.impls.get(k) if k else None

    def const_params(self, body):
        return [n for kind, n in body["generics"] if kind == "const"]

    def is_cfg_generic(self, body):
        """True if the body is generic over Uint's (BITS, LIMBS)."""
        cp = self.const_params(body)
        return "BITS" in cp and "LIMBS" in cp

    def view(self, key_or_body, cfg=None):
        body = key_or_body if isinstance(key_or_body, dict) else self.bodies[key_or_body]
        if cfg is not None and not self.is_cfg_generic(body):
            # BITS-only generics (e.g. DisplayBuffer<BITS>) still get BITS
            cp = self.const_params(body)
            if "BITS" not in cp:
                cfg = None
        ck = (body["key"], cfg)
        v = self._views.get(ck)
        if v is None:
            v = BodyView(self, body, cfg)
            self._views[ck] = v
        return v

    def const_value(self, defkey, args, env):
        """Value of an (associated) constant; args are the fact-format generic
        args of the mention, env maps const-param names to ints."""
        if defkey in self.const_concrete:
            return self.const_concrete[defkey]
        tab = self.const_cfg.get(defkey)
        if tab is None:
            return None
        vals = []
        for a in args:
            if a.get("c") == "lit":
                vals.append(a["v"])
            elif a.get("c") == "param":
                v = env.get(a["n"]) if env else None
                if v is None:
                    return None
                vals.append(v)
            else:
                return None
        if len(vals) != 2:
            return None
        return tab.get((vals[0], vals[1]))

    # -- call graph ---------------------------------------------------------
    def callees_of(self, body):
        """All (kind, key, site) edges of a body. kind: call | fnitem | closure."""
        out = []
        for bi, blk in enumerate(body["blocks"]):
            if blk.get("cleanup"):
                continue
            t = blk["term"]
            for op in operands_of_block(blk):
                if op.get("o") == "const":
                    if op.get("c") == "fn":
                        out.append(("fnitem", op, bi))
                    elif op.get("c") == "closure":
                        out.append(("closure", op, bi))
            for s in blk["stmts"]:
                if s["s"] == "assign" and s["rv"]["r"] == "agg" and s["rv"].get("kind") == "closure":
                    out.append(("closure", {"def": s["rv"]["def"]}, bi))
        return out


def operands_of_rvalue(rv):
    k = rv["r"]
    if k in ("use", "repeat", "cast", "un"):
        return [rv["a"]]
    if k == "bin":
        return [rv["a"], rv["b"]]
    if k == "agg":
        return list(rv["ops"])
    return []


def operands_of_block(blk):
    out = []
    for s in blk["stmts"]:
        if s["s"] == "assign":
            out.extend(operands_of_rvalue(s["rv"]))
        elif s["s"] == "assume":
            out.append(s["a"])
    t = blk["term"]
    if t["t"] in ("call", "tailcall"):
        out.append(t["fn"])
        out.extend(t["args"])
    elif t["t"] == "switch":
        out.append(t["discr"])
    elif t["t"] == "assert":
        out.append(t["cond"])
    return out


def wrap(v, tyname):
    bits = INT_BITS.get(tyname)
    if bits is None:
        return v
    v &= (1 << bits) - 1
    if tyname in SIGNED and v >> (bits - 1):
        v -= 1 << bits
    return v


def callee_keys(fn_op):
    """(def, res, fwd_res) generic keys of a call's function operand."""
    if fn_op.get("o") != "const" or fn_op.get("c") != "fn":
        return (None, None, None)
    fwd = fn_op.get("fwd") or {}
    return (fn_op.get("def"), fn_op.get("res"), fwd.get("res"))


def callee_name(fn_op):
    """Best readable generic key for the function actually invoked."""
    d, r, f = callee_keys(fn_op)
    return f or r or d


def is_negated_forward(fn_op):
    """The call is `PartialEq::ne` and callee_name() reports the `eq` it forwards to: the boolean result is the
    negation of the reported callee's."""
    d, r, f = callee_keys(fn_op)
    return bool(f) and (d or "").endswith("cmp::PartialEq::ne") and not f.endswith("::ne")


class BodyView:
    """A body under one (BITS, LIMBS) configuration (or none): constant
    propagation over configuration constants, pruned CFG, dominators."""

    def __init__(self, prog, body, cfg):
        self.prog = prog
        self.body = body
        self.cfg = cfg
        self.env = {}
        if cfg is not None:
            self.env = {"BITS": cfg[0], "LIMBS": cfg[1]}
            if "BYTES" in prog.const_params(body):
                # to_*_bytes::<BYTES> / from_*_bytes::<BYTES> assert BYTES == Self::BYTES on entry
                # (documented panic otherwise): analysed under that binding
                v = prog.const_cfg.get(BYTES_CONST, {}).get(cfg)
                if v is not None:
                    self.env["BYTES"] = v
        self.blocks = body["blocks"]
        self.nlocals = len(body["locals"])
        self.nargs = body.get("arg_count", 0)
        self._defs = None
        self._const_memo = {}
        self._succ = None
        self._reach = None
        self._dom = None
        self._preds = None

    # -- definitions --------------------------------------------------------
    @property
    def defs(self):
        """local -> list of (block, stmt index or 'term', rvalue-or-call)"""
        if self._defs is None:
            d = collections.defaultdict(list)
            for bi, blk in enumerate(self.blocks):
                if blk.get("cleanup"):
                    continue
                for si, s in enumerate(blk["stmts"]):
                    if s["s"] in ("assign", "setdiscr"):
                        d[s["pl"]["l"]].append((bi, si, s))
                t = blk["term"]
                if t["t"] == "call":
                    d[t["dest"]["l"]].append((bi, "term", t))
            self._defs = d
        return self._defs

    def local_ty(self, l):
        return self.body["locals"][l]["ty"]

    def local_tyname(self, l):
        t = self.local_ty(l)
        return t["n"] if t["k"] == "prim" else None

    def local_name(self, l):
        return self.body["locals"][l].get("name")

    def is_arg(self, l):
        return 1 <= l <= self.nargs

    def single_def(self, l):
        """The unique whole-local assignment of l, or None."""
        if self.is_arg(l):
            return None
        ds = self.defs.get(l, [])
        if len(ds) != 1:
            return None
        bi, si, s = ds[0]
        if si == "term":
            if s["dest"]["p"]:
                return None
            return ds[0]
        if s["s"] != "assign" or s["pl"]["p"]:
            return None
        return ds[0]

    # -- configuration constants -------------------------------------------
    def const_of_operand(self, op):
        o = op.get("o")
        if o == "const":
            c = op.get("c")
            if c == "lit":
                return op.get("sv", op["v"])
            if c == "param":
                return self.env.get(op["n"])
            if c == "uneval":
                if "v" in op:
                    return op["v"]
                return self.prog.const_value(op["def"], op["args"], self.env)
            return None
        if o in ("copy", "move"):
            if not op["p"]:
                return self.const_of_local(op["l"])
            # field 0 / 1 of a checked arithmetic pair
            if len(op["p"]) == 1 and op["p"][0][0] == "f":
                d = self.single_def(op["l"])
                if d and d[1] != "term" and d[2]["rv"]["r"] == "bin" and d[2]["rv"]["op"].endswith("WithOverflow"):
                    rv = d[2]["rv"]
                    a = self.const_of_operand(rv["a"])
                    b = self.const_of_operand(rv["b"])
                    if a is None or b is None:
                        return None
                    tys = self.local_ty(op["l"])
                    tn = tys["ts"][0]["n"] if tys["k"] == "tuple" else None
                    full = {"AddWithOverflow": a + b, "SubWithOverflow": a - b, "MulWithOverflow": a * b}.get(rv["op"])
                    if full is None or tn is None:
                        return None
                    w = wrap(full, tn)
                    return w if op["p"][0][1] == 0 else int(w != full)
        return None

    def const_of_local(self, l):
        if l in self._const_memo:
            return self._const_memo[l]
        self._const_memo[l] = None  # cycle guard
        v = None
        d = self.single_def(l)
        if d is not None and d[1] != "term":
            v = self.const_of_rvalue(d[2]["rv"], self.local_tyname(l))
        elif d is not None and d[1] == "term":
            v = self.const_of_call(d[2], self.local_tyname(l))
        self._const_memo[l] = v
        return v

    def const_of_call(self, t, tyname):
        name = callee_name(t["fn"])
        args = [self.const_of_operand(a) for a in t["args"]]
        if any(a is None for a in args):
            return None
        if name in ("core::cmp::min", "core::cmp::Ord::min") and len(args) == 2:
            return min(args)
        if name in ("core::cmp::max", "core::cmp::Ord::max") and len(args) == 2:
            return max(args)
        if name == "crate::nlimbs" and len(args) == 1:
            return (args[0] + 63) // 64
        if name == "core::num::<impl usize>::saturating_sub" and len(args) == 2:
            return max(0, args[0] - args[1])
        if name == "core::num::<impl u64>::leading_zeros" and len(args) == 1:
            return 64 - args[0].bit_length()
        return None

    def const_of_rvalue(self, rv, tyname):
        k = rv["r"]
        if k == "use":
            return self.const_of_operand(rv["a"])
        if k == "cast" and rv["kind"] in ("IntToInt",):
            v = self.const_of_operand(rv["a"])
            if v is None:
                return None
            tn = rv["ty"]["n"] if rv["ty"]["k"] == "prim" else None
            return wrap(v, tn) if tn else None
        if k == "un":
            v = self.const_of_operand(rv["a"])
            if v is None:
                return None
            if rv["op"] == "Not":
                if tyname == "bool":
                    return int(not v)
                return wrap(~v, tyname) if tyname else None
            if rv["op"] == "Neg":
                return wrap(-v, tyname) if tyname else None
            return None
        if k == "bin":
            a = self.const_of_operand(rv["a"])
            b = self.const_of_operand(rv["b"])
            op = rv["op"]
            # short-circuit identities with one unknown operand
            if a is None or b is None:
                if op == "BitAnd" and (a == 0 or b == 0):
                    return 0
                if op == "Mul" and (a == 0 or b == 0):
                    return 0
                return None
            op = op.replace("Unchecked", "")
            try:
                if op == "Add":
                    r = a + b
                elif op == "Sub":
                    r = a - b
                elif op == "Mul":
                    r = a * b
                elif op == "Div":
                    if b == 0:
                        return None
                    r = abs(a) // abs(b) * (1 if (a >= 0) == (b >= 0) else -1)
                elif op == "Rem":
                    if b == 0:
                        return None
                    r = abs(a) % abs(b) * (1 if a >= 0 else -1)
                elif op == "BitAnd":
                    r = a & b
                elif op == "BitOr":
                    r = a | b
                elif op == "BitXor":
                    r = a ^ b
                elif op == "Shl":
                    bits = INT_BITS.get(tyname or "", 64)
                    r = a << (b % bits)
                elif op == "Shr":
                    bits = INT_BITS.get(tyname or "", 64)
                    r = a >> (b % bits)
                elif op == "Eq":
                    return int(a == b)
                elif op == "Ne":
                    return int(a != b)
                elif op == "Lt":
                    return int(a < b)
                elif op == "Le":
                    return int(a <= b)
                elif op == "Gt":
                    return int(a > b)
                elif op == "Ge":
                    return int(a >= b)
                else:
                    return None
            except (ValueError, OverflowError):
                return None
            return wrap(r, tyname) if tyname else None
        return None

    # -- pruned CFG ---------------------------------------------------------
    def term_succ(self, bi):
        """Successors of block bi on the pruned CFG (no unwind edges)."""
        t = self.blocks[bi]["term"]
        k = t["t"]
        if k == "goto" or k == "drop":
            return [t["target"]]
        if k == "switch":
            d = self.const_of_operand(t["discr"])
            if d is not None:
                d &= (1 << 128) - 1
                for v, b in t["targets"]:
                    if v == d:
                        return [b]
                return [t["otherwise"]]
            seen = []
            for v, b in t["targets"]:
                if b not in seen:
                    seen.append(b)
            if t["otherwise"] not in seen:
                # an `otherwise` leading to an `unreachable` block is not an edge
                ob = self.blocks[t["otherwise"]]
                if not (ob["term"]["t"] == "unreachable" and not ob["stmts"]):
                    seen.append(t["otherwise"])
            return seen
        if k == "call":
            return [t["target"]] if t["target"] is not None else []
        if k == "assert":
            c = self.const_of_operand(t["cond"])
            if c is not None and bool(c) != t["expected"]:
                return []  # always fails
            return [t["target"]]
        return []

    @property
    def succ(self):
        if self._succ is None:
            self._succ = {}
            for bi, blk in enumerate(self.blocks):
                if not blk.get("cleanup"):
                    self._succ[bi] = self.term_succ(bi)
        return self._succ

    @property
    def reachable(self):
        if self._reach is None:
            seen = set()
            st = [0]
            while st:
                b = st.pop()
                if b in seen:
                    continue
                seen.add(b)
                st.extend(self.succ.get(b, []))
            self._reach = seen
        return self._reach

    @property
    def preds(self):
        if self._preds is None:
            p = collections.defaultdict(list)
            for b in self.reachable:
                for s in self.succ[b]:
                    p[s].append(b)
            self._preds = p
        return self._preds

    def rpo(self):
        seen = set()
        order = []

        def dfs(b):
            stack = [(b, iter(self.succ.get(b, [])))]
            seen.add(b)
            while stack:
                n, it = stack[-1]
                adv = False
                for s in it:
                    if s not in seen:
                        seen.add(s)
                        stack.append((s, iter(self.succ.get(s, []))))
                        adv = True
                        break
                if not adv:
                    order.append(n)
                    stack.pop()
        dfs(0)
        order.reverse()
        return order

    @property
    def dom(self):
        """Immediate-dominator-free representation: dom[b] = set of dominators."""
        if self._dom is None:
            order = self.rpo()
            allb = set(order)
            dom = {b: set(allb) for b in order}
            dom[0] = {0}
            changed = True
            while changed:
                changed = False
                for b in order:
                    if b == 0:
                        continue
                    ps = [p for p in self.preds[b] if p in dom]
                    if not ps:
                        continue
                    new = set.intersection(*(dom[p] for p in ps)) | {b}
                    if new != dom[b]:
                        dom[b] = new
                        changed = True
            self._dom = dom
        return self._dom

    def dominates(self, a, b):
        return a in self.dom.get(b, ())

    def edge_dominates(self, a, succ_a, b):
        """Every path entry->b passes through edge a->succ_a."""
        if b == succ_a and len(self.preds[succ_a]) == 1:
            return True
        if not self.dominates(a, b):
            return False
        # remove the edge and test reachability of b
        seen = set()
        st = [0]
        while st:
            n = st.pop()
            if n in seen:
                continue
            seen.add(n)
            if n == b:
                return False
            for s in self.succ.get(n, []):
                if n == a and s == succ_a:
                    continue
                st.append(s)
        return True

    def return_blocks(self):
        return [b for b in self.reachable if self.blocks[b]["term"]["t"] == "return"]

    # -- misc ---------------------------------------------------------------
    def calls(self):
        """(block index, terminator) for each reachable call."""
        for b in sorted(self.reachable):
            t = self.blocks[b]["term"]
            if t["t"] == "call":
                yield b, t

    def where(self, bi):
        return "%s:%s" % (self.body["file"], self.blocks[bi]["term"].get("line"))

    def chase(self, op, depth=12):
        """Follow copies/moves of plain locals to the defining rvalue/call.
        Returns ('const', op) | ('arg', l) | ('rv', rv, block) | ('call', term, block) |
        ('place', op) | ('multi', l)."""
        while depth > 0:
            depth -= 1
            if op.get("o") == "const":
                return ("const", op)
            if op["p"]:
                # deref of a reference local created by a single `&place`
                return ("place", op)
            l = op["l"]
            if self.is_arg(l):
                return ("arg", l)
            d = self.single_def(l)
            if d is None:
                return ("multi", l)
            bi, si, s = d
            if si == "term":
                return ("call", s, bi)
            rv = s["rv"]
            if rv["r"] == "use":
                op = rv["a"]
                continue
            return ("rv", rv, bi)
        return ("multi", -1)


def local_helpers(prog, key, depth=4):
    """Private, non-trait functions of the same file that `key` reaches through calls (transitively), with their
    closures: code a maintainer moved out of `key` with extract-function is still part of what `key` does."""
    b0 = prog.bodies[key]
    out, todo = [], [(key, 0)]
    seen = {key}
    while todo:
        k, d = todo.pop()
        v = prog.view(k, None)
        for _bi, t in v.calls():
            n = callee_name(t["fn"])
            b = prog.bodies.get(n)
            if b is None or n in seen:
                continue
            is_closure = b["kind"] == "Closure"
            private_helper = b["kind"] in ("Fn", "AssocFn") and b.get("vis") != "pub" and b["file"] == b0["file"] \
                and not (prog.impl_of(b) or {}).get("trait")
            if (is_closure or private_helper) and d < depth:
                seen.add(n)
                out.append(n)
                todo.append((n, d + 1))
        for k2 in prog.bodies:
            if k2.startswith(k + "::{closure") and k2 not in seen:
                seen.add(k2)
                out.append(k2)
                todo.append((k2, d + 1))
    return out


_SOLE_CALLER = {}


def sole_caller(prog, key):
    """The one function that calls the private, non-trait function `key` (closures count for their root function),
    or None.  A helper extracted from a function is still that function's code: reviewed rows follow it."""
    memo = _SOLE_CALLER.setdefault(id(prog), {})
    if not memo:
        cg = CallGraph(prog)
        rev = collections.defaultdict(set)
        for src, dsts in cg.edges.items():
            root = re.sub(r"(::\{closure#\d+\})+$", "", src)
            for d in dsts:
                if re.sub(r"(::\{closure#\d+\})+$", "", d) != root:
                    rev[d].add(root)
        memo["_rev"] = rev
    b = prog.bodies.get(key)
    if b is None or b["kind"] not in ("Fn", "AssocFn") or b.get("vis") == "pub" or (prog.impl_of(b) or {}).get("trait"):
        return None
    callers = memo["_rev"].get(key, set())
    return next(iter(callers)) if len(callers) == 1 else None


class CallGraph:
    """Def-level call graph of the local crate."""

    def __init__(self, prog):
        self.prog = prog
        self.edges = collections.defaultdict(set)     # key -> local callee keys
        self.foreign = collections.defaultdict(set)   # key -> foreign callee names
        self.unresolved = collections.defaultdict(set)  # key -> trait method defs
        self.trait_impls = collections.defaultdict(list)  # trait method def -> local impl method keys
        for b in prog.facts["bodies"]:
            ti = b.get("trait_item")
            if ti:
                self.trait_impls[ti].append(b["key"])
        for b in prog.facts["bodies"]:
            self._scan(b)

    def _add_fn(self, src, op):
        d, r, f = callee_keys(op)
        for k in (f, r):
            if k and k in self.prog.bodies:
                self.edges[src].add(k)
        if op.get("res") is None and op.get("trait"):
            self.unresolved[src].add(op["def"])
        tgt = f or r or d
        if tgt and tgt not in self.prog.bodies:
            self.foreign[src].add(tgt)
        # fn items / closures passed as generic args
        for a in op.get("args", []) + op.get("res_args", []):
            self._scan_ty(src, a)

    def _scan_ty(self, src, t):
        k = t.get("k")
        if k == "closure":
            if t["def"] in self.prog.bodies:
                self.edges[src].add(t["def"])
        elif k == "fndef":
            if t["def"] in self.prog.bodies:
                self.edges[src].add(t["def"])
        elif k == "adt":
            for a in t["a"]:
                if "k" in a:
                    self._scan_ty(src, a)
        elif k in ("ref", "ptr", "array", "slice"):
            self._scan_ty(src, t["t"])
        elif k == "tuple":
            for x in t["ts"]:
                self._scan_ty(src, x)

    def _scan(self, b):
        src = b["key"]
        for blk in b["blocks"]:
            if blk.get("cleanup"):
                continue
            for op in operands_of_block(blk):
                if op.get("o") == "const":
                    if op.get("c") == "fn":
                        self._add_fn(src, op)
                    elif op.get("c") == "closure" and op["def"] in self.prog.bodies:
                        self.edges[src].add(op["def"])
                    elif op.get("c") == "uneval" and op["def"] in self.prog.bodies:
                        self.edges[src].add(op["def"])
            for s in blk["stmts"]:
                if s["s"] == "assign" and s["rv"]["r"] == "agg" and s["rv"].get("kind") == "closure":
                    if s["rv"]["def"] in self.prog.bodies:
                        self.edges[src].add(s["rv"]["def"])
        for m in b.get("mentioned", []):
            self._add_fn(src, dict(m, o="const", c="fn"))
        for rc in b.get("required_consts", []):
            if rc["def"] in self.prog.bodies:
                self.edges[src].add(rc["def"])

    def closure(self, roots, follow=None):
        seen = set()
        st = list(roots)
        while st:
            n = st.pop()
            if n in seen:
                continue
            seen.add(n)
            for c in self.edges.get(n, ()):
                if follow is None or follow(n, c):
                    st.append(c)
        return seen
