"""Entry-point specifications of R-TOTAL per property (regexes over file / fn name / key)."""

TOTAL_ENTRIES = {
    "C01": [{"file": r"^src/add\.rs$"}],
    "C02": [{"file": r"^src/mul\.rs$", "exclude": r"widening_mul"}],
    "C03": [{"file": r"^src/div\.rs$", "name": r"checked_div|checked_rem"},
            {"file": r"^src/special\.rs$", "name": r"checked_next_multiple_of"},
            {"file": r"^src/support/num_traits\.rs$", "name": r"checked_div|checked_rem|checked_div_euclid|checked_rem_euclid"}],
    "C05": [{"file": r"^src/bits\.rs$", "name": r"(checked|overflowing|saturating|wrapping)_(shl|shr)|rotate_left|rotate_right|"
                                                 r"arithmetic_shr|shl|shr|shl_assign|shr_assign"}],
    "C06": [{"file": r"^src/bits\.rs$", "name": r"bit|set_bit|checked_byte|reverse_bits|not|leading_zeros|leading_ones|"
                                                 r"trailing_zeros|trailing_ones|count_ones|count_zeros|bit_len|byte_len|"
                                                 r"most_significant_bits|bit(or|and|xor)(_assign)?"},
            {"file": r"^src/special\.rs$", "name": r"is_power_of_two|checked_next_power_of_two"}],
    "C07": [{"file": r"^src/from\.rs$", "name": r"try_from|uint_try_from|uint_try_to|saturating_from|wrapping_from|"
                                                 r"wrapping_to|saturating_to|checked_from_uint"},
            {"file": r"^src/lib\.rs$", "name": r"(checked|wrapping|overflowing|saturating)_from_limbs_slice"}],
    "C08": [{"file": r"^src/bytes\.rs$", "name": r"try_from_(be|le)_slice|checked_copy_(le|be)_bytes_to|as_le_slice|"
                                                  r"as_le_bytes|as_le_bytes_trimmed|to_(le|be)_bytes_vec|"
                                                  r"to_(le|be)_bytes_trimmed_vec"}],
    "C09": [{"file": r"^src/string\.rs$", "name": r"from_str|from_str_radix"},
            {"file": r"^src/base_convert\.rs$", "name": r"from_base_le|from_base_be"},
            {"file": r"^src/fmt\.rs$", "name": r"fmt"},
            {"file": r"^src/bit_arr\.rs$", "name": r"from_str|from_str_radix"}],
    "C10": [{"file": r"^src/modular\.rs$", "name": r"reduce_mod|add_mod|mul_mod|pow_mod|inv_mod"}],
    "C11": [{"file": r"^src/algorithms/mul_redc\.rs$", "name": r"mul_redc|square_redc"},
            {"file": r"^src/modular\.rs$", "name": r"mul_redc|square_redc"}],
    "C12": [{"file": r"^src/gcd\.rs$", "name": r"gcd|lcm|gcd_extended"},
            {"file": r"^src/modular\.rs$", "name": r"inv_mod"},
            {"file": r"^src/algorithms/gcd/mod\.rs$", "name": r"gcd|gcd_extended|inv_mod"},
            {"file": r"^src/algorithms/gcd/matrix\.rs$", "name": r"from|from_u64|from_u64_prefix|from_u128_prefix|apply|apply_u128|compose"}],
    "C14": [{"file": r"^src/algorithms/div/(mod|knuth|small|reciprocal)\.rs$",
             "name": r"div|div_nxm|div_nxm_normalized|div_nx1|div_nx1_normalized|div_nx2|div_nx2_normalized|div_2x1_ref|"
                     r"div_2x1_mg10|div_3x2_ref|div_3x2_mg10|reciprocal_ref|reciprocal_mg10|reciprocal_2_mg10"}],
    "C13": [{"file": r"^src/log\.rs$", "name": r"checked_log|checked_log2|checked_log10"},
            {"file": r"^src/pow\.rs$", "name": r"checked_pow|overflowing_pow|saturating_pow|wrapping_pow|pow"}],
    "C15": [{"file": r"^src/algorithms/(mul|add|ops|shift|mod)\.rs$",
             "name": r"addmul|addmul_n|mul_nx1|addmul_nx1|submul_nx1|add_nx1|adc_n|sbb_n|adc|sbb|carrying_add|borrowing_sub|"
                     r"shift_left_small|shift_right_small|cmp|join|add|mul|muladd|muladd2|high|low|split"}],
    "C16": [{"file": r"^src/support/(alloy_rlp|fastrlp_03|fastrlp_04)\.rs$", "name": r"length|encode"},
            {"file": r"^src/support/rlp\.rs$", "name": r"rlp_append"},
            {"file": r"^src/support/scale\.rs$", "name": r"size_hint|using_encoded|max_encoded_len|encode_as"},
            {"file": r"^src/support/ssz\.rs$", "name": r"ssz_bytes_len|ssz_append|ssz_fixed_len|is_ssz_fixed_len"},
            {"file": r"^src/support/borsh\.rs$", "name": r"serialize"},
            {"file": r"^src/support/der\.rs$", "name": r"value_len|encode_value|value_cmp"},
            {"file": r"^src/support/serde\.rs$", "name": r"serialize"},
            {"file": r"^src/support/num_bigint\.rs$", "name": r"from"},
            {"file": r"^src/support/postgres\.rs$", "name": r"accepts|to_sql"}],
    "C17": [{"file": r"^src/support/(alloy_rlp|fastrlp_03|fastrlp_04|rlp)\.rs$", "name": r"decode"},
            {"file": r"^src/support/scale\.rs$", "name": r"decode|decode_from|read|remaining_len"},
            {"file": r"^src/support/ssz\.rs$", "name": r"from_ssz_bytes"},
            {"file": r"^src/support/borsh\.rs$", "name": r"deserialize_reader"},
            {"file": r"^src/support/der\.rs$", "name": r"decode_value|try_from"},
            {"file": r"^src/support/serde\.rs$", "name": r"deserialize|visit_.*"},
            {"file": r"^src/support/postgres\.rs$", "name": r"from_sql"},
            {"file": r"^src/support/num_bigint\.rs$", "name": r"try_from"},
            {"file": r"^src/support/(sqlx|diesel|pyo3|bn_rs)\.rs$", "name": r"decode|from_sql|extract|try_from|build"},
            {"file": r"^src/bytes\.rs$", "name": r"try_from_(be|le)_slice"},
            {"file": r"^src/string\.rs$", "name": r"from_str|from_str_radix"}],
    "C18": [{"file": r"^src/from\.rs$", "key": r"TryFrom<f(32|64)> for crate::Uint|From<&?crate::Uint<BITS, LIMBS>> for f(32|64)"}],
    "C20": [{"file": r"^src/support/(num_traits|num_integer|subtle|zeroize)\.rs$"},
            {"file": r"^src/bit_arr\.rs$"}],
}
