"""Interprocedural may-panic analysis with guard-based discharge (R-TOTAL core).

For every function F and configuration C it computes the list of *residual*
panic sites: sites in F or in its callees that no discharge rule removes.
Each residual site carries *guards* -- comparisons over F's parameters that
are necessarily true on every path to the site -- so that a caller can still
discharge it when the actual arguments refute a guard (this is how
`from_limbs(limbs)` is panic-free when the caller established
`limbs[LIMBS-1] <= MASK`, rule D-mask) and *predicates* on parameters that a
reviewed table row attaches to a kernel site (`nonzero(divisor)`, rule D-zero).
"""
import json
import os
import re
from . import absint, ir, linear, panics

_LP = os.path.join(os.path.dirname(os.path.dirname(os.path.abspath(__file__))), "tables", "linear_pre.json")


def load_linear_pre():
    """Documented length preconditions of the kernels (tables/linear_pre.json): assumed inside the function, proved at
    every call site inside the crate."""
    try:
        with open(_LP) as fh:
            return json.load(fh)
    except OSError:
        return {}

MAX_DEPTH = 40

# Modelled summaries (DESIGN R-TOTAL, D-lit): panic-freedom of `Uint::from(c)` for a
# literal c in configuration (B, L).  The model "Err only when the value does not fit"
# is itself an obligation on TryFrom<u64> checked by R-GUARD (C07).
UINT_FROM = "crate::from::<impl crate::Uint<BITS, LIMBS>>::from"


class Residual:
    """An undischarged site as seen from function `fn`."""
    __slots__ = ("origin_fn", "origin_kind", "origin_what", "origin_where", "origin_macro", "chain",
                 "guards", "preds", "cfg", "precond")

    def __init__(self, origin_fn, origin_kind, origin_what, origin_where, origin_macro, chain, guards, preds):
        self.origin_fn = origin_fn
        self.origin_kind = origin_kind
        self.origin_what = origin_what
        self.origin_where = origin_where
        self.origin_macro = origin_macro
        self.chain = chain          # call chain from the function down to the origin
        self.guards = guards        # list of (op, keyA, keyB, truth) over param keys
        self.preds = preds          # list of ("nonzero", param local)
        self.precond = None         # reviewed row: a documented precondition of the origin function itself

    def site_key(self):
        """Stable key of the origin site: function + kind + what (no line numbers)."""
        return "%s|%s|%s" % (self.origin_fn, self.origin_kind, self.origin_what)


def param_key(view, ai, key):
    """Translate an absint key into a parameter key valid at function entry, or None."""
    if isinstance(key, tuple) and key[0] == "c":
        return key
    root = absint.key_root(key)
    if root is None or not view.is_arg(root) or view.defs.get(root) or root in ai.escaped:
        return None
    if isinstance(key, int):
        return ("arg", key)
    if key[0] == "elem":
        # array parameter never written (defs empty covers element writes)
        return ("argelem", key[1], key[2])
    if key[0] == "len":
        return ("arglen", key[1])
    if key[0] == "pl":
        return ("argfld", key[1], key[2])
    return None


# Implicit sites (bounds checks, slice ranges, split_at, ...) of the division and GCD kernels are inventoried by the
# properties that are about those kernels (C14, C12; C11 for mul_redc.rs): there the indices depend on run-time
# lengths and are decided by D-lin (vcheck/linear.py).  For every other property that merely *reaches* the kernels
# (C03, C10, C13, ...) they stay trusted leaves, so that a restructuring of a kernel the linear domain cannot follow
# is reported once, by the property that owns the kernel, not by every property above it.  The multiplication
# kernels, cmp, the shift helpers and the double-word ops are in everybody's scope (interval engine).
KERNEL_OUT_OF_SCOPE = ("src/algorithms/div", "src/algorithms/gcd")


def default_implicit_scope(body):
    return not (KERNEL_OUT_OF_SCOPE and body["file"].startswith(KERNEL_OUT_OF_SCOPE))


class Totality:
    def __init__(self, prog, table=None, implicit_scope=None, cfg_set=None):
        self.prog = prog
        self.cfg_set = list(cfg_set or [])
        self.table = table or {}
        self.memo = {}
        self.ai_memo = {}
        self.inprogress = set()
        # implicit sites (bounds checks, slice ranges, ...) are inventoried only outside the kernels
        self.implicit_scope = implicit_scope or default_implicit_scope
        self.stats = {"functions": 0, "sites": 0, "discharged": 0, "table": 0}
        self.table_used = set()
        self.row_failures = []
        self.discharge_log = []
        self.linear_pre = load_linear_pre()
        self.lin_memo = {}
        self.linear_pre_used = set()

    # ------------------------------------------------------------------
    def ai(self, key, cfg):
        k = (key, cfg)
        if k not in self.ai_memo:
            view = self.prog.view(key, cfg)
            self.ai_memo[k] = None   # recursion guard
            hints = self._closure_arg_hints(key, cfg)
            self.ai_memo[k] = absint.Analysis(view, arg_intervals=None if hints == "never" else hints,
                                              ret_len=self._ret_len, ret_discr=self._ret_discr,
                                              ret_interval=self._ret_interval, ret_paths=self._ret_paths)
        return self.ai_memo[k]

    def _closure_arg_hints(self, key, cfg):
        """Intervals of a closure's own parameters that its one call site fixes: the callback of
        `core::array::from_fn::<_, N, _>` is called with every index below N and nothing else."""
        body = self.prog.bodies.get(key)
        if body is None or body["kind"] != "Closure" or "::{closure" not in key:
            return None
        parent = key[:key.rindex("::{closure")]
        if parent not in self.prog.bodies:
            return None
        pv = self.prog.view(parent, cfg)
        for _bi, t in pv.calls():
            f = t["fn"]
            if (ir.callee_name(f) or "") != "core::array::from_fn":
                continue
            gargs = f.get("args", [])
            if not any(a.get("k") == "closure" and a.get("def") == key for a in gargs):
                continue
            for a in gargs:
                n = None
                if a.get("c") == "lit":
                    n = a.get("v")
                elif a.get("c") == "param":
                    n = pv.env.get(a.get("n"))
                if isinstance(n, int):
                    # local 1 is the closure environment, local 2 the index; N == 0: the callback is never called
                    return {2: (0, n - 1)} if n > 0 else "never"
        return None

    def _ret_paths(self, callee, term, caller_ai, st, depth=[0]):
        """Intervals of the scalar fields of the tuple a small local function returns, for the argument intervals of
        this call (e.g. overflowing_add at BITS == 0 returns (ZERO, false))."""
        cb = self.prog.bodies[callee]
        if cb["kind"] not in ("Fn", "AssocFn") or len(cb["blocks"]) > 60 or depth[0] > 3:
            return None
        ccfg = self.callee_cfg(caller_ai.v, term["fn"], callee, caller_ai.v.cfg)
        if ccfg == "any":
            return None
        argiv = {}
        for i, a in enumerate(term["args"]):
            iv, _ = caller_ai.eval_operand(st, a)
            if iv is not None:
                argiv[i + 1] = iv
        eff = ccfg if "BITS" in self.prog.const_params(cb) else None
        mk = ("paths", callee, eff, tuple(sorted(argiv.items())))
        if mk not in self.ai_memo:
            self.ai_memo[mk] = None
            depth[0] += 1
            try:
                a = absint.Analysis(self.prog.view(callee, eff), arg_intervals=argiv, ret_interval=self._ret_interval,
                                    ret_paths=self._ret_paths, ret_discr=self._ret_discr)
                self.ai_memo[mk] = a.return_paths()
            except RuntimeError:
                self.ai_memo[mk] = None
            finally:
                depth[0] -= 1
        return self.ai_memo[mk]

    def _ret_interval(self, callee, term, caller_ai, st, depth=[0]):
        """Interval of the integer a small local function returns for the argument intervals of this call
        (e.g. rem_up(len, 8) in [1, 8], nbytes(BITS)); contextual, memoised, recursion-bounded."""
        cb = self.prog.bodies[callee]
        if cb["kind"] not in ("Fn", "AssocFn") or len(cb["blocks"]) > 40 or depth[0] > 3:
            return None
        ccfg = self.callee_cfg(caller_ai.v, term["fn"], callee, caller_ai.v.cfg)
        if ccfg == "any":
            return None
        argiv = {}
        for i, a in enumerate(term["args"]):
            iv, _ = caller_ai.eval_operand(st, a)
            if iv is not None:
                argiv[i + 1] = iv
        eff = ccfg if "BITS" in self.prog.const_params(cb) else None
        # what the caller knows about the limbs of an immutable Uint it passes on (after a bit_len test, say)
        plimbs = {}
        if eff is not None and eff == caller_ai.v.cfg:
            for i, a in enumerate(term["args"]):
                if a.get("o") in ("copy", "move") and not a["p"]:
                    ua = caller_ai.uint_arg_of(a["l"])
                    if ua is not None:
                        known = {}
                        for k_ in range(eff[1]):
                            iv = st.iv.get(("plimb", ua, k_))
                            if iv is not None:
                                known[k_] = iv
                        if known:
                            plimbs[i + 1] = known
        mk = ("ival", callee, eff, tuple(sorted(argiv.items())),
              tuple(sorted((p_, tuple(sorted(d_.items()))) for p_, d_ in plimbs.items())))
        if mk not in self.ai_memo:
            self.ai_memo[mk] = None
            depth[0] += 1
            try:
                a = absint.Analysis(self.prog.view(callee, eff), arg_intervals=argiv, ret_interval=self._ret_interval,
                                    arg_plimbs=plimbs)
                self.ai_memo[mk] = a.return_interval()
            except RuntimeError:
                self.ai_memo[mk] = None
            finally:
                depth[0] -= 1
        return self.ai_memo[mk]

    def _ret_discr(self, callee, term, caller_ai, st):
        """Discriminant of the enum a local function returns when all its scalar arguments are
        constants at this call (e.g. `Self::try_from(2_u64)` is always Err for BITS < 2)."""
        ccfg = self.callee_cfg(caller_ai.v, term["fn"], callee, caller_ai.v.cfg)
        if ccfg == "any":
            return None
        cb = self.prog.bodies[callee]
        if cb["kind"] not in ("Fn", "AssocFn"):
            return None
        argiv = {}
        for i, a in enumerate(term["args"]):
            iv, _ = caller_ai.eval_operand(st, a)
            if iv is None or iv[0] != iv[1]:
                return None
            argiv[i + 1] = iv
        if not argiv:
            return None
        eff = ccfg if "BITS" in self.prog.const_params(cb) else None
        mk = ("discr", callee, eff, tuple(sorted(argiv.items())))
        if mk not in self.ai_memo:
            self.ai_memo[mk] = None
            try:
                a = absint.Analysis(self.prog.view(callee, eff), arg_intervals=argiv)
                self.ai_memo[mk] = a.return_discr()
            except RuntimeError:
                self.ai_memo[mk] = None
        return self.ai_memo[mk]

    def _ret_len(self, callee, term, caller_ai):
        """Length of the slice a local function returns, inferred from its own body."""
        ccfg = self.callee_cfg(caller_ai.v, term["fn"], callee, caller_ai.v.cfg)
        if ccfg == "any":
            return None
        k = (callee, ccfg if "BITS" in self.prog.const_params(self.prog.bodies[callee]) else None)
        if k in self.ai_memo and self.ai_memo[k] is None:
            return None
        a = self.ai(*k)
        return a.return_len() if a is not None else None

    def residuals(self, key, cfg, depth=0):
        """Residual sites of function `key` under configuration cfg."""
        body = self.prog.bodies[key]
        eff_cfg = cfg if "BITS" in self.prog.const_params(body) else None
        mk = (key, eff_cfg)
        if mk in self.memo:
            return self.memo[mk]
        if mk in self.inprogress or depth > MAX_DEPTH:
            return []   # recursion: the sites of the cycle are found in their own bodies
        self.inprogress.add(mk)
        try:
            res = self._analyse(key, eff_cfg, depth)
        finally:
            self.inprogress.discard(mk)
        self.memo[mk] = res
        return res

    # ------------------------------------------------------------------
    def _guards_for(self, view, ai, site_block):
        """Parameter comparisons that hold on every path to site_block."""
        guards = []
        for b in view.dom.get(site_block, ()):
            if b == site_block:
                continue
            t = view.blocks[b]["term"]
            if t["t"] != "switch":
                continue
            succs = view.succ.get(b, [])
            if len(succs) < 2:
                continue
            d = t["discr"]
            if not (d.get("o") in ("copy", "move") and not d["p"]):
                continue
            st = ai.state_before_term(b)
            if st is None:
                continue
            fact = st.bf.get(d["l"])
            if fact is None:
                continue
            pa, pb = param_key(view, ai, fact[1]), param_key(view, ai, fact[2])
            if pa is None or pb is None:
                continue
            for s in succs:
                if view.edge_dominates(b, s, site_block):
                    vals = [v for v, bb in t["targets"] if bb == s]
                    truths = {bool(v) for v in vals}
                    if t["otherwise"] == s:
                        truths |= ({True, False} - {bool(v) for v, _ in t["targets"]})
                    if len(truths) == 1:
                        guards.append((fact[0], pa, pb, truths.pop()))
                    break
        return guards

    @staticmethod
    def _operand_bits(view, op):
        """Bit width of an integer operand (through one deref of a reference local)."""
        if op.get("o") == "const":
            return ir.INT_BITS.get(op.get("ty")) if isinstance(op.get("ty"), str) else None
        if op.get("o") not in ("copy", "move"):
            return None
        ty = view.local_ty(op["l"])
        for e in op["p"]:
            if e == "deref" and ty.get("k") in ("ref", "ptr"):
                ty = ty["t"]
            else:
                return None
        if ty.get("k") == "prim":
            return ir.INT_BITS.get(ty.get("n"))
        return None

    def _site_guard(self, view, a, st, site):
        """The panic condition of the site itself as a parameter comparison, when it has that form:
        bounds check idx >= len, slice[..end] with end > len, split_at(mid) with mid > len."""
        t = site.term

        def pk(op):
            k = a.operand_key(st, op)
            r = param_key(view, a, k) if k is not None else None
            if r is None:
                iv, _ = a.eval_operand(st, op)
                if iv is not None and iv[0] == iv[1]:
                    return ("c", iv[0])
            return r

        def plen(op):
            if op.get("o") not in ("copy", "move") or op["p"]:
                return None
            lk = a.len_key(op["l"], st)
            if lk is None:
                return None
            if lk[0] == "const":
                return ("c", lk[1])
            r = param_key(view, a, lk)
            if r is None:
                iv = a.get(st, lk)
                if iv is not None and iv[0] == iv[1]:
                    return ("c", iv[0])
            return r
        if site.kind == "assert:BoundsCheck":
            ki, kl = pk(t["index"]), pk(t["len"])
            if ki is not None and kl is not None:
                return ("Ge", ki, kl, True)
            return None
        if site.kind == "assert:Overflow" and "b" in t:
            # arithmetic overflow of an unsigned operation as a comparison of its operands
            ka, kb = pk(t["a"]), pk(t["b"])
            tn = None
            for o in (t["a"], t["b"]):
                if o.get("o") in ("copy", "move") and not o["p"]:
                    tn = view.local_tyname(o["l"])
                elif o.get("o") == "const" and isinstance(o.get("ty"), str):
                    tn = tn or o["ty"]
            if t["op"] in ("Shl", "Shr"):
                # `a << b` panics iff b >= width(a); b itself, or b == C - x for an entry value x
                width = self._operand_bits(view, t["a"])
                if width is None:
                    return None
                if kb is not None:
                    return ("Ge", kb, ("c", width), True)
                k = a.operand_key(st, t["b"])
                sy = st.sym.get(k) if k is not None else None
                if sy is not None and sy[0] == "sub":
                    px = param_key(view, a, sy[2])
                    if px is not None:
                        return ("Le", px, ("c", sy[1] - width), True)
                return None
            rng = absint.ty_range(tn) if tn else None
            if rng is None or rng[0] != 0 or ka is None or kb is None:
                return None
            if t["op"] == "Sub":
                return ("Lt", ka, kb, True)
            if t["op"] == "Add" and absint.is_c(kb):
                return ("Gt", ka, ("c", rng[1] - kb[1]), True)
            if t["op"] == "Add" and absint.is_c(ka):
                return ("Gt", kb, ("c", rng[1] - ka[1]), True)
            if t["op"] == "Mul" and absint.is_c(kb) and kb[1] > 0:
                return ("Gt", ka, ("c", rng[1] // kb[1]), True)
            return None
        if site.kind.startswith("assert:"):
            c = t["cond"]
            if c.get("o") in ("copy", "move") and not c["p"]:
                f = st.bf.get(c["l"])
                if f is not None:
                    pa, pb = param_key(view, a, f[1]), param_key(view, a, f[2])
                    if pa is not None and pb is not None:
                        return (f[0], pa, pb, not t["expected"])
            return None
        if site.kind == "foreign":
            name, args = site.callee, t["args"]
            if "index::Index" in name and len(args) == 2 and "for str>" not in name:
                kl = plen(args[0])
                ra = self._range_arg(view, a, st, args[1])
                if kl is None or ra is None:
                    return None
                kind, s_op, e_op = ra
                if kind == "to":
                    ke = pk(e_op)
                    return ("Gt", ke, kl, True) if ke is not None else None
                if kind == "from":
                    ks = pk(s_op)
                    return ("Gt", ks, kl, True) if ks is not None else None
                return None
            if (name.endswith("::split_at") or name.endswith("::split_at_mut")) and "str" not in name and len(args) == 2:
                kl, km = plen(args[0]), pk(args[1])
                if kl is not None and km is not None:
                    return ("Gt", km, kl, True)
        return None

    ORDER_TESTS = {"core::cmp::PartialOrd::lt": "lt", "core::cmp::PartialOrd::le": "le",
                   "core::cmp::PartialOrd::gt": "gt", "core::cmp::PartialOrd::ge": "ge"}
    # relation between (first operand X, second operand Y) established by `X op Y == truth`
    _REL = {("lt", True): "<", ("lt", False): ">=", ("le", True): "<=", ("le", False): ">",
            ("gt", True): ">", ("gt", False): "<=", ("ge", True): ">=", ("ge", False): "<"}
    _FLIP = {"<": ">", ">": "<", "<=": ">=", ">=": "<=", }
    _IMPLIES = {"<": {"<", "<="}, ">": {">", ">="}, "<=": {"<="}, ">=": {">="}}

    def dominated_by_order_test(self, view, site_block, want_op, want_truth, arg_op):
        """site_block is dominated by an edge that establishes the relation `X want_op Y == want_truth`, where X is
        the value of arg_op (None: any operand order-preserving spelling), however the comparison is spelled
        (`a < b` false, `a >= b` true, `b <= a` true ...)."""
        want = self._REL[(want_op, want_truth)]
        xroot = self._value_root(view, arg_op) if arg_op is not None else None
        for b in view.dom.get(site_block, ()):
            t = view.blocks[b]["term"]
            if t["t"] != "switch":
                continue
            d = t["discr"]
            if not (d.get("o") in ("copy", "move") and not d["p"]):
                continue
            ch = view.chase(d)
            neg = False
            if ch[0] == "rv" and ch[1]["r"] == "un" and ch[1]["op"] == "Not":
                ch = view.chase(ch[1]["a"])
                neg = True
            if ch[0] != "call":
                continue
            op = self.ORDER_TESTS.get(ch[1]["fn"].get("def"))
            if op is None or len(ch[1]["args"]) != 2:
                continue
            swapped = False
            if xroot is not None:
                r0, r1 = self._value_root(view, ch[1]["args"][0]), self._value_root(view, ch[1]["args"][1])
                if r0 == xroot:
                    swapped = False
                elif r1 == xroot:
                    swapped = True
                else:
                    continue
            for s_ in view.succ.get(b, []):
                vals = [v_ for v_, bb in t["targets"] if bb == s_]
                truths = {bool(v_) for v_ in vals}
                if t["otherwise"] == s_:
                    truths |= ({True, False} - {bool(v_) for v_, _ in t["targets"]})
                if len(truths) != 1:
                    continue
                tv = truths.pop() != neg
                rel = self._REL[(op, tv)]
                if swapped:
                    rel = self._FLIP[rel]
                if want in self._IMPLIES[rel] and view.edge_dominates(b, s_, site_block):
                    return True
        return False

    def dominated_by_test(self, view, site_block, callee, truth, arg_op=None):
        """site_block is dominated by the `truth` edge of a switch whose discriminant is the result
        of a call to `callee` (side condition of a reviewed table row)."""
        if callee in self.ORDER_TESTS:
            return self.dominated_by_order_test(view, site_block, self.ORDER_TESTS[callee], truth, arg_op)
        for b in view.dom.get(site_block, ()):
            t = view.blocks[b]["term"]
            if t["t"] != "switch":
                continue
            d = t["discr"]
            if not (d.get("o") in ("copy", "move") and not d["p"]):
                continue
            ch = view.chase(d)
            neg = False
            if ch[0] == "rv" and ch[1]["r"] == "un" and ch[1]["op"] == "Not":
                ch = view.chase(ch[1]["a"])
                neg = True
            if ch[0] != "call":
                continue
            if callee not in ir.callee_keys(ch[1]["fn"]):
                continue
            for s in view.succ.get(b, []):
                vals = [v for v, bb in t["targets"] if bb == s]
                truths = {bool(v) for v in vals}
                if t["otherwise"] == s:
                    truths |= ({True, False} - {bool(v) for v, _ in t["targets"]})
                if len(truths) == 1 and (truths.pop() != neg) == truth and view.edge_dominates(b, s, site_block):
                    return True
        return False

    def dominating_conditions(self, view, site_block):
        return dominating_conditions(view, site_block)

    def _unused_dominating_conditions(self, view, site_block):
        out = []
        for b in view.dom.get(site_block, ()):
            t = view.blocks[b]["term"]
            if t["t"] != "switch":
                continue
            d = t["discr"]
            if not (d.get("o") in ("copy", "move") and not d["p"]):
                continue
            ch = view.chase(d)
            neg = False
            if ch[0] == "rv" and ch[1]["r"] == "un" and ch[1]["op"] == "Not":
                ch = view.chase(ch[1]["a"])
                neg = True
            if ch[0] == "call":
                descr = (ir.callee_name(ch[1]["fn"]) or "?").split("::")[-1]
                if ir.is_negated_forward(ch[1]["fn"]):
                    neg = not neg
            elif ch[0] == "rv" and ch[1]["r"] == "bin":
                descr = "%s(%s,%s)" % (ch[1]["op"], panics._named_local(view, ch[1]["a"]),
                                       panics._named_local(view, ch[1]["b"]))
            else:
                continue
            for s in view.succ.get(b, []):
                vals = [v for v, bb in t["targets"] if bb == s]
                truths = {bool(v) for v in vals}
                if t["otherwise"] == s:
                    truths |= ({True, False} - {bool(v) for v, _ in t["targets"]})
                if len(truths) == 1 and view.edge_dominates(b, s, site_block):
                    out.append((descr, truths.pop() != neg))
        return out

    def _row_ok(self, view, block, row):
        """Machine-checked side conditions of a table row."""
        conds = None
        for req in row.get("requires", []):
            if "test" in req:
                if not self.dominated_by_test(view, block, req["test"], req["truth"]):
                    return False
            if "cond" in req:
                if conds is None:
                    conds = self.dominating_conditions(view, block)
                if not cond_holds(req["cond"], req["truth"], conds):
                    return False
            if "bound_from" in req:
                # every run-time bound of the slice operation (range start / end, split_at mid) is read from the result
                # of the named foreign call (whose post-condition the row's reason states)
                t = view.blocks[block]["term"]
                if t["t"] != "call" or len(t["args"]) < 2:
                    return False
                bounds = []
                ra = self._range_arg(view, None, None, t["args"][1])
                if ra is not None:
                    bounds = [o for o in (ra[1], ra[2]) if o is not None]
                else:
                    bounds = [t["args"][1]]
                for o in bounds:
                    if view.const_of_operand(o) is not None or o.get("o") == "const":
                        continue
                    if not self._derives_from_call(view, o, req["bound_from"]):
                        return False
            if "amount_param" in req:
                # the shift amount (operand b of an overflow-checked shift, or the subtrahend of `C - amount`) is the
                # named parameter of the function, unmodified
                t = view.blocks[block]["term"]
                if t["t"] != "assert" or "b" not in t:
                    return False
                rp = self._root_param(view, t["b"])
                if rp != req["amount_param"]:
                    return False
            if "receiver_from" in req:
                # the value the site consumes (first argument of unwrap / expect ...) is the direct result of a call
                # to the named function, e.g. `write!(buffer, ..)` = Write::write_fmt
                t = view.blocks[block]["term"]
                if t["t"] != "call" or not t["args"]:
                    return False
                ch = view.chase(t["args"][0])
                if ch[0] != "call" or (ir.callee_name(ch[1]["fn"]) or "") != req["receiver_from"] and \
                        ch[1]["fn"].get("def") != req["receiver_from"]:
                    return False
        return True

    @staticmethod
    def _derives_from_call(view, op, callee, depth=12):
        """op is a copy / field read / Try::branch payload of the value returned by a call to `callee`."""
        seen = set()
        while depth > 0 and op.get("o") in ("copy", "move"):
            depth -= 1
            l = op["l"]
            if l in seen:
                return False
            seen.add(l)
            d = view.single_def(l)
            if d is None:
                return False
            if d[1] == "term":
                nm = ir.callee_name(d[2]["fn"]) or ""
                if nm == callee or d[2]["fn"].get("def") == callee:
                    return True
                if nm.endswith("::try_trait::Try>::branch") and d[2]["args"]:
                    op = d[2]["args"][0]
                    continue
                return False
            rv = d[2]["rv"]
            if rv["r"] == "use":
                op = rv["a"]
            elif rv["r"] in ("ref",):
                op = {"o": "copy", "l": rv["pl"]["l"], "p": rv["pl"]["p"]}
            else:
                return False
        return False

    @staticmethod
    def _root_fn(key):
        return re.sub(r"(::\{closure#\d+\})+$", "", key)

    _LOCAL_NAME = re.compile(r"\b[a-z_][a-z0-9_]*\b(?!\()")

    @classmethod
    def norm_what(cls, what):
        """Discriminator with the names of local variables blanked: `Overflow(Add:total,count_ones())` and
        `Overflow(Add:sum,count_ones())` are the same site.  Operators, callees (followed by `(`), constants and
        const parameters (upper case) and literals are kept."""
        return cls._LOCAL_NAME.sub("$", re.sub(r"~\d+$", "", what))

    def _table_row(self, fn_key, kind, what, unique_norm=False):
        """Reviewed row for a site.  A row belongs to a function *and its closures*: moving a statement between a
        function body and a closure inside it (iterator chain <-> loop) does not orphan the row.  unique_norm: the
        site is the only one of its kind in its function with this name-blanked discriminator, so a row that matches
        up to the names of local variables (a rename) is this site's row, provided it is the only such row."""
        self._row_owner = fn_key
        root = self._root_fn(fn_key)
        owners = [fn_key] + [k for k in self.table if k != fn_key and self._root_fn(k) == root]
        sc = ir.sole_caller(self.prog, root)
        if sc is not None:
            # a private helper with exactly one caller is that caller's code (extract-function refactoring)
            owners += [k for k in self.table if self._root_fn(k) == sc]
        base = re.sub(r"~\d+$", "", what)
        for owner in owners:
            for r in self.table.get(owner) or ():
                if r.get("kind", kind) != kind:
                    continue
                if r.get("what") == what or (r.get("any_ordinal") and r.get("what") == base) \
                        or (r.get("any_what") and base in r["any_what"]) \
                        or (r.get("what_re") and re.fullmatch(r["what_re"], base)):
                    self._row_owner = owner
                    return r
        # `panic!#switch` / `panic!#match`: the marker only says how the branch in front of an explicit panic is spelled
        # (`match flag { true => panic!() }` vs `match option { None => panic!() }`)
        nb = re.sub(r"#(switch|match)\b", "#branch", base)
        if nb != base or "#switch" in base or "#match" in base:
            cands = [(owner, r) for owner in owners for r in (self.table.get(owner) or ())
                     if r.get("kind", kind) == kind and r.get("what")
                     and re.sub(r"#(switch|match)\b", "#branch", re.sub(r"~\d+$", "", r["what"])) == nb]
            if len(cands) == 1:
                self._row_owner = cands[0][0]
                return cands[0][1]
        if unique_norm and (kind.startswith("assert:") or kind == "diverge"):
            nw = self.norm_what(what)
            cands = [(owner, r) for owner in owners for r in (self.table.get(owner) or ())
                     if r.get("kind", kind) == kind and r.get("what") and self.norm_what(r["what"]) == nw]
            if len(cands) == 1:
                self._row_owner = cands[0][0]
                return cands[0][1]
        return None

    # ------------------------------------------------------------------
    def _eval_param_key(self, ai, st, pk, args):
        """Interval of a callee parameter key at a call site with actual args."""
        kind = pk[0]
        if kind == "c":
            return (pk[1], pk[1])
        i = pk[1] - 1
        if i < 0 or i >= len(args):
            return None
        a = args[i]
        if kind == "arg":
            return ai.eval_operand(st, a)[0]
        if a.get("o") not in ("copy", "move") or a["p"]:
            return None
        l = a["l"]
        if kind == "argelem":
            arr = st.arr.get(l)
            if arr is not None and 0 <= pk[2] < len(arr):
                return ai.get(st, ("elem", l, pk[2]))
            return None
        if kind == "arglen":
            lk = ai.len_key(l, st)
            if lk is None:
                return None
            return (lk[1], lk[1]) if lk[0] == "const" else ai.get(st, lk)
        if kind == "argfld":
            if l in ai.escaped:
                return None
            return st.iv.get(("pl", l, pk[2]))
        return None

    def _translate_param_key(self, view, ai, st, pk, args):
        """Callee parameter key -> caller parameter key (if the actual is a caller parameter)."""
        kind = pk[0]
        if kind == "c":
            return pk
        i = pk[1] - 1
        if i < 0 or i >= len(args):
            return None
        a = args[i]
        if kind == "arg":
            k = ai.operand_key(st, a)
            if k is None:
                return None
            return param_key(view, ai, k)
        if a.get("o") not in ("copy", "move") or a["p"]:
            return None
        l = a["l"]
        if kind == "argelem":
            # array passed by value: was it copied from an (unwritten) array parameter?
            src = l
            d = view.single_def(l)
            if d is not None and d[1] != "term" and d[2]["rv"]["r"] == "use":
                o = d[2]["rv"]["a"]
                if o.get("o") in ("copy", "move") and not o["p"]:
                    src = o["l"]
            return param_key(view, ai, ("elem", src, pk[2]))
        if kind == "arglen":
            lk = ai.len_key(l, st)
            if lk is not None and lk[0] == "len":
                return param_key(view, ai, lk)
            return None
        if kind == "argfld":
            return param_key(view, ai, ("pl", l, pk[2]))
        return None

    def _root_param(self, view, op, depth=10):
        """Caller parameter a (reference to a) value derives from by copies, borrows and
        field projections only; None otherwise."""
        while depth > 0:
            depth -= 1
            if op.get("o") not in ("copy", "move"):
                return None
            l = op["l"]
            if view.is_arg(l):
                return l
            d = view.single_def(l)
            if d is None or d[1] == "term":
                return None
            rv = d[2]["rv"]
            if rv["r"] == "use":
                op = rv["a"]
            elif rv["r"] in ("ref", "rawptr"):
                op = {"o": "copy", "l": rv["pl"]["l"], "p": []}
            elif rv["r"] == "cast" and rv["kind"].startswith("PointerCoercion"):
                op = rv["a"]
            else:
                return None
        return None

    def _value_root(self, view, op, depth=10):
        """Local that holds the value an operand (possibly a reference) denotes."""
        while depth > 0:
            depth -= 1
            if op.get("o") not in ("copy", "move"):
                return None
            l = op["l"]
            if view.is_arg(l):
                return l
            d = view.single_def(l)
            if d is None or d[1] == "term":
                return l
            rv = d[2]["rv"]
            if rv["r"] == "use" and rv["a"].get("o") in ("copy", "move"):
                op = {"o": "copy", "l": rv["a"]["l"], "p": []}
            elif rv["r"] in ("ref", "rawptr"):
                op = {"o": "copy", "l": rv["pl"]["l"], "p": []}
            elif rv["r"] == "cast" and rv["kind"].startswith("PointerCoercion"):
                op = rv["a"]
            else:
                return l
        return None

    def _value_chain(self, view, op, can_reach, site_block, depth=10):
        """(root local, locals copied through) for the value an operand denotes at the site.  A link is followed
        only through the one definition of a local that can reach the site, and only when nothing else that can
        reach the site writes that local (so the link still holds at the site)."""
        copied = []
        while depth > 0:
            depth -= 1
            if op.get("o") not in ("copy", "move"):
                return None, copied
            l = op["l"]
            if view.is_arg(l):
                return l, copied
            defs = [d for d in view.defs.get(l, []) if d[0] in can_reach]
            if len(defs) != 1 or defs[0][1] == "term":
                return l, copied
            d = defs[0]
            others = [k for k in self._kill_blocks(view, l)
                      if (k[1] if isinstance(k, tuple) else k) in can_reach and k != d[0]
                      and not (isinstance(k, tuple) and k[1] == site_block)]
            n_in_block = sum(1 for st_ in view.blocks[d[0]]["stmts"] if st_["s"] == "assign" and st_["pl"]["l"] == l)
            if others or n_in_block != 1:
                return l, copied
            rv = d[2]["rv"]
            if d[2]["pl"]["p"]:
                return l, copied
            if rv["r"] == "use" and rv["a"].get("o") in ("copy", "move"):
                copied.append((l, d[0]))
                op = {"o": "copy", "l": rv["a"]["l"], "p": []}
            elif rv["r"] in ("ref", "rawptr"):
                op = {"o": "copy", "l": rv["pl"]["l"], "p": []}
            elif rv["r"] == "cast" and rv["kind"].startswith("PointerCoercion"):
                op = rv["a"]
            else:
                return l, copied
        return None, copied

    ZERO_TESTS = {
        "crate::cmp::<impl crate::Uint<BITS, LIMBS>>::is_zero": ("unary", True),
        "crate::cmp::<impl crate::Uint<BITS, LIMBS>>::const_is_zero": ("unary", True),
        "<crate::Uint<BITS, LIMBS> as core::cmp::PartialEq>::eq": ("eq", True),
        "core::cmp::PartialEq::ne": ("eq", False),
        "<crate::Uint<BITS, LIMBS> as core::cmp::PartialEq>::ne": ("eq", False),
        "crate::support::num_traits::<impl num_traits::identities::Zero for crate::Uint<BITS, LIMBS>>::is_zero":
            ("unary", True),
    }

    def _is_zero_const(self, view, op, depth=6):
        """Operand denotes Uint::ZERO (or a reference/promoted to it)."""
        while depth > 0:
            depth -= 1
            if op.get("o") == "const":
                if op.get("c") == "uneval" and op["def"].endswith("::ZERO"):
                    return True
                if op.get("c") == "promoted":
                    return "promoted-zero?"
                return False
            if op["p"]:
                return False
            d = view.single_def(op["l"])
            if d is None or d[1] == "term":
                return False
            rv = d[2]["rv"]
            if rv["r"] == "use":
                op = rv["a"]
            elif rv["r"] == "ref":
                # &CONST is lowered to a promoted or a temp
                op = {"o": "copy", "l": rv["pl"]["l"], "p": rv["pl"]["p"]}
            else:
                return False
        return False

    def nonzero_guarded(self, view, site_block, op):
        """A dominating edge establishes that the Uint (or integer) value denoted by op is
        non-zero, and the value is not reassigned afterwards."""
        can_reach, stk = set(), [site_block]
        while stk:
            x = stk.pop()
            if x in can_reach:
                continue
            can_reach.add(x)
            stk.extend(y for y in view.preds.get(x, []) if y in view.reachable)
        root, copied = self._value_chain(view, op, can_reach, site_block)
        if root is None:
            return None
        # the root must not be written on any path from the guard edge to the use: kill points are assignments to
        # the root (whole or part), uses of `&mut root`, and calls that write it; a kill is harmless when it
        # cannot lie between the edge and the site (checked per candidate edge below)
        kills = self._kill_blocks(view, root)
        reach_memo = {}

        def groot(x, gb):
            """root of a guard operand, resolved with the same flow-aware chain as the site operand"""
            if x.get("o") not in ("copy", "move"):
                return None
            if gb not in reach_memo:
                cr, stk2 = set(), [gb]
                while stk2:
                    y = stk2.pop()
                    if y in cr:
                        continue
                    cr.add(y)
                    stk2.extend(z for z in view.preds.get(y, []) if z in view.reachable)
                reach_memo[gb] = cr
            return self._value_chain(view, x, reach_memo[gb], gb)[0]
        root_changes_before_site = False
        if copied:
            # the tested local and the used local are different variables related by a copy.  When the copy is made
            # before the test, the root must not change at all before the site (apart from its one initialisation)
            eff = set(kills)
            adefs = [d for d in view.defs.get(root, []) if d[1] == "term" or not d[2]["pl"]["p"]]
            if not view.is_arg(root) and len(adefs) == 1:
                eff.discard(adefs[0][0] if adefs[0][1] != "term" else ("after", adefs[0][0]))
            for k in eff:
                kb = k[1] if isinstance(k, tuple) else k
                if kb in can_reach and not (isinstance(k, tuple) and kb == site_block):
                    root_changes_before_site = True
        for b in view.dom.get(site_block, ()):
            t = view.blocks[b]["term"]
            if t["t"] != "switch":
                continue
            d = t["discr"]
            if not (d.get("o") in ("copy", "move") and not d["p"]):
                continue
            ch = view.chase(d)
            zero_truth = None   # discr value that means "value is zero"
            if ch[0] == "call":
                ct = ch[1]
                name = ir.callee_name(ct["fn"])
                spec = self.ZERO_TESTS.get(name)
                if spec is None:
                    continue
                kind, truth_means_zero = spec
                if ir.is_negated_forward(ct["fn"]):
                    truth_means_zero = not truth_means_zero   # `a != b` resolved to the eq it forwards to
                if kind == "unary":
                    if groot(ct["args"][0], b) != root:
                        continue
                else:
                    a, c = ct["args"][0], ct["args"][1]
                    ra, rc = groot(a, b), groot(c, b)
                    za, zc = self._const_zero_arg(view, a), self._const_zero_arg(view, c)
                    if not ((ra == root and zc) or (rc == root and za)):
                        continue
                zero_truth = truth_means_zero
                # a mutation of root between the test and the site would invalidate the guard
            elif ch[0] == "rv" and ch[1]["r"] == "bin" and ch[1]["op"] in ("Eq", "Ne"):
                rv = ch[1]
                ra = groot(rv["a"], b) if rv["a"].get("o") != "const" else None
                rb = groot(rv["b"], b) if rv["b"].get("o") != "const" else None
                ca = view.const_of_operand(rv["a"])
                cb = view.const_of_operand(rv["b"])
                if not ((ra == root and cb == 0) or (rb == root and ca == 0)):
                    continue
                zero_truth = (rv["op"] == "Eq")
            else:
                continue
            for s in view.succ.get(b, []):
                vals = [v for v, bb in t["targets"] if bb == s]
                truths = {bool(v) for v in vals}
                if t["otherwise"] == s:
                    truths |= ({True, False} - {bool(v) for v, _ in t["targets"]})
                if len(truths) == 1 and truths.pop() != zero_truth and view.edge_dominates(b, s, site_block):
                    region = self._region(view, b, s, site_block)
                    if self._killed_between(kills, region, site_block):
                        continue
                    if root_changes_before_site and any(pb not in region for _x, pb in copied):
                        continue   # a copy taken before the test of a variable that changes: the test says nothing
                    return "dominated by non-zero test at %s" % view.where(b)
        return None

    def bool_zero_truth(self, view, d, root):
        """For a bool operand that is a zero test of `root` (is_zero / == ZERO / != ZERO, negations, in either polarity):
        the truth value that means `root` IS zero; None if the operand is no such test."""
        if not (d.get("o") in ("copy", "move") and not d["p"]):
            return None
        ch = view.chase(d)
        neg = False
        hops = 0
        while ch[0] == "rv" and ch[1]["r"] == "un" and ch[1]["op"] == "Not" and hops < 4:
            ch = view.chase(ch[1]["a"])
            neg = not neg
            hops += 1
        zero_truth = None
        if ch[0] == "call":
            ct = ch[1]
            spec = self.ZERO_TESTS.get(ir.callee_name(ct["fn"]))
            if spec is None:
                return None
            kind, truth_means_zero = spec
            if ir.is_negated_forward(ct["fn"]):
                truth_means_zero = not truth_means_zero
            if kind == "unary":
                if self._value_root(view, ct["args"][0]) != root:
                    return None
            else:
                a, c = ct["args"][0], ct["args"][1]
                ra, rc = self._value_root(view, a), self._value_root(view, c)
                za, zc = self._const_zero_arg(view, a), self._const_zero_arg(view, c)
                if not ((ra == root and zc) or (rc == root and za)):
                    return None
            zero_truth = truth_means_zero
        elif ch[0] == "rv" and ch[1]["r"] == "bin" and ch[1]["op"] in ("Eq", "Ne"):
            rv = ch[1]
            ra = self._value_root(view, rv["a"]) if rv["a"].get("o") != "const" else None
            rb = self._value_root(view, rv["b"]) if rv["b"].get("o") != "const" else None
            ca, cb = view.const_of_operand(rv["a"]), view.const_of_operand(rv["b"])
            if not ((ra == root and cb == 0) or (rb == root and ca == 0)):
                return None
            zero_truth = (rv["op"] == "Eq")
        else:
            return None
        return (not zero_truth) if neg else zero_truth

    def zero_test_edges(self, view, root):
        """[(block, succ)]: edges of switches on which the Uint / integer local `root` is known to be ZERO
        (is_zero / == ZERO / != ZERO in either polarity, resolved like the D-zero guards)."""
        out = []
        for b in sorted(view.reachable):
            t = view.blocks[b]["term"]
            if t["t"] != "switch":
                continue
            zero_truth = self.bool_zero_truth(view, t["discr"], root)
            if zero_truth is None:
                continue
            for s_ in view.succ.get(b, []):
                vals = [v_ for v_, bb in t["targets"] if bb == s_]
                truths = {bool(v_) for v_ in vals}
                if t["otherwise"] == s_:
                    truths |= ({True, False} - {bool(v_) for v_, _ in t["targets"]})
                if len(truths) == 1 and truths.pop() == zero_truth:
                    out.append((b, s_))
        return out

    @staticmethod
    def _kill_blocks(view, root):
        """Points that may write local `root`: an assignment to it (also through a projection), a call whose
        destination it is, and every use of a mutable reference derived from `&mut root` (a call that receives it:
        the write happens during that call; an assignment through it).  A mutable borrow that is stored anywhere
        else kills where it is created.  Entries: block (kill inside the block) or ("after", block) (kill when the
        call that terminates the block returns)."""
        out = set()
        derived = {}   # ref local -> block where the borrow chain started
        changed = True
        while changed:
            changed = False
            for bi in view.reachable:
                for st_ in view.blocks[bi]["stmts"]:
                    if st_["s"] != "assign":
                        continue
                    rv, dl = st_["rv"], st_["pl"]["l"]
                    src = None
                    if rv["r"] in ("ref", "rawptr") and rv.get("m") == "mut":
                        if rv["pl"]["l"] == root and "deref" not in rv["pl"]["p"]:
                            src = bi
                        elif rv["pl"]["l"] in derived and rv["pl"]["p"][:1] == ["deref"]:
                            src = derived[rv["pl"]["l"]]
                    elif rv["r"] == "use" and rv["a"].get("o") in ("copy", "move") and rv["a"]["l"] in derived and not rv["a"]["p"]:
                        src = derived[rv["a"]["l"]]
                    elif rv["r"] == "cast" and rv["a"].get("o") in ("copy", "move") and rv["a"]["l"] in derived and not rv["a"]["p"]:
                        src = derived[rv["a"]["l"]]
                    if src is not None:
                        if st_["pl"]["p"]:
                            out.add(src)      # stored into a place we do not follow
                        elif dl not in derived:
                            derived[dl] = src
                            changed = True
        for bi in view.reachable:
            blk = view.blocks[bi]
            for st_ in blk["stmts"]:
                if st_["s"] != "assign":
                    continue
                if st_["pl"]["l"] == root:
                    out.add(bi)
                if st_["pl"]["l"] in derived and st_["pl"]["p"][:1] == ["deref"]:
                    out.add(bi)
                rv = st_["rv"]
                if rv["r"] == "agg" and any(o.get("o") in ("copy", "move") and o["l"] in derived for o in rv.get("ops", [])):
                    out.add(derived[next(o["l"] for o in rv["ops"] if o.get("o") in ("copy", "move") and o["l"] in derived)])
            t = blk["term"]
            if t["t"] == "call":
                if t["dest"]["l"] == root:
                    out.add(("after", bi))
                if any(a.get("o") in ("copy", "move") and a["l"] in derived for a in t["args"]):
                    out.add(("after", bi))
        return out

    @staticmethod
    def _region(view, gb, gs, site_block):
        """Blocks on a path guard edge (gb -> gs) ... site that does not re-take the guard edge."""
        fwd, stk = set(), [gs]
        while stk:
            x = stk.pop()
            if x in fwd:
                continue
            fwd.add(x)
            for y in view.succ.get(x, []):
                if not (x == gb and y == gs):
                    stk.append(y)
        bwd, stk = set(), [site_block]
        while stk:
            x = stk.pop()
            if x in bwd:
                continue
            bwd.add(x)
            for y in view.preds.get(x, []):
                if not (y == gb and x == gs) and y in view.reachable:
                    stk.append(y)
        return fwd & bwd

    @staticmethod
    def _killed_between(kills, region, site_block):
        for k in kills:
            if isinstance(k, tuple):
                # a call in block k[1] writes the root when it returns: harmful if the site is reachable afterwards
                if k[1] in region and k[1] != site_block:
                    return True
            elif k in region:
                return True
        return False

    def _const_zero_arg(self, view, op):
        """Argument of eq/ne is (a reference to) the constant ZERO."""
        if op.get("o") == "const":
            if op.get("c") == "promoted":
                # `&Uint::ZERO` promoted to a constant: the promoted body is `_1 = const ZERO; _0 = &_1`
                proms = view.body.get("promoted") or []
                if op["i"] < len(proms):
                    consts = [o for blk in proms[op["i"]]["blocks"] for o in ir.operands_of_block(blk) if o.get("o") == "const"]
                    return bool(consts) and all(c.get("c") == "uneval" and c["def"].endswith("::ZERO") for c in consts)
                return False
            return bool(op.get("c") == "uneval" and op["def"].endswith("::ZERO"))
        if op["p"] == ["deref"]:
            op = {"o": "copy", "l": op["l"], "p": []}
        d = view.single_def(op["l"]) if not op["p"] else None
        if d is None or d[1] == "term":
            return False
        rv = d[2]["rv"]
        if rv["r"] == "use":
            return self._const_zero_arg(view, rv["a"])
        if rv["r"] == "ref" and rv["pl"]["p"] in ([], ["deref"]):
            return self._const_zero_arg(view, {"o": "copy", "l": rv["pl"]["l"], "p": []})
        return False

    # ------------------------------------------------------------------
    def _analyse(self, key, cfg, depth):
        prog = self.prog
        view = prog.view(key, cfg)
        body = view.body
        if body["kind"] == "Closure" and self._closure_arg_hints(key, cfg) == "never":
            return []      # callback of from_fn::<_, 0, _>: never called
        self.stats["functions"] += 1
        out = []
        ai = None

        def get_ai():
            nonlocal ai
            if ai is None:
                ai = self.ai(key, cfg)
            return ai

        implicit_ok = self.implicit_scope(body)
        pending = []
        for site in panics.local_sites(view):
            implicit = site.kind.startswith("assert:") or site.kind == "foreign"
            explicit_foreign = site.kind == "foreign" and site.callee in EXPLICIT_FOREIGN
            if implicit and not explicit_foreign and not implicit_ok:
                continue   # kernels: implicit sites are the value contract of C14/C15 (trusted leaves)
            self.stats["sites"] += 1
            a = get_ai()
            st = a.state_before_term(site.block)
            if st is None:
                self.stats["discharged"] += 1
                continue    # unreachable under the intervals
            how = self._discharge_local(view, a, st, site)
            if how:
                self.stats["discharged"] += 1
                self.discharge_log.append((key, cfg, site.kind, site.what, how))
                continue
            pending.append((site, a, st))
        # undischarged sites: reviewed rows.  A row matches by its discriminator; when the site is the only
        # undischarged one of its kind with that discriminator up to the names of local variables, a rename is tolerated
        norm_counts = {}
        for site, _a, _st in pending:
            nk = (site.kind, self.norm_what(site.what))
            norm_counts[nk] = norm_counts.get(nk, 0) + 1
        for site, a, st in pending:
            what = site.what
            row = self._table_row(key, site.kind, what,
                                  unique_norm=norm_counts.get((site.kind, self.norm_what(what))) == 1)
            preds = []
            if row is not None and not self._row_ok(view, site.block, row):
                self.row_failures.append((key, row.get("kind"), row.get("what"), site.where))
                row = None
            precond = None
            if row is not None and row.get("entry_precondition"):
                # a documented precondition of this function: accepted when the function itself is the entry point,
                # but it stays a site (with its guard) that every caller has to refute
                precond = (self._row_owner, row)
                row = None
            if row is not None:
                self.table_used.add((self._row_owner, row.get("kind"), row.get("what")))
                if row.get("pred"):
                    # the site stays, but with a predicate a caller can discharge
                    p = row["pred"]
                    if p["name"] == "test":
                        preds.append(("test", p["test"], p["truth"], p.get("param")))
                    else:
                        preds.append((p["name"], p["param"]))
                else:
                    self.stats["table"] += 1
                    continue
            guards = self._guards_for(view, a, site.block)
            sg = self._site_guard(view, a, st, site)
            if sg is not None:
                guards.append(sg)
            if row is None and precond is None and implicit_ok and (site.kind == "assert:BoundsCheck" or site.kind == "foreign"):
                bl = self._blame(view, site)
                if bl:
                    # one report per root cause: every index that depends on the wrapping subtraction shares its key
                    site_kind, what = "index-depends-on-wrapping-sub", bl[0]
                    res_ = Residual(key, site_kind, what, site.where, site.macro, [key], [], preds)
                    res_.precond = None
                    out.append(res_)
                    continue
            res_ = Residual(key, site.kind, what, site.where, site.macro, [key], guards, preds)
            res_.precond = precond
            out.append(res_)

        # calls to local functions (and closures / fn items handed to foreign combinators)
        for bi, t in view.calls():
            f = t["fn"]
            if f.get("o") != "const" or f.get("c") != "fn":
                continue
            targets = []
            d, r, fw = ir.callee_keys(f)
            for k in (fw, r):
                if k and k in prog.bodies and k not in targets:
                    targets.append(k)
            name = ir.callee_name(f)
            direct = bool(targets)
            # closures / fn items passed as arguments to (foreign) higher-order functions
            indirect = []
            for arg_t in f.get("args", []):
                for k in fn_items_in_type(arg_t):
                    if k in prog.bodies and k not in targets:
                        indirect.append(k)
            for op in t["args"]:
                if op.get("o") == "const" and op.get("c") in ("fn", "closure"):
                    k = op.get("res") or op.get("def")
                    if k in prog.bodies and k not in targets and k not in indirect:
                        indirect.append(k)
            if not targets and not indirect:
                if f.get("res") is None and f.get("trait") and f["def"] in self.dyn_candidates():
                    # trait dispatch on a type parameter into the local crate: union of candidates
                    indirect = list(self.dyn_candidates()[f["def"]])
                else:
                    continue
            a = get_ai()
            st = a.state_before_term(bi)
            if st is None:
                continue
            # modelled: Uint::from(literal)
            if name == UINT_FROM and cfg is not None and t["args"]:
                c = view.const_of_operand(t["args"][0])
                if c is not None:
                    bits = cfg[0]
                    if 0 <= c < (1 << bits) or (bits == 0 and c == 0):
                        self.discharge_log.append((key, cfg, "local-call", name, "D-lit %d < 2^%d" % (c, bits)))
                        continue
            for tk in (targets if implicit_ok else ()):
                for miss in self._linear_preconditions(view, bi, t, tk):
                    self.stats["sites"] += 1
                    out.append(Residual(key, "precondition", "%s requires %s" % (tk.rsplit("::", 1)[-1], miss), view.where(bi),
                                        None, [key], self._guards_for(view, a, bi), []))
            for tk in targets + indirect:
                ccfg = self.callee_cfg(view, f, tk, cfg)
                if ccfg == "any":
                    # a Uint of another (unknown) width: union over the evaluated configurations
                    sub, seen_sub = [], set()
                    for c2 in self.cfg_set:
                        for rs in self.residuals(tk, c2, depth + 1):
                            k2 = (rs.site_key(), tuple(rs.chain))
                            if k2 not in seen_sub:
                                seen_sub.add(k2)
                                sub.append(rs)
                else:
                    sub = self.residuals(tk, ccfg, depth + 1)
                for rs in sub:
                    self.stats["sites"] += 1
                    if tk in targets:
                        verdict = self._discharge_at_call(view, a, st, bi, t, rs)
                    else:
                        verdict = self._discharge_closure_preds(view, bi, t, tk, rs, name)
                    if verdict:
                        self.stats["discharged"] += 1
                        self.discharge_log.append((key, cfg, "call->" + rs.site_key(), view.where(bi), verdict))
                        continue
                    row = self._table_row(key, "call", rs.site_key())
                    if row is not None and not self._row_ok(view, bi, row):
                        self.row_failures.append((key, "call", row.get("what"), view.where(bi)))
                        row = None
                    if row is not None and not row.get("pred"):
                        self.table_used.add((self._row_owner, row.get("kind"), row.get("what")))
                        self.stats["table"] += 1
                        continue
                    guards = list(self._guards_for(view, a, bi))
                    preds = []
                    if tk in targets:
                        for g in rs.guards:
                            ka = self._translate_param_key(view, a, st, g[1], t["args"])
                            kb = self._translate_param_key(view, a, st, g[2], t["args"])
                            if ka is not None and kb is not None:
                                guards.append((g[0], ka, kb, g[3]))
                        for pr in rs.preds:
                            if pr[0] == "nonzero" and 0 <= pr[1] - 1 < len(t["args"]):
                                rp = self._root_param(view, t["args"][pr[1] - 1])
                                if rp == 1 and body["kind"] == "Closure":
                                    # the divisor is a captured variable: the creator of the closure must establish it
                                    from .rules.facade import upvar_of
                                    uk = upvar_of(view, t["args"][pr[1] - 1])
                                    if uk is not None:
                                        preds.append(("nonzero-upvar", uk))
                                elif rp is not None:
                                    preds.append((pr[0], rp))
                    out.append(Residual(rs.origin_fn, rs.origin_kind, rs.origin_what, rs.origin_where,
                                        rs.origin_macro, [key] + rs.chain, guards, preds))
        # de-duplicate by (origin, chain)
        seen = {}
        for r in out:
            k = (r.site_key(), tuple(r.chain))
            if k not in seen:
                seen[k] = r
        return list(seen.values())

    def callee_cfg(self, view, f, tk, cfg):
        """(BITS, LIMBS) configuration the callee body is instantiated with at this call."""
        cb = self.prog.bodies[tk]
        names = [n for _k, n in cb["generics"]]
        if "BITS" not in names or "LIMBS" not in names:
            return None
        fwd = f.get("fwd") or {}
        if fwd.get("res") == tk:
            args = fwd.get("res_args", [])
        elif f.get("res") == tk:
            args = f.get("res_args", f.get("args", []))
        else:
            return cfg   # closure / fn item defined in the caller: inherits its generics
        if len(args) != len(names):
            return "any"
        vals = []
        for want in ("BITS", "LIMBS"):
            a = args[names.index(want)]
            if a.get("c") == "lit":
                vals.append(a["v"])
            elif a.get("c") == "param":
                v = view.env.get(a["n"])
                if v is None:
                    return "any"
                vals.append(v)
            else:
                return "any"
        c = (vals[0], vals[1])
        return c if c in self.prog.configs else "any"

    _dyn = None

    def dyn_candidates(self):
        """trait method def -> local impl methods, for traits whose calls on a type parameter with
        Self = Uint stay unresolved (blanket UintTryFrom/UintTryTo, TryFrom inside them)."""
        if self._dyn is None:
            d = {}
            for b in self.prog.facts["bodies"]:
                ti = b.get("trait_item")
                if ti and (ti.startswith("crate::") or ti in ("core::convert::TryFrom::try_from",)):
                    d.setdefault(ti, []).append(b["key"])
            self._dyn = d
        return self._dyn

    # ------------------------------------------------------------------
    def lin(self, view):
        k = (view.body["key"], view.cfg)
        if k not in self.lin_memo:
            pre = self.linear_pre.get(view.body["key"])
            forms = linear.parse_pre(view, pre["pre"]) if pre else []
            if pre:
                self.linear_pre_used.add(view.body["key"])
            self.lin_memo[k] = linear.Prover(view, forms)
        return self.lin_memo[k]

    def _blame(self, view, site):
        """Root cause of an undischarged index site: an unsigned subtraction that may wrap and that the index or the
        range bounds depend on.  Sites with the same root cause are reported once, under the subtraction."""
        P = self.lin(view)
        t = site.term
        forms = []
        try:
            if site.kind == "assert:BoundsCheck":
                forms = [P.form(t["index"])]
            elif site.kind == "foreign" and len(t.get("args", [])) >= 2:
                rp = P._range_parts(t["args"][1])
                if rp is not None:
                    forms = [P.form(o) for o in rp[1:] if o is not None]
                else:
                    forms = [P.form(t["args"][1])]
        except RecursionError:
            return []
        return P.blame(forms)

    def _discharge_linear(self, view, site):
        """D-lin: relational discharge over linear forms of lengths, loop variables and const parameters."""
        P = self.lin(view)
        t = site.term
        bi = site.block
        try:
            if site.kind == "assert:BoundsCheck":
                fi, fl = P.form(t["index"], at=bi), P.form(t["len"], at=bi)
                if fi is not None and fl is not None and P.lt(fi, fl, bi):
                    return "D-lin: index < len by linear facts"
                return None
            if site.kind.startswith("assert:Overflow") and t.get("op") == "Add" and "a" in t and "b" in t:
                # unsigned `a + b` in an overflow-checked build: a + b <= MAX(type) from linear facts plus the type bound
                # of every atom (a loop counter below a length: `j < N` gives `j + 1 <= N <= usize::MAX`)
                tn = None
                for o in (t["a"], t["b"]):
                    if o.get("o") == "const":
                        tn = tn or o.get("ty")
                    elif not o["p"]:
                        tn = tn or view.local_tyname(o["l"])
                if tn in ("usize", "u64"):
                    fa, fb = P.form(t["a"], at=bi), P.form(t["b"], at=bi)
                    if fa is not None and fb is not None:
                        mx = (1 << 64) - 1
                        goal = linear.Form(mx).add(fa, -1).add(fb, -1)
                        P.type_bound = mx
                        try:
                            # every atom is a usize / u64 quantity, a slice length or a const parameter: <= MAX
                            if P.prove(goal, bi):
                                return "D-lin: a + b <= MAX by linear facts"
                        finally:
                            P.type_bound = None
                return None
            if site.kind.startswith("assert:Overflow") and t.get("op") == "Sub" and "a" in t and "b" in t:
                # unsigned `a - b` in an overflow-checked build: does not wrap when a - b >= 0 follows from linear facts
                tn = None
                for o in (t["a"], t["b"]):
                    if o.get("o") == "const":
                        tn = tn or o.get("ty")
                    elif not o["p"]:
                        tn = tn or view.local_tyname(o["l"])
                if tn in ("usize", "u64", "u32", "u16", "u8", "u128"):
                    fa, fb = P.form(t["a"], at=bi), P.form(t["b"], at=bi)
                    if fa is not None and fb is not None and P.le(fb, fa, bi):
                        return "D-lin: a - b >= 0 by linear facts"
                return None
            if site.kind != "foreign":
                return None
            name = site.callee
            args = t["args"]

            def reflen(op):
                if op.get("o") in ("copy", "move") and not op["p"]:
                    return P.len_form(op["l"])
                return None
            if "index::Index" in name and len(args) == 2 and "for str>" not in name:
                fl = reflen(args[0])
                rp = P._range_parts(args[1])
                if fl is None:
                    return None
                if rp is None:
                    fi = P.form(args[1])
                    if fi is not None and P.lt(fi, fl, bi):
                        return "D-lin: index < len"
                    return None
                kind, s_op, e_op = rp
                fs = P.form(s_op) if s_op is not None else linear.Form(0)
                fe = P.form(e_op) if e_op is not None else fl
                if fs is None or fe is None:
                    return None
                if kind in ("toincl", "incl"):
                    fe = fe.add(linear.Form(1))
                if P.le(fs, fe, bi) and P.le(fe, fl, bi):
                    return "D-lin: start <= end <= len"
                return None
            if (name.endswith("::split_at") or name.endswith("::split_at_mut")) and "str" not in name and len(args) == 2:
                fl, fm = reflen(args[0]), P.form(args[1])
                if fl is not None and fm is not None and P.le(fm, fl, bi):
                    return "D-lin: mid <= len"
                return None
            if name.endswith("::copy_from_slice") and len(args) == 2:
                fa, fb = reflen(args[0]), reflen(args[1])
                if fa is not None and fb is not None and P.le(fa, fb, bi) and P.le(fb, fa, bi):
                    return "D-lin: equal lengths"
                return None
            if name.endswith("::copy_within") and len(args) == 3:
                fl = reflen(args[0])
                rp = P._range_parts(args[1])
                fd = P.form(args[2])
                if fl is None or rp is None or fd is None:
                    return None
                kind, s_op, e_op = rp
                fs = P.form(s_op) if s_op is not None else linear.Form(0)
                fe = P.form(e_op) if e_op is not None else fl
                if fs is None or fe is None:
                    return None
                if kind in ("toincl", "incl"):
                    fe = fe.add(linear.Form(1))
                cnt = fe.add(fs, -1)
                if P.le(fs, fe, bi) and P.le(fe, fl, bi) and P.le(fd.add(cnt), fl, bi):
                    return "D-lin: src in bounds and dest + count <= len"
                return None
        except RecursionError:
            return None
        return None

    def _linear_preconditions(self, view, bi, t, tk):
        """Documented length preconditions of callee tk, to be proved at this call: [] when all hold, else the
        list of preconditions (as text) that the caller does not establish."""
        pre = self.linear_pre.get(tk)
        if not pre:
            return []
        self.linear_pre_used.add(tk)
        P = self.lin(view)
        missing = []
        for text, f in zip(pre["pre"], linear.parse_pre(view, pre["pre"])):
            g = linear.Form(f.c)
            ok = True
            for atom, k in f.t.items():
                lf = None
                if atom[0] in ("arglen", "arg") and 0 <= atom[1] - 1 < len(t["args"]):
                    op = t["args"][atom[1] - 1]
                    if atom[0] == "arg":
                        lf = P.form(op)
                    elif op.get("o") in ("copy", "move") and not op["p"]:
                        lf = P.len_form(op["l"])
                elif atom[0] == "param":
                    # const generic argument of the callee at this call
                    lf = self._callee_param_form(view, P, t, tk, atom[1])
                if lf is None:
                    ok = False
                    break
                g = g.add(lf, k)
            if not (ok and P.prove(g, bi)):
                missing.append(text)
        return missing

    def _callee_param_form(self, view, P, t, tk, name):
        cb = self.prog.bodies[tk]
        consts = [n for kind, n in cb["generics"] if kind == "const"]
        cargs = [a for a in t["fn"].get("args", []) if isinstance(a, dict) and (a.get("c") in ("lit", "param") or a.get("k") == "const")]
        if name not in consts or len(cargs) != len(consts):
            return None
        a = cargs[consts.index(name)]
        if a.get("k") == "const":
            a = a.get("v", a)
        if isinstance(a, dict) and a.get("c") == "lit":
            return linear.Form(a["v"])
        if isinstance(a, dict) and a.get("c") == "param":
            return P._param(a["n"])
        return None

    def _discharge_local(self, view, a, st, site):
        return self._discharge_local0(view, a, st, site) or self._discharge_linear(view, site)

    def _discharge_local0(self, view, a, st, site):
        t = site.term
        if site.kind == "assert:BoundsCheck":
            if a.known_less(st, t["index"], t["len"]):
                return "D-ival/D-loop: index < len"
            return None
        if site.kind.startswith("assert:"):
            c, _ = a.eval_operand(st, t["cond"])
            if c is not None and c[0] == c[1] == int(t["expected"]):
                return "D-ival: condition decided by intervals"
            return None
        if site.kind == "foreign":
            return self._discharge_foreign(view, a, st, site)
        return None

    def _range_arg(self, view, a, st, op):
        """(kind, start interval/key, end interval/key) of a Range* operand."""
        if op.get("o") not in ("copy", "move") or op["p"]:
            return None
        l = op["l"]
        t = view.local_ty(l)
        if t["k"] != "adt":
            return None
        n = t["n"]
        d = view.single_def(l)
        ops = None
        if d is not None and d[1] != "term" and d[2]["rv"]["r"] == "agg":
            ops = d[2]["rv"]["ops"]
        if n == "core::ops::range::Range" and ops and len(ops) == 2:
            return ("range", ops[0], ops[1])
        if n == "core::ops::range::RangeTo" and ops and len(ops) == 1:
            return ("to", None, ops[0])
        if n == "core::ops::range::RangeFrom" and ops and len(ops) == 1:
            return ("from", ops[0], None)
        if n == "core::ops::range::RangeFull":
            return ("full", None, None)
        return None

    def _le_len(self, a, st, op, len_iv, len_key):
        """operand <= len"""
        iv, _ = a.eval_operand(st, op)
        if iv is not None and len_iv is not None and iv[1] <= len_iv[0]:
            return True
        k = a.operand_key(st, op)
        if k is not None and len_key is not None:
            if k == len_key:
                return True
            if len_key in a.uppers(st, k)[0]:
                return True
        return False

    def _str_root(self, view, op):
        r = self._value_root(view, op)
        return r

    def _known_boundaries(self, view, site_block, root):
        """Constant offsets known to be char boundaries <= len of the str `root` at site_block: 0; c on the true edge of
        a dominating `root.is_char_boundary(c)`; c on the Some edge of a dominating `root.get(..c)` / `root.get(c..)`."""
        known = {0}
        for b in view.dom.get(site_block, ()):
            t = view.blocks[b]["term"]
            if t["t"] != "switch":
                continue
            d = t["discr"]
            if not (d.get("o") in ("copy", "move") and not d["p"]):
                continue
            ch = view.chase(d)
            bounds, truthy = None, None
            if ch[0] == "call" and (ir.callee_name(ch[1]["fn"]) or "") == "core::str::<impl str>::is_char_boundary":
                ct = ch[1]
                if self._str_root(view, ct["args"][0]) == root:
                    c = view.const_of_operand(ct["args"][1])
                    if c is None and ct["args"][1].get("o") == "const":
                        c = ct["args"][1].get("v")
                    if isinstance(c, int):
                        bounds, truthy = [c], lambda v: bool(v)
            elif ch[0] == "rv" and ch[1]["r"] == "discr" and not ch[1]["pl"]["p"]:
                dd = view.single_def(ch[1]["pl"]["l"])
                if dd is not None and dd[1] == "term" and (ir.callee_name(dd[2]["fn"]) or "") == "core::str::<impl str>::get":
                    ct = dd[2]
                    if self._str_root(view, ct["args"][0]) == root:
                        ra = self._range_arg(view, None, None, ct["args"][1])
                        cs = []
                        if ra is not None:
                            for o in (ra[1], ra[2]):
                                if o is None:
                                    continue
                                c = view.const_of_operand(o)
                                if c is None and o.get("o") == "const":
                                    c = o.get("v")
                                cs.append(c)
                        if cs and all(isinstance(c, int) for c in cs):
                            bounds, truthy = cs, lambda v: v == 1     # Option discriminant 1 = Some
            if bounds is None:
                continue
            for s_ in view.succ.get(b, []):
                vals = [v_ for v_, bb in t["targets"] if bb == s_]
                if t["otherwise"] == s_ or not vals:
                    continue
                if all(truthy(v_) for v_ in vals) and view.edge_dominates(b, s_, site_block):
                    known.update(bounds)
        return known

    def _discharge_str_index(self, view, a, st, site, recv, kind, s_op, e_op):
        """&s[a..b] on a str: every constant bound must be a known char boundary <= len (a <= b by construction of
        the constants); the str must be an unmodified parameter or local."""
        root = self._str_root(view, recv)
        if root is None:
            return None
        known = self._known_boundaries(view, site.block, root)
        need = []
        for o in (s_op, e_op):
            if o is None:
                continue
            iv, _ = a.eval_operand(st, o)
            if iv is None or iv[0] != iv[1]:
                return None
            need.append(iv[0])
        if kind == "full":
            return "RangeFull"
        if need == sorted(need) and all(c in known for c in need):
            return "D-str: bounds %s are char boundaries established by a dominating is_char_boundary / get(..) test" % need
        return None

    def _discharge_foreign(self, view, a, st, site):
        t = site.term
        name = site.callee
        args = t["args"]
        if "index::Index" in name and len(args) == 2 and ("for [T]>" in name or "for [T; N]>" in name
                                                             or "for str>" in name):
            recv = args[0]
            if recv.get("o") not in ("copy", "move") or recv["p"]:
                return None
            lk = a.len_key(recv["l"], st)
            if lk is None:
                return None
            len_iv = (lk[1], lk[1]) if lk[0] == "const" else a.get(st, lk)
            len_key = None if lk[0] == "const" else lk
            ra = self._range_arg(view, a, st, args[1])
            if ra is None:
                # plain usize index
                if view.local_tyname(args[1].get("l", 0)) == "usize" if args[1].get("o") != "const" else True:
                    iv, _ = a.eval_operand(st, args[1])
                    if iv is not None and len_iv is not None and iv[1] < len_iv[0]:
                        return "D-ival: index < len"
                return None
            kind, s_op, e_op = ra
            if "for str>" in name:
                return self._discharge_str_index(view, a, st, site, recv, kind, s_op, e_op)
            if kind == "full":
                return "RangeFull"
            if kind == "to":
                return "D-len: end <= len" if self._le_len(a, st, e_op, len_iv, len_key) else None
            if kind == "from":
                return "D-len: start <= len" if self._le_len(a, st, s_op, len_iv, len_key) else None
            if kind == "range":
                if not self._le_len(a, st, e_op, len_iv, len_key):
                    return None
                s_iv, _ = a.eval_operand(st, s_op)
                e_iv, _ = a.eval_operand(st, e_op)
                if s_iv is not None and e_iv is not None and s_iv[1] <= e_iv[0]:
                    return "D-len: start <= end <= len"
                ks, ke = a.operand_key(st, s_op), a.operand_key(st, e_op)
                if ks is not None and ke is not None and (ks == ke or ke in a.uppers(st, ks)[0]):
                    return "D-len: start <= end <= len"
            return None
        if name.endswith("::split_at") or name.endswith("::split_at_mut"):
            if "str" in name:
                return None
            recv = args[0]
            if recv.get("o") in ("copy", "move") and not recv["p"]:
                lk = a.len_key(recv["l"], st)
                if lk is not None:
                    len_iv = (lk[1], lk[1]) if lk[0] == "const" else a.get(st, lk)
                    if self._le_len(a, st, args[1], len_iv, None if lk[0] == "const" else lk):
                        return "D-len: mid <= len"
            return None
        if name.endswith("::copy_within") and len(args) == 3:
            # <[T]>::copy_within(src, dest): src.start <= src.end <= len and dest + (src.end - src.start) <= len
            recv = args[0]
            if recv.get("o") not in ("copy", "move") or recv["p"]:
                return None
            lk = a.len_key(recv["l"], st)
            ra = self._range_arg(view, a, st, args[1])
            if lk is None or ra is None:
                return None
            len_iv = (lk[1], lk[1]) if lk[0] == "const" else a.get(st, lk)
            len_key = None if lk[0] == "const" else lk
            if len_iv is None:
                return None
            kind, s_op, e_op = ra
            s_iv = (0, 0) if s_op is None else a.eval_operand(st, s_op)[0]
            e_iv = len_iv if e_op is None else a.eval_operand(st, e_op)[0]
            d_iv = a.eval_operand(st, args[2])[0]
            if s_iv is None or e_iv is None or d_iv is None:
                return None
            if e_op is not None and not self._le_len(a, st, e_op, len_iv, len_key):
                return None
            if s_op is not None:
                ks = a.operand_key(st, s_op)
                ke = a.operand_key(st, e_op) if e_op is not None else len_key
                if not (s_iv[1] <= e_iv[0] or (ks is not None and ke is not None and (ks == ke or ke in a.uppers(st, ks)[0]))):
                    return None
            if d_iv[1] + (e_iv[1] - s_iv[0]) <= len_iv[0]:
                return "D-len: dest + count <= len"
            if s_op is None and e_op is not None:
                # `..C - x` copied to x: dest + count == C
                ke, kd = a.operand_key(st, e_op), a.operand_key(st, args[2])
                sy = st.sym.get(ke) if ke is not None else None
                if sy is not None and sy[0] == "sub" and kd is not None and sy[2] == kd and sy[1] <= len_iv[0]:
                    return "D-len: dest + count == %d <= len" % sy[1]
            return None
        if "chunks" in name and len(args) == 2:
            iv, _ = a.eval_operand(st, args[1])
            if iv is not None and iv[0] > 0:
                return "chunk size > 0"
            return None
        if name.endswith("::copy_from_slice") and len(args) == 2:
            la = lb = None
            for i, op in enumerate(args):
                if op.get("o") in ("copy", "move") and not op["p"]:
                    lk = a.len_key(op["l"], st)
                    if i == 0:
                        la = lk
                    else:
                        lb = lk
            if la is not None and lb is not None:
                if la == lb:
                    return "same length"
                if la[0] == "const" and lb[0] == "const" and la[1] == lb[1]:
                    return "same constant length"
                ia = (la[1], la[1]) if la[0] == "const" else a.get(st, la)
                ib = (lb[1], lb[1]) if lb[0] == "const" else a.get(st, lb)
                if ia is not None and ib is not None and ia[0] == ia[1] == ib[0] == ib[1]:
                    return "same length by intervals"

                def sym_len(lk, depth=4):
                    # the length as `C - x`: `&a[x..]` of a C-long array, `&a[..k]` with k == C - x
                    while depth > 0 and lk is not None and not (isinstance(lk, tuple) and lk[0] == "const"):
                        depth -= 1
                        sy = st.sym.get(lk)
                        if sy is None and isinstance(lk, int) and lk in st.alias:
                            lk = st.alias[lk]
                            continue
                        if sy is None:
                            return None
                        if sy[0] == "sub":
                            return ("sub", sy[1], sy[2])
                        if sy[0] == "same":
                            lk = sy[2]
                            continue
                        return None
                    return None
                sa_, sb_ = sym_len(la), sym_len(lb)
                if sa_ is not None and sa_ == sb_:
                    return "same length: both are %d - %s" % (sa_[1], sa_[2])
            return None
        return None

    def _discharge_closure_preds(self, view, bi, t, ck, rs, name):
        """A closure handed to a combinator needs a captured variable to be non-zero: established when the call is
        dominated by a non-zero test of that variable, or when the combinator is `bool::then` and its receiver IS such
        a test (`(!d.is_zero()).then(|| n % d)`: the closure runs only when the receiver is true)."""
        ups = [pr for pr in rs.preds if pr[0] == "nonzero-upvar"]
        if not ups or len(ups) != len(rs.preds):
            return None
        from .rules.facade import captured_operand
        why = []
        for _n, uk in ups:
            cap = captured_operand(view, ck, uk)
            if cap is None:
                return None
            g = self.nonzero_guarded(view, bi, cap)
            if g is None and name == "core::bool::<impl bool>::then" and t["args"]:
                root = self._value_root(view, cap)
                zt = self.bool_zero_truth(view, t["args"][0], root) if root is not None else None
                if zt is False:
                    g = "bool::then on a non-zero test of the captured divisor"
            if g is None:
                return None
            why.append(g)
        return "D-zero (closure): " + "; ".join(why)

    def _discharge_at_call(self, view, a, st, bi, t, rs):
        """Can the caller refute one of the callee-site's guards / establish its predicates?"""
        args = t["args"]
        for (op, ka, kb, truth) in rs.guards:
            ia = self._eval_param_key(a, st, ka, args)
            ib = self._eval_param_key(a, st, kb, args)
            if ia is None or ib is None:
                continue
            tv = a.cmp_truth(op, ia, ib)
            if tv is not None and tv != truth:
                return "D-guard: callee guard %s(%s, %s)==%s refuted by caller intervals %s, %s" % (
                    op, ka, kb, truth, ia, ib)
        if rs.preds:
            ok_all = True
            why = []
            for pr in rs.preds:
                if pr[0] == "test":
                    argop = args[pr[3] - 1] if len(pr) > 3 and pr[3] and 0 <= pr[3] - 1 < len(args) else None
                    if self.dominated_by_test(view, bi, pr[1], pr[2], argop):
                        why.append("dominated by %s==%s" % (pr[1].split("::")[-1], pr[2]))
                        continue
                    ok_all = False
                    break
                pname, pparam = pr
                if pname != "nonzero" or not (0 <= pparam - 1 < len(args)):
                    ok_all = False
                    break
                g = self.nonzero_guarded(view, bi, args[pparam - 1])
                if g is None:
                    # a non-zero constant argument
                    c = view.const_of_operand(args[pparam - 1])
                    if c is not None and c != 0:
                        g = "non-zero constant %d" % c
                if g is None:
                    ok_all = False
                    break
                why.append(g)
            if ok_all:
                return "D-zero: " + "; ".join(why)
        return None


EXPLICIT_FOREIGN = {
    "core::option::Option::<T>::unwrap", "core::option::Option::<T>::expect",
    "core::result::Result::<T, E>::unwrap", "core::result::Result::<T, E>::expect",
    "core::result::Result::<T, E>::unwrap_err", "core::result::Result::<T, E>::expect_err",
    "core::hint::unreachable_unchecked",
}


def fn_items_in_type(t):
    out = []
    k = t.get("k")
    if k in ("closure", "fndef"):
        out.append(t["def"])
    elif k == "adt":
        for a in t["a"]:
            if "k" in a:
                out.extend(fn_items_in_type(a))
    elif k in ("ref", "ptr", "array", "slice"):
        out.extend(fn_items_in_type(t["t"]))
    elif k == "tuple":
        for x in t["ts"]:
            out.extend(fn_items_in_type(x))
    return out


_CMP_NEG = {"Lt": "Ge", "Ge": "Lt", "Gt": "Le", "Le": "Gt", "Eq": "Ne", "Ne": "Eq"}
_CMP_SWAP = {"Lt": "Gt", "Gt": "Lt", "Le": "Ge", "Ge": "Le", "Eq": "Eq", "Ne": "Ne"}


def cond_forms(descr, truth):
    """All equivalent (description, truth) spellings of a comparison condition: `a >= b` false is `a < b` true is
    `b > a` true ...  Non-comparison descriptions (call names) have one form."""
    out = {(descr, truth)}
    m = re.fullmatch(r"(Lt|Le|Gt|Ge|Eq|Ne)\((.*)\)", descr)
    if not m:
        return out
    op, inner = m.group(1), m.group(2)
    # split the two operands at the top-level comma
    depth, cut = 0, None
    for i, ch in enumerate(inner):
        if ch in "([":
            depth += 1
        elif ch in ")]":
            depth -= 1
        elif ch == "," and depth == 0:
            cut = i
            break
    if cut is None:
        return out
    a, b = inner[:cut], inner[cut + 1:]
    for o, x, y, t in ((op, a, b, truth), (_CMP_NEG[op], a, b, not truth)):
        out.add(("%s(%s,%s)" % (o, x, y), t))
        out.add(("%s(%s,%s)" % (_CMP_SWAP[o], y, x), t))
    return out


def cond_holds(req_cond, req_truth, conds):
    """A required dominating condition is among `conds` in any equivalent spelling."""
    forms = cond_forms(req_cond, req_truth)
    return any((d, t) in forms for d, t in conds)


def dominating_conditions(view, site_block):
    """[(structural description, truth)] of every branch edge that dominates site_block."""
    out = []
    for b in view.dom.get(site_block, ()):
        t = view.blocks[b]["term"]
        if t["t"] != "switch":
            continue
        d = t["discr"]
        if not (d.get("o") in ("copy", "move") and not d["p"]):
            continue
        ch = view.chase(d)
        neg = False
        if ch[0] == "rv" and ch[1]["r"] == "un" and ch[1]["op"] == "Not":
            ch = view.chase(ch[1]["a"])
            neg = True
        if ch[0] == "call":
            descr = (ir.callee_name(ch[1]["fn"]) or "?").split("::")[-1]
            if ir.is_negated_forward(ch[1]["fn"]):
                neg = not neg
        elif ch[0] == "rv" and ch[1]["r"] == "bin":
            descr = "%s(%s,%s)" % (ch[1]["op"], panics._named_local(view, ch[1]["a"]),
                                   panics._named_local(view, ch[1]["b"]))
        else:
            continue
        for s in view.succ.get(b, []):
            vals = [v for v, bb in t["targets"] if bb == s]
            truths = {bool(v) for v in vals}
            if t["otherwise"] == s:
                truths |= ({True, False} - {bool(v) for v, _ in t["targets"]})
            if len(truths) == 1 and view.edge_dominates(b, s, site_block):
                out.append((descr, truths.pop() != neg))
    return out
