"""R-TOTAL/UNIMPL: no todo!() / unimplemented!() is reachable from a public item."""
from .. import panics
from ..engine import Report


def run(ctx, config="all"):
    rep = Report("R-UNIMPL", "no `todo!()` / `unimplemented!()` site lies on a feasible path (configuration-pruned CFG) "
                 "of any function reachable from a public item of the crate")
    prog = ctx.prog(config)
    cg = ctx.cg(config)
    roots = []
    for b in prog.fn_bodies():
        imp = prog.impl_of(b)
        if b.get("vis") == "pub" or (imp and imp.get("trait")):
            roots.append(b["key"])
    reach = cg.closure(roots)
    n = 0
    for b in prog.fn_bodies():
        if b["key"] not in reach:
            continue
        n += 1
        generic = prog.is_cfg_generic(b)
        hit = {}
        for cfg in (ctx.cfgs() if generic else [None]):
            v = prog.view(b, cfg)
            for s in panics.local_sites(v):
                if s.kind == "diverge" and s.macro in ("todo!", "unimplemented!"):
                    hit.setdefault(s.what, [s, []])[1].append(cfg)
        key = b["key"].replace("crate::", "")
        if not hit:
            continue
        for what, (s, cfgs) in hit.items():
            rep.violation("%s|%s" % (key, what), s.where,
                          "%s is reachable in %s (public API reaches this function); any call that gets here panics "
                          "with 'not yet implemented'" % (s.macro, key))
    rep.ok("crate-wide", "", "%d functions reachable from %d public roots scanned" % (n, len(roots)))
    rep.analysed = {"build_config": config, "public_roots": len(roots), "reachable_functions": n}
    rep.floor("reachable_functions", n, 600)
    return rep
