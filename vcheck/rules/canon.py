"""R-CANON: canonical-value typestate.

Forward dataflow over every function that touches limb storage, per non-aligned
configuration (where SHOULD_MASK holds): each Uint-typed root (a local of type
Uint, or the pointee of a `&Uint`/`&mut Uint` local) is CLEAN or DIRTY.

Induction hypothesis: Uint arguments are canonical on entry, Uint-typed call
results are canonical, and a callee that receives `&mut Uint` leaves it
canonical.  Obligations (which make the hypothesis hold for the callers):
  * at every return, the returned value and every `&mut Uint` parameter's
    pointee are CLEAN;
  * a DIRTY value is never passed to another function, except to a function
    that is itself verified to sanitise a dirty argument (masked, apply_mask).
Interval facts (value <= MASK, index != LIMBS-1) come from vcheck.absint.
"""
import re
from .. import absint, ir, total
from ..engine import Report

CLEAN, DIRTY = 0, 1


def is_uint(t):
    return t.get("k") == "adt" and t["n"] in (ir.UINT, ir.BITS_T)


def root_kind(t):
    """'val' for Uint/Bits locals, 'ref' for &Uint / &mut Uint / *Uint locals."""
    if is_uint(t):
        return "val"
    if t.get("k") in ("ref", "ptr") and is_uint(t["t"]):
        return "ref"
    return None


def contains_uint(t):
    return ir.ty_contains(t, is_uint)


def limb_proj(view, pl):
    """If place denotes (part of) the limb array of a Uint root, return (root local, via_deref, rest)
    where rest is the projection after the `.limbs` field; else None."""
    p = pl["p"]
    l = pl["l"]
    t = view.local_ty(l)
    i = 0
    deref = False
    if p and p[0] == "deref":
        if not (t.get("k") in ("ref", "ptr")):
            return None
        t = t["t"]
        deref = True
        i = 1
    # Bits wraps a Uint in field 0
    while i < len(p) and isinstance(p[i], list) and p[i][0] == "f" and p[i][1] == 0 and t.get("k") == "adt" \
            and t["n"] == ir.BITS_T:
        t = {"k": "adt", "n": ir.UINT, "a": t["a"]}
        i += 1
    if not (t.get("k") == "adt" and t["n"] == ir.UINT):
        return None
    if i < len(p) and isinstance(p[i], list) and p[i][0] == "f" and p[i][1] == 0:
        return (l, deref, p[i + 1:])
    return None


class CanonAnalysis:
    def __init__(self, prog, key, cfg, mask, dirty_entry=False, sanitizer_cb=None, unsafe_mut=None):
        self.prog = prog
        self.view = prog.view(key, cfg)
        self.cfg = cfg
        self.mask = mask
        self.top = cfg[1] - 1
        self.ai = absint.Analysis(self.view)
        self.dirty_entry = dirty_entry
        self.sanitizer_cb = sanitizer_cb
        self.unsafe_mut = unsafe_mut or set()
        self.events = []       # (kind, block, detail)
        self.ret_dirty_blocks = set()
        self.sources = 0
        self.entry = {}
        self._run()

    # state: dict root local -> DIRTY (absent = CLEAN); locals holding aggregates with a dirty Uint inside too
    def _join(self, a, b):
        if a is None:
            return dict(b)
        r = dict(a)
        for k, v in b.items():
            if v == DIRTY:
                r[k] = DIRTY
        return r

    def _operand_dirty(self, st, op):
        if op.get("o") in ("copy", "move"):
            return st.get(op["l"], CLEAN) == DIRTY
        return False

    def _run(self):
        v = self.view
        st0 = {}
        if self.dirty_entry:
            for l in range(1, v.nargs + 1):
                if root_kind(v.local_ty(l)):
                    st0[l] = DIRTY
        self.entry = {0: st0}
        order = {b: i for i, b in enumerate(v.rpo())}
        work = [0]
        guard = 0
        while work:
            guard += 1
            if guard > 20000:
                raise RuntimeError("canon: no convergence in %s" % v.body["key"])
            work.sort(key=lambda b: order.get(b, 1 << 30))
            b = work.pop(0)
            out = self._transfer(b, dict(self.entry[b]), record=False)
            for s in self._feasible_succs(b):
                old = self.entry.get(s)
                new = self._join(old, self._edge_refine(b, s, out))
                if old is None or new != old:
                    self.entry[s] = new
                    if s not in work:
                        work.append(s)
        # final pass to record events with the fixpoint states
        for b in sorted(self.entry):
            self._transfer(b, dict(self.entry[b]), record=True)

    def _feasible_succs(self, b):
        ent = self.ai.entry.get(b)
        if ent is None:
            return []
        return sorted({s for s, _st in self.ai.edge_states(b, ent)})

    def _edge_refine(self, b, s, st):
        """A branch `root.limbs[LIMBS-1] > MASK` sanitises root on its false edge."""
        v = self.view
        t = v.blocks[b]["term"]
        if t["t"] != "switch":
            return st
        d = t["discr"]
        if not (d.get("o") in ("copy", "move") and not d["p"]):
            return st
        ch = v.chase(d)
        if not (ch[0] == "rv" and ch[1]["r"] == "bin" and ch[1]["op"] in ("Gt", "Le", "Lt", "Ge")):
            return st
        rv = ch[1]
        op = rv["op"]
        a, c = rv["a"], rv["b"]
        # normalise to  limb <op> const
        ca, cc = v.const_of_operand(a), v.const_of_operand(c)
        if ca is not None and cc is None:
            a, c, cc = c, a, ca
            op = {"Gt": "Lt", "Lt": "Gt", "Ge": "Le", "Le": "Ge"}[op]
        if cc is None:
            return st
        cha = v.chase(a)
        pl = None
        if cha[0] == "place":
            pl = cha[1]
        if pl is None:
            return st
        lp = limb_proj(v, pl)
        if lp is None or len(lp[2]) != 1:
            return st
        root, _deref, rest = lp
        ast = self.ai.state_before_term(b)
        ix = self.ai.index_value(ast, rest[0]) if ast is not None else None
        if rest[0][0] == "cidx" and not rest[0][2]:
            ix = (rest[0][1], rest[0][1])
        if ix is None or not (ix[0] == ix[1] == self.top):
            return st
        vals = [val for val, bb in t["targets"] if bb == s]
        truths = {bool(x) for x in vals}
        if t["otherwise"] == s:
            truths |= ({True, False} - {bool(x) for x, _ in t["targets"]})
        if len(truths) != 1:
            return st
        truth = truths.pop()
        # does (limb op cc) == truth imply limb <= MASK ?
        implies = False
        if op == "Gt" and not truth and cc <= self.mask:
            implies = True
        elif op == "Le" and truth and cc <= self.mask:
            implies = True
        elif op == "Ge" and not truth and cc <= self.mask + 1:
            implies = True
        elif op == "Lt" and truth and cc <= self.mask + 1:
            implies = True
        if implies and st.get(root, CLEAN) == DIRTY:
            st = dict(st)
            st.pop(root, None)
        return st

    def _transfer(self, b, st, record):
        v = self.view
        ai = self.ai
        ast = ai.entry.get(b)
        ast = ast.copy() if ast is not None else None
        blk = v.blocks[b]
        for s in blk["stmts"]:
            if s["s"] != "assign":
                continue
            pl, rv = s["pl"], s["rv"]
            lp = limb_proj(v, pl)
            if lp is not None:
                root, deref, rest = lp
                if record:
                    self.sources += 1
                self._limb_write(st, ast, root, rest, rv, b, record)
            elif not pl["p"]:
                self._assign_local(st, ast, pl["l"], rv, b, record)
                if record and pl["l"] == 0 and st.get(0, CLEAN) == DIRTY:
                    self.ret_dirty_blocks.add(b)
            elif pl["p"] == ["deref"] and root_kind(v.local_ty(pl["l"])) == "ref" and rv["r"] == "use":
                # `*r = value`: the whole Uint behind the reference is replaced (`*self = self.masked()`)
                tgt = self._mut_root_of({"o": "copy", "l": pl["l"], "p": []})
                tgt = pl["l"] if tgt is None else tgt
                if self._operand_dirty(st, rv["a"]):
                    st[tgt] = DIRTY
                else:
                    st.pop(tgt, None)
            elif contains_uint(v.local_ty(pl["l"])) or root_kind(v.local_ty(pl["l"])):
                # partial write of a Uint-holding aggregate (tuple field etc.)
                if rv["r"] == "use" and self._operand_dirty(st, rv["a"]):
                    st[pl["l"]] = DIRTY
            # mutable borrows of limb storage
            if rv["r"] in ("ref", "rawptr") and rv["m"] == "mut":
                lp2 = limb_proj(v, rv["pl"])
                if lp2 is not None:
                    if record:
                        self.sources += 1
                    st[lp2[0]] = DIRTY
                    if record:
                        self.events.append(("borrow-limbs", b, v.where(b)))
            if ast is not None:
                ai.assign(ast, s)
        t = blk["term"]
        if t["t"] == "call":
            self._call(st, ast, t, b, record)
        elif t["t"] == "return" and record:
            self._at_return(st, b)
        return st

    def _limb_write(self, st, ast, root, rest, rv, b, record):
        """`root.limbs[...] = rv` or `root.limbs = rv`."""
        if not rest:
            # whole array replaced
            val_ok = False
            if rv["r"] == "use" and rv["a"].get("o") in ("copy", "move") and not rv["a"]["p"] and ast is not None:
                arr = ast.arr.get(rv["a"]["l"])
                if arr is not None and 0 <= self.top < len(arr) and arr[self.top][1] <= self.mask:
                    val_ok = True
            st[root] = CLEAN if val_ok else DIRTY
            if not val_ok and record:
                self.events.append(("write-limbs", b, self.view.where(b)))
            if val_ok:
                st.pop(root, None)
            return
        e = rest[0]
        ix = self.ai.index_value(ast, e) if ast is not None else None
        if e[0] == "cidx" and not e[2]:
            ix = (e[1], e[1])
        val, _ = self.ai.eval_rvalue(ast, rv, absint.ty_range("u64"), "u64") if ast is not None else (None, None)
        val_ok = val is not None and val[1] <= self.mask
        if ix is not None and (ix[1] < self.top or ix[0] > self.top):
            return   # does not touch the top limb
        if val_ok:
            if ix is not None and ix[0] == ix[1] == self.top:
                st.pop(root, None)   # top limb overwritten with an in-range value: sanitised
            return
        st[root] = DIRTY
        if record:
            self.events.append(("write-limbs", b, self.view.where(b)))

    def _assign_local(self, st, ast, l, rv, b, record):
        v = self.view
        t = v.local_ty(l)
        rk = root_kind(t)
        holds = rk or contains_uint(t)
        if not holds:
            return
        k = rv["r"]
        new = CLEAN
        if k == "use":
            new = DIRTY if self._operand_dirty(st, rv["a"]) else CLEAN
            a = rv["a"]
            if a.get("o") in ("copy", "move") and a["p"] and st.get(a["l"], CLEAN) == DIRTY:
                new = DIRTY
        elif k == "agg":
            if rv.get("kind") == "adt" and rv.get("def") == ir.UINT:
                if record:
                    self.sources += 1
                ok = False
                o = rv["ops"][0] if rv["ops"] else None
                if o is not None and o.get("o") in ("copy", "move") and not o["p"] and ast is not None:
                    arr = ast.arr.get(o["l"])
                    if arr is not None and 0 <= self.top < len(arr) and arr[self.top][1] <= self.mask:
                        ok = True
                new = CLEAN if ok else DIRTY
                if not ok and record:
                    self.events.append(("struct-literal", b, v.where(b)))
            else:
                new = DIRTY if any(self._operand_dirty(st, o) for o in rv["ops"]) else CLEAN
        elif k in ("ref", "rawptr"):
            # reference to a root: shares its status (approximation: copy status at creation; a later
            # write through the reference is seen as a write to the reference local's pointee)
            src = rv["pl"]["l"]
            new = st.get(src, CLEAN)
        elif k == "cast":
            if rv["kind"] == "Transmute" and rk:
                if record:
                    self.sources += 1
                    self.events.append(("transmute", b, v.where(b)))
                new = DIRTY
            else:
                new = DIRTY if self._operand_dirty(st, rv["a"]) else CLEAN
        if new == DIRTY:
            st[l] = DIRTY
        else:
            st.pop(l, None)

    def _mut_root_of(self, op):
        """Root local whose Uint a `&mut` argument refers to (through reborrows), or None."""
        v = self.view
        depth = 8
        while depth > 0:
            depth -= 1
            if op.get("o") not in ("copy", "move") or op["p"]:
                return None
            l = op["l"]
            t = v.local_ty(l)
            if not (t.get("k") == "ref" and t["m"]):
                return None
            if v.is_arg(l):
                return l
            d = v.single_def(l)
            if d is None or d[1] == "term":
                return l
            rv = d[2]["rv"]
            if rv["r"] == "ref":
                pl = rv["pl"]
                if not pl["p"]:
                    return pl["l"]
                if pl["p"] == ["deref"]:
                    op = {"o": "copy", "l": pl["l"], "p": []}
                    continue
                return None
            if rv["r"] == "use":
                op = rv["a"]
                continue
            return None
        return None

    def _call(self, st, ast, t, b, record):
        v = self.view
        name = ir.callee_name(t["fn"]) or "?"
        dest = t["dest"]
        # dirty arguments
        for i, a in enumerate(t["args"]):
            if a.get("o") not in ("copy", "move"):
                continue
            at = v.local_ty(a["l"])
            rk = root_kind(at)
            if not rk and not contains_uint(at):
                continue
            dirty = st.get(a["l"], CLEAN) == DIRTY
            mroot = self._mut_root_of(a) if (at.get("k") == "ref" and at.get("m")) else None
            if mroot is not None and st.get(mroot, CLEAN) == DIRTY:
                dirty = True
            if dirty:
                ok = self.sanitizer_cb(name, i, self.cfg) if self.sanitizer_cb else False
                if not ok and record:
                    self.events.append(("dirty-arg:" + name.split("::")[-1], b, v.where(b)))
            # effect on `&mut Uint` arguments
            if mroot is not None and is_uint(at["t"]):
                if name in self.unsafe_mut:
                    st[mroot] = DIRTY
                    if record:
                        self.sources += 1
                        self.events.append(("unsafe-limbs-mut", b, v.where(b)))
                else:
                    st.pop(mroot, None)     # callee obligation: leaves it canonical
        # result
        if not dest["p"]:
            dt = v.local_ty(dest["l"])
            if root_kind(dt) or contains_uint(dt):
                if name in self.unsafe_mut:
                    st[dest["l"]] = DIRTY
                else:
                    st.pop(dest["l"], None)

    def _at_return(self, st, b):
        v = self.view
        if st.get(0, CLEAN) == DIRTY:
            self.events.append(("return-dirty", b, v.where(b)))
        for l in range(1, v.nargs + 1):
            t = v.local_ty(l)
            if t.get("k") == "ref" and t.get("m") and is_uint(t["t"]) and st.get(l, CLEAN) == DIRTY:
                self.events.append(("mutref-dirty:%s" % (v.local_name(l) or l), b, v.where(b)))


def _setup(ctx, config):
    prog = ctx.prog(config)
    cfgs = []
    for c in ctx.cfgs():
        sm = prog.const_cfg.get("crate::Uint::<BITS, LIMBS>::SHOULD_MASK", {}).get(c)
        if sm:
            cfgs.append(c)
    masks = prog.const_cfg.get("crate::Uint::<BITS, LIMBS>::MASK", {})
    unsafe_mut = set()
    for b in prog.fn_bodies():
        if b.get("unsafe") and "output" in b and b["output"].get("k") in ("ref", "ptr") and b["output"].get("m"):
            if any(root_kind(t) == "ref" for t in b.get("inputs", [])):
                unsafe_mut.add(b["key"])
    memo = {}

    def sanitizer(name, argi, cfg):
        """callee `name` is verified to return a canonical value / leave its &mut canonical even when
        its Uint arguments are dirty, and passes no dirty value onward."""
        if name not in prog.bodies:
            return False
        k = (name, cfg)
        if k not in memo:
            memo[k] = False
            try:
                ca = CanonAnalysis(prog, name, cfg, masks[cfg], dirty_entry=True, sanitizer_cb=sanitizer,
                                   unsafe_mut=unsafe_mut)
                memo[k] = not ca.events
            except RuntimeError:
                memo[k] = False
        return memo[k]

    return prog, cfgs, masks, unsafe_mut, sanitizer


def function_events(ctx, config, key):
    """Non-source R-CANON events of one function over the non-aligned configurations: [(kind, where, cfg)]."""
    prog, cfgs, masks, unsafe_mut, sanitizer = _setup(ctx, config)
    out = []
    for cfg in cfgs:
        ca = CanonAnalysis(prog, key, cfg, masks[cfg], sanitizer_cb=sanitizer, unsafe_mut=unsafe_mut)
        for kind, blk, where in ca.events:
            if kind not in SOURCE_KINDS:
                out.append((kind, where, cfg))
    return out


def run(ctx, config="all", scope=None, label=""):
    rep = Report("R-CANON", "typestate: every function that writes limb storage (assignment through .limbs, &mut "
                 "borrow of .limbs, Uint struct literal, transmute) re-establishes limbs[LIMBS-1] <= MASK on every "
                 "path to every return, in every non-aligned configuration; no non-canonical value is handed to "
                 "another function except a verified sanitiser")
    table = ctx.table("canon")
    prog, cfgs, masks, unsafe_mut, sanitizer = _setup(ctx, config)

    n_fn = n_src = 0
    used_rows = set()
    for b in prog.fn_bodies():
        if scope is not None and not scope(b):
            continue
        if not prog.is_cfg_generic(b):
            continue
        if b.get("unsafe"):
            continue   # unsafe fn: canonicity is the caller's documented obligation (callers become DIRTY)
        # quick filter: any Uint-ish local at all?
        if not any(root_kind(l["ty"]) or contains_uint(l["ty"]) for l in b["locals"]):
            continue
        per = {}
        src_total = 0
        for cfg in cfgs:
            ca = CanonAnalysis(prog, b["key"], cfg, masks[cfg], sanitizer_cb=sanitizer, unsafe_mut=unsafe_mut)
            src_total += ca.sources
            for kind, blk, where in ca.events:
                if kind in ("borrow-limbs", "write-limbs", "struct-literal", "transmute", "unsafe-limbs-mut"):
                    continue   # sources are informational; obligations are at returns / calls
                per.setdefault(kind, [where, []])[1].append(cfg)
        if src_total == 0 and not per:
            continue
        n_fn += 1
        n_src += src_total
        key = b["key"].replace("crate::", "")
        where = "%s:%s" % (b["file"], b["line"])
        if not per:
            rep.ok(key, where, "limb storage written; canonical on every exit in %d non-aligned configurations" % len(cfgs))
            continue
        for kind, (w, cs) in sorted(per.items()):
            row = None
            owner = b["key"]
            for r in table.get(b["key"], []):
                if r["event"] == kind:
                    row = r
            if row is None:
                sc = ir.sole_caller(prog, b["key"])
                if sc is not None:
                    # a private helper with exactly one caller is that caller's code (extract-function refactoring)
                    for r in table.get(sc, []):
                        if r["event"] == kind:
                            row, owner = r, sc
            if row is not None:
                why = row_side_conditions(prog, b, cfgs, masks, row, sanitizer, unsafe_mut)
                if why:
                    rep.violation("%s|%s" % (key, kind), w, "reviewed row for this function no longer applies: " + why)
                    used_rows.add((owner, kind))
                    continue
            if row is not None:
                used_rows.add((owner, kind))
                rep.table("%s|%s" % (key, kind), w, row["reason"])
                continue
            rep.violation("%s|%s" % (key, kind), w,
                          "%s: a value whose top limb may exceed MASK %s in configuration(s) %s" % (
                              key, {"return-dirty": "is returned", }.get(kind, "escapes (" + kind + ")"),
                              ", ".join("(%d,%d)" % c for c in cs[:6])))
    for fn, rows in table.items():
        for r in rows:
            if (fn, r["event"]) not in used_rows and (scope is None or (fn in prog.bodies and scope(prog.bodies[fn]))):
                if fn in prog.bodies:
                    # not a property violation: the construct the row excused is gone or is now proven.  Reported as a
                    # note (tools/meta.py lists stale rows); a row can never excuse anything but its own key
                    rep.note("stale row: %s|%s matches no event any more" % (fn.replace("crate::", ""), r["event"]))
    rep.analysed = {"build_config": config, "functions_touching_limbs": n_fn, "source_events": n_src,
                    "configurations": ["%d,%d" % c for c in cfgs], "label": label}
    return rep


# foreign iterator machinery over slices / arrays / ranges: produces references to the elements, never values
ITERATION_PLUMBING = re.compile(
    r"(<I as core::iter::traits::collect::IntoIterator>::into_iter"
    r"|core::slice::<impl \[T\]>::(iter|iter_mut)"
    r"|core::iter::traits::iterator::Iterator::(zip|enumerate|rev)"
    r"|<core::(iter::adapters::(zip::Zip|enumerate::Enumerate|rev::Rev)|slice::iter::(Iter|IterMut)|ops::range::Range)<.*> as "
    r"core::iter::traits::(iterator::Iterator|double_ended::DoubleEndedIterator)>::(next|next_back)"
    r"|core::iter::range::<impl core::iter::traits::iterator::Iterator for core::ops::range::Range<A>>::next"
    r"|core::array::<impl core::iter::traits::collect::IntoIterator for &.*>::into_iter"
    r"|core::array::<impl \[T; N\]>::(iter|iter_mut|as_slice|as_mut_slice)"
    r"|core::slice::<impl \[T\]>::len)$")


SOURCE_KINDS = ("borrow-limbs", "write-limbs", "struct-literal", "transmute", "unsafe-limbs-mut")


def row_side_conditions(prog, b, cfgs, masks, row, sanitizer, unsafe_mut):
    """Machine-checked side conditions of a canon table row; returns a failure text or ''."""
    if not row.get("requires") and not row.get("only_calls"):
        return ""
    for cfg in cfgs[:3] + cfgs[-2:]:
        ca = CanonAnalysis(prog, b["key"], cfg, masks[cfg], sanitizer_cb=sanitizer, unsafe_mut=unsafe_mut)
        v = ca.view
        if row.get("requires"):
            where = row.get("requires_at", "sources")
            if where == "sources":
                blocks = [blk for kind, blk, _w in ca.events if kind in SOURCE_KINDS]
            else:
                blocks = sorted(ca.ret_dirty_blocks)
            for blk in blocks:
                conds = total.dominating_conditions(v, blk)
                for req in row["requires"]:
                    if not total.cond_holds(req["cond"], req["truth"], conds):
                        return "source at %s is not dominated by %s==%s (configuration %s)" % (
                            v.where(blk), req["cond"], req["truth"], cfg)
        if row.get("only_calls"):
            allowed = row["only_calls"]
            for bi, t in v.calls():
                if bi not in ca.ai.entry:
                    continue
                name = ir.callee_name(t["fn"]) or "?"
                if ITERATION_PLUMBING.match(name):
                    continue     # how the limbs are walked (index loop, iter / iter_mut / zip / enumerate) is not prescribed
                if not any(name == a or name.endswith(a) for a in allowed):
                    return "unexpected call to %s at %s (row allows only %s)" % (name, v.where(bi), ", ".join(allowed))
    return ""
