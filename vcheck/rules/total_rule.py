"""R-TOTAL: total entry points have no undischarged panic site."""
import re

from .. import ir, total
from ..engine import Report


def select_entries(prog, spec):
    """spec: list of dicts {file?, name?(regex), key?(regex), trait?(regex), exclude?(regex)}"""
    out = []
    for b in prog.fn_bodies():
        if b["kind"] == "Closure":
            continue
        for s in spec:
            if "file" in s and not re.search(s["file"], b["file"]):
                continue
            if "name" in s and not re.fullmatch(s["name"], b["name"]):
                continue
            if "key" in s and not re.search(s["key"], b["key"]):
                continue
            if "exclude" in s and re.search(s["exclude"], b["key"]):
                continue
            if s.get("public", True):
                imp = prog.impl_of(b)
                if not (b.get("vis") == "pub" or (imp and imp.get("trait"))):
                    continue
            out.append(b["key"])
            break
    return out


_T = {}


def totality(ctx, config, kernels=False):
    """kernels=True: the division / GCD kernels' implicit sites are inventoried too (C11, C12, C14)."""
    k = (config, kernels)
    if k not in _T:
        _T[k] = total.Totality(ctx.prog(config), ctx.table("total"), cfg_set=ctx.cfgs(),
                               implicit_scope=(lambda b: True) if kernels else None)
    return _T[k]


def short(k):
    return k.replace("crate::", "")


OVF_CONFIG = "all-ovf"


def totality_ovf(ctx):
    """Totality over the facts built with -C overflow-checks=on; reviewed rows = total rows + overflow rows."""
    k = ("ovf", OVF_CONFIG)
    if k not in _T:
        table = {fn: list(rows) for fn, rows in ctx.table("total").items()}
        for fn, rows in ctx.table("overflow").items():
            table.setdefault(fn, []).extend(rows)
        # arithmetic-overflow assertions inside the division / GCD kernels (reciprocal Newton steps, quotient
        # estimates, Lehmer cofactors) are value contracts of C14 / C12 and stay trusted leaves in this clause;
        # their bounds checks and slice ranges ARE inventoried by R-TOTAL proper (release MIR, D-lin)
        _T[k] = total.Totality(ctx.prog(OVF_CONFIG), table, cfg_set=ctx.cfgs(),
                               implicit_scope=lambda b: not b["file"].startswith(("src/algorithms/div", "src/algorithms/gcd")))
    return _T[k]


def run_overflow(ctx, spec, floor, label="", discharged_floor=10):
    """The overflow-checks clause: in a build with arithmetic overflow checks (every debug build) no total entry
    point reaches an undischarged `attempt to <op> with overflow` assertion outside the kernels."""
    rep = Report("R-TOTAL/overflow-checks", "with -C overflow-checks=on (debug builds) no total entry point reaches an "
                 "arithmetic-overflow assertion that the interval interpretation (operand ranges, checked-pair "
                 "modelling, relational window facts, caller refutation of operand guards) cannot discharge; sites "
                 "inside algorithms:: are the kernels' value contract and are not inventoried")
    prog = ctx.prog(OVF_CONFIG)
    T = totality_ovf(ctx)
    entries = select_entries(prog, spec)
    cfgs = ctx.cfgs()
    n_sites = 0
    for e in entries:
        body = prog.bodies[e]
        generic = prog.is_cfg_generic(body)
        per_site = {}
        for cfg in (cfgs if generic else [None]):
            for r in T.residuals(e, cfg):
                if not r.origin_kind.startswith("assert:Overflow"):
                    continue   # every other kind is reported by R-TOTAL proper
                d = per_site.setdefault(r.site_key(), {"cfgs": [], "r": r})
                if cfg not in d["cfgs"]:
                    d["cfgs"].append(cfg)
                if len(r.chain) < len(d["r"].chain):
                    d["r"] = r
        where = "%s:%s" % (body["file"], body["line"])
        if not per_site:
            rep.ok(short(e), where, "no undischarged overflow assertion")
            continue
        for sk, d in sorted(per_site.items()):
            r = d["r"]
            if r.precond is not None and len(r.chain) == 1:
                T.table_used.add((r.precond[0], r.precond[1].get("kind"), r.precond[1].get("what")))
                continue
            cf = ", ".join("(%d,%d)" % c if c else "-" for c in d["cfgs"][:8]) + ("..." if len(d["cfgs"]) > 8 else "")
            rep.violation("%s->%s" % (short(e), short(sk)), where,
                          "entry reaches `%s` at %s, which panics in builds with overflow checks and is not discharged "
                          "in configuration(s) %s; call chain: %s" % (
                              short(r.origin_what), r.origin_where, cf, " -> ".join(short(c) for c in r.chain)))
    ovf_rows = ctx.table("overflow")
    for (fn, kind, what) in sorted(T.table_used, key=str):
        rows = [r for r in ovf_rows.get(fn, []) if r.get("kind") == kind and r.get("what") == what]
        if rows:
            rep.table("row:%s|%s|%s" % (short(fn), kind, what), "", rows[0].get("reason", ""))
    n_sites = sum(1 for lg in T.discharge_log if lg[2].startswith("assert:Overflow"))
    rep.analysed = {"build_config": OVF_CONFIG, "entries": len(entries), "configurations": len(cfgs),
                    "overflow_assertions_discharged_by_intervals": n_sites, "label": label}
    rep.floor("entries-ovf" + ("-" + label if label else ""), len(entries), floor)
    rep.floor("overflow-assertions-discharged", n_sites, discharged_floor)
    return rep


def run(ctx, spec, floor, config="all", label="", own_only=False, kernels=False):
    rep = Report("R-TOTAL", "every entry point that promises to be total (checked_/overflowing_/saturating_/wrapping_ "
                 "forms, try_from_*, decoders, parsers) reaches no panic site that is not discharged by a dominating "
                 "guard (interval / relational / non-zero / callee-guard refutation) in every evaluated (BITS, LIMBS) "
                 "configuration; explicit sites are inventoried in the whole call-graph closure, implicit sites "
                 "(bounds checks, slice ranges) outside algorithms::")
    prog = ctx.prog(config)
    T = totality(ctx, config, kernels)
    entries = select_entries(prog, spec)
    cfgs = ctx.cfgs()
    n_res = 0
    for e in entries:
        body = prog.bodies[e]
        generic = prog.is_cfg_generic(body)
        per_site = {}
        for cfg in (cfgs if generic else [None]):
            for r in T.residuals(e, cfg):
                if own_only and not (r.origin_fn == e or r.origin_fn.startswith(e + "::{closure")):
                    continue
                d = per_site.setdefault(r.site_key(), {"cfgs": [], "r": r})
                if cfg not in d["cfgs"]:
                    d["cfgs"].append(cfg)
                if len(r.chain) < len(d["r"].chain):
                    d["r"] = r
        where = "%s:%s" % (body["file"], body["line"])
        if not per_site:
            rep.ok(short(e), where, "no undischarged panic site in %d configuration(s)" % (len(cfgs) if generic else 1))
            continue
        for sk, d in sorted(per_site.items()):
            r = d["r"]
            if r.precond is not None and len(r.chain) == 1:
                T.table_used.add((r.precond[0], r.precond[1].get("kind"), r.precond[1].get("what")))
                continue
            if r.preds and len(r.chain) == 1 and r.origin_fn == e:
                # the entry's own documented panic, exported by a reviewed row as a predicate its callers must
                # establish (algorithms::div: "Panics if divisor is zero"): a precondition of the entry itself
                continue
            n_res += 1
            cf = ", ".join("(%d,%d)" % c if c else "-" for c in d["cfgs"][:8]) + ("..." if len(d["cfgs"]) > 8 else "")
            rep.violation("%s->%s" % (short(e), short(sk)), where,
                          "entry reaches %s `%s` at %s%s undischarged in configuration(s) %s; call chain: %s" % (
                              r.origin_kind, short(r.origin_what), r.origin_where,
                              (" (" + r.origin_macro + ")") if r.origin_macro else "", cf,
                              " -> ".join(short(c) for c in r.chain)))
    for (fn, kind, what) in sorted(T.table_used, key=str):
        rows = [r for r in ctx.table("total").get(fn, []) if r.get("kind") == kind and r.get("what") == what]
        reason = rows[0].get("reason", "") if rows else ""
        rep.table("row:%s|%s|%s" % (short(fn), kind, what), "", reason)
    n_lin = sum(1 for lg in T.discharge_log if str(lg[4]).startswith("D-lin"))
    rep.analysed = {"build_config": config, "entries": len(entries), "configurations": len(cfgs),
                    "stats": dict(T.stats), "label": label, "kernel_implicit_sites_in_scope": bool(kernels),
                    "sites_discharged_by_linear_domain": n_lin,
                    "linear_preconditions_assumed_in_callee_and_proved_at_call_sites": sorted(
                        k.replace("crate::", "") for k in T.linear_pre_used)}
    rep.floor("entries" + ("-" + label if label else ""), len(entries), floor)
    if kernels and label in ("C14", "C11"):
        # the kernel claims rest on D-lin: a run in which it discharged nothing did not analyse the kernels
        rep.floor("sites-discharged-by-D-lin-" + label, n_lin, 10 if label == "C14" else 5)
    return rep


def stale_rows(ctx, config="all"):
    """Table rows that matched nothing (stale table) -- reported by the meta check."""
    used = set(totality(ctx, config).table_used) | set(totality(ctx, config, True).table_used)
    out = []
    for fn, rows in ctx.table("total").items():
        for r in rows:
            if (fn, r.get("kind"), r.get("what")) not in used and not r.get("optional"):
                out.append((fn, r.get("kind"), r.get("what")))
    return out
