"""R-WITNESS: programs that must (not) build.  Builds /repo's library once with the stable toolchain and
compiles every witness as a bin with rustc (post-monomorphisation const errors such as the LIMBS assertion
only surface with codegen), in parallel, comparing outcome and diagnostic text."""
import concurrent.futures
import hashlib
import os
import shutil
import subprocess
import sys
import tempfile

from .. import facts
from ..engine import Report

sys.path.insert(0, os.path.join(facts.VERIF, "witness"))

FEATURES = "std,proptest,arbitrary,num-traits,rand-09"


def build_lib(repo):
    """cargo build the library (stable) into a cached target dir; returns (rlib, deps dir)."""
    target = os.path.join(facts.CACHE, "wtarget")
    os.makedirs(facts.CACHE, exist_ok=True)
    env = dict(os.environ, CARGO_TARGET_DIR=target, CARGO_NET_OFFLINE="true")
    env.pop("RUSTC_WORKSPACE_WRAPPER", None)
    env.pop("RUSTFLAGS", None)
    # cargo's freshness test is mtime based; a tree that was patched and restored (or a clock that moved) can leave
    # an artefact built from other sources looking fresh.  Key the artefacts by the content hash of the tree instead.
    th = facts.tree_hash(repo)
    stamp = os.path.join(target, "verif-tree-hash")
    old = open(stamp).read() if os.path.exists(stamp) else ""
    if old != th:
        fp = os.path.join(target, "debug", ".fingerprint")
        if os.path.isdir(fp):
            for d in os.listdir(fp):
                if d.startswith("ruint-") or d.startswith("ruint_macro-"):
                    shutil.rmtree(os.path.join(fp, d), ignore_errors=True)
        if os.path.exists(stamp):
            os.remove(stamp)
    p = subprocess.run(["cargo", "build", "--offline", "--lib", "-p", "ruint", "--features", FEATURES],
                       cwd=repo, env=env, stdout=subprocess.PIPE, stderr=subprocess.STDOUT, text=True)
    if p.returncode != 0:
        raise RuntimeError("witness: cargo build of /repo failed:\n" + p.stdout[-3000:])
    with open(stamp, "w") as fh:
        fh.write(th)
    deps = os.path.join(target, "debug", "deps")
    rlib = os.path.join(target, "debug", "libruint.rlib")
    return rlib, deps


def extern_args(deps):
    """--extern flags for the crates witnesses name directly."""
    out = []
    for crate in ("num_traits", "arbitrary", "proptest"):
        cands = sorted(f for f in os.listdir(deps) if f.startswith("lib%s-" % crate) and f.endswith(".rlib"))
        if cands:
            # the one the ruint build used: most recent
            cands.sort(key=lambda f: os.path.getmtime(os.path.join(deps, f)))
            out += ["--extern", "%s=%s" % (crate, os.path.join(deps, cands[-1]))]
    return out


def compile_one(args):
    src, rlib, deps, ext, workdir = args
    h = hashlib.sha1(src.encode()).hexdigest()[:16]
    path = os.path.join(workdir, h + ".rs")
    with open(path, "w") as fh:
        fh.write(src)
    cmd = ["rustc", "--edition", "2021", "--crate-type", "bin", "--crate-name", "w" + h, "-C", "debuginfo=0",
           "-C", "opt-level=0", "--extern", "ruint=" + rlib, "-L", "dependency=" + deps] + ext + \
          ["-A", "warnings", "--out-dir", os.path.join(workdir, h), path]
    os.makedirs(os.path.join(workdir, h), exist_ok=True)
    p = subprocess.run(cmd, stdout=subprocess.PIPE, stderr=subprocess.STDOUT, text=True)
    shutil.rmtree(os.path.join(workdir, h), ignore_errors=True)
    return p.returncode == 0, p.stdout


def run(ctx, group):
    """Serialised across processes: the library artefact in the shared cache is rebuilt per tree, and a concurrent
    run (another property, or a scratch tree) must not replace it while witnesses are being compiled against it."""
    import fcntl
    os.makedirs(facts.CACHE, exist_ok=True)
    with open(os.path.join(facts.CACHE, "witness.lock"), "w") as lock:
        fcntl.flock(lock, fcntl.LOCK_EX)
        try:
            return _run(ctx, group)
        finally:
            fcntl.flock(lock, fcntl.LOCK_UN)


def _run(ctx, group):
    import cases  # /verif/witness/cases.py
    rep = Report("R-WITNESS", "compile-fail / compile-pass witnesses: every failing program fails with the expected "
                 "diagnostic and its twin, which differs only in the offending token, builds")
    repo = facts.REPO
    try:
        rlib, deps = build_lib(repo)
    except RuntimeError as e:
        rep.violation("build", "", str(e)[:400])
        return rep
    ext = extern_args(deps)
    items = [c for c in cases.GROUPS[group]() if ctx.tier == "thorough" or c.get("quick", True)]
    work = tempfile.mkdtemp(prefix="ruint_witness_")
    try:
        jobs = []
        for c in items:
            if "fail" in c:
                jobs.append((c["name"], "fail", c["fail"]))
            jobs.append((c["name"], "ok", c["ok"]))
        with concurrent.futures.ThreadPoolExecutor(max_workers=16) as ex:
            results = list(ex.map(compile_one, [(src, rlib, deps, ext, work) for _n, _k, src in jobs]))
        res = {}
        for (name, kind, _src), (ok, out) in zip(jobs, results):
            res[(name, kind)] = (ok, out)
        for c in items:
            name = c["name"]
            ok_built, ok_out = res[(name, "ok")]
            if not ok_built:
                first = next((l for l in ok_out.splitlines() if l.startswith("error")), ok_out[:200])
                rep.violation(name + "|twin", "", "the compiling twin does not build (witness is invalid or a valid "
                              "program is rejected): %s" % first)
                continue
            if "fail" not in c:
                rep.ok(name, "", "builds")
                continue
            f_built, f_out = res[(name, "fail")]
            if f_built:
                rep.violation(name, "", "a program that must be rejected builds: %s" % c["fail"].split("fn main() {")[1].strip()[:120])
            elif c["fail_text"] and c["fail_text"] not in f_out:
                first = next((l for l in f_out.splitlines() if l.startswith("error")), f_out[:200])
                rep.violation(name, "", "rejected, but not for the expected reason (%r): %s" % (c["fail_text"], first))
            else:
                rep.ok(name, "", "rejected (%s), twin builds" % (c["fail_text"] or "any error"))
    finally:
        shutil.rmtree(work, ignore_errors=True)
    rep.analysed = {"group": group, "witnesses": len(items), "programs_compiled": len(jobs), "features": FEATURES,
                    "toolchain": "stable"}
    floors = {("C04", "quick"): 20, ("C04", "thorough"): 70, ("C19", "quick"): 24, ("C19", "thorough"): 35}
    rep.floor("witnesses-" + group, len(items), floors[(group, ctx.tier)])
    return rep
