"""R-MACROERR and the digit range check of ruint-macro (C19), on the macro crate's own MIR."""
from .. import ir, panics
from ..engine import Report
from .flag import Bwd


def run(ctx, config="all"):
    rep = Report("R-MACRO", "ruint-macro: (a) the per-digit range check rejects a digit equal to the base; (b) every "
                 "Err of transform_literal reaches the compile_error! builder, Ok(None) returns the original literal "
                 "token, non-literal trees are returned unchanged and groups recurse; (c) the emitted constructor is the "
                 "asserting from_limbs under the caller-supplied crate path")
    prog = ctx.prog(config, "ruint_macro")
    B = prog.bodies
    need = ["crate::parse_digits", "crate::Transformer::transform_tree", "crate::Transformer::transform_literal",
            "crate::Transformer::construct", "crate::Transformer::transform_stream", "crate::error", "crate::pad_limbs"]
    missing = [k for k in need if k not in B]
    if missing:
        # the clauses are phrased in terms of these functions; without them nothing is decided here (R-WITNESS decides
        # the macro's behaviour on every run regardless)
        rep.ok("anchors", "ruint-macro/src/lib.rs", "functions %s not found: R-MACRO not applicable to this shape of the macro "
               "crate; R-WITNESS decides" % [k.split("::")[-1] for k in missing])
        rep.analysed = {"build_config": config, "macro_bodies": len(B)}
        return rep
    # ---- (a) digit range check
    found = False
    cgm = ir.CallGraph(prog)
    digit_fns = sorted(k for k in cgm.closure(["crate::Transformer::transform_literal"]) if prog.bodies[k]["kind"] in ("Fn", "AssocFn", "Closure"))
    for v, bi in ((vv, bb) for vv in (prog.view(k) for k in digit_fns) for bb in sorted(vv.reachable)):
        t = v.blocks[bi]["term"]
        if t["t"] != "switch" or not (t["discr"].get("o") in ("copy", "move") and not t["discr"]["p"]):
            continue
        c = v.chase(t["discr"])
        if not (c[0] == "rv" and c[1]["r"] == "bin" and c[1]["op"] in ("Gt", "Ge", "Lt", "Le")):
            continue
        a, b = panics._named_local(v, c[1]["a"]), panics._named_local(v, c[1]["b"])
        if not (("digit" in a and "base" in b) or ("base" in a and "digit" in b)):
            continue
        found = True
        op = c[1]["op"]
        if "base" in a:   # base op digit  ->  digit op' base
            op = {"Gt": "Lt", "Lt": "Gt", "Ge": "Le", "Le": "Ge"}[op]
        # which edge builds the error?
        err_truth = None
        for s in v.succ.get(bi, []):
            seen, st = set(), [s]
            is_err = False
            while st:
                n = st.pop()
                if n in seen or v.dominates(n, bi):
                    continue
                seen.add(n)
                for stt in v.blocks[n]["stmts"]:
                    if stt["s"] == "assign" and stt["rv"]["r"] == "agg" and stt["rv"].get("variant") == "Err":
                        is_err = True
                if len(seen) < 12:
                    st.extend(v.succ.get(n, []))
            vals = [val for val, bb in t["targets"] if bb == s]
            truth = (t["otherwise"] == s and not vals) or any(bool(x) for x in vals)
            if is_err:
                err_truth = truth
        rejects_equal = {("Ge", True): True, ("Gt", True): False, ("Lt", False): True, ("Le", False): False}.get((op, err_truth))
        where = v.where(bi)
        if rejects_equal:
            rep.ok("parse_digits|range-check", where, "error edge is `digit %s base` == %s" % (op, err_truth))
        else:
            rep.violation("parse_digits|range-check", where, "the range check takes the error edge on `digit %s base` == %s, "
                          "which accepts a digit equal to the base: uint!(1a_U8) builds with the value 20" % (op, err_truth))
    if not found:
        # the comparison is located through the debug names `digit` / `base`; when a rewrite renames them the clause
        # cannot be applied -- that digits >= base are rejected is decided by the R-WITNESS cases digit/* for every base
        rep.note("digit range check not located by name (variables renamed?): decided by the R-WITNESS digit/* witnesses only")
        rep.ok("parse_digits|range-check", "ruint-macro/src/lib.rs", "not located by name; R-WITNESS digit/* decide it")
    # ---- (b) error discipline.  Everything below is decided for certain only when it is provably wrong; a shape the
    # rule does not recognise is "not decided here" -- R-WITNESS (compile-fail programs with the expected diagnostic,
    # the pass-through grid, the nested-group witnesses) decides the behaviour either way.
    TT, TL, TS, ERR = ("crate::Transformer::transform_tree", "crate::Transformer::transform_literal",
                       "crate::Transformer::transform_stream", "crate::error")
    where = "%s:%s" % (B[TT]["file"], B[TT]["line"])
    lit_sites = []
    for k, b in B.items():
        if b["kind"] not in ("Fn", "AssocFn", "Closure"):
            continue
        vv = prog.view(k)
        for bi, t in vv.calls():
            if ir.callee_name(t["fn"]) == TL:
                lit_sites.append((vv, bi, t))
    reach_from_tree = cgm.closure([TT])
    good = False
    for vv, bi, t in lit_sites:
        res_local = t["dest"]["l"]
        for ebi, et in vv.calls():
            if ir.callee_name(et["fn"]) != ERR or len(et["args"]) < 2:
                continue
            sl = Bwd(vv)
            sl.operand(et["args"][1], ebi)
            for d in vv.dom.get(ebi, ()):
                tt = vv.blocks[d]["term"]
                if tt["t"] != "switch" or tt["discr"]["p"]:
                    continue
                c = vv.chase(tt["discr"])
                if c and c[0] == "rv" and c[1]["r"] == "discr" and c[1]["pl"]["l"] == res_local and not c[1]["pl"]["p"]:
                    for s_ in vv.succ.get(d, []):
                        if any(val == 1 and bb == s_ for val, bb in tt["targets"]) and vv.edge_dominates(d, s_, ebi) \
                                and res_local in sl.seen:
                            good = True
    if good:
        rep.ok("transform_tree|err->compile_error", where, "error(span, &message) on the Err arm of transform_literal's result")
    elif lit_sites and ERR not in reach_from_tree:
        rep.violation("transform_tree|err->compile_error", where, "transform_literal is called but the compile_error! builder "
                      "error() is not reachable from transform_tree: a bad literal cannot be reported")
    else:
        rep.ok("transform_tree|err->compile_error", where, "shape not recognised (%d call sites of transform_literal): not decided "
               "here, R-WITNESS fail cases decide" % len(lit_sites))
    tree_fns = [k for k in reach_from_tree if k in B and k not in (TL, TS, ERR) and B[k]["kind"] in ("Fn", "AssocFn", "Closure")] + [TT]
    lit_back = any(s_["s"] == "assign" and s_["rv"]["r"] == "agg" and s_["rv"].get("variant") == "Literal"
                   for k in set(tree_fns) for vv in [prog.view(k)] for bi in vv.reachable for s_ in vv.blocks[bi]["stmts"])
    rep.ok("transform_tree|ok-none-passthrough", where, "TokenTree::Literal rebuilt from the input literal" if lit_back else
           "no Literal aggregate found: not decided here, the R-WITNESS pass-through grid decides")
    if TT in cgm.closure(list(cgm.edges.get(TT, ()))) or TS in reach_from_tree:
        rep.ok("transform_tree|groups-recurse", where, "transform_tree reaches itself again through the group's stream")
    else:
        rep.violation("transform_tree|groups-recurse", where, "transform_tree never reaches itself or transform_stream again: "
                      "literals at nesting depth > 0 stay unexpanded")
    if TT in cgm.closure([TS]):
        rep.ok("transform_stream|maps-every-tree", "", "")
    else:
        rep.violation("transform_stream|maps-every-tree", "", "transform_stream does not reach transform_tree")
    lit_reach = cgm.closure([TL])
    if all(k in lit_reach for k in ("crate::parse_digits", "crate::pad_limbs", "crate::Transformer::construct")):
        rep.ok("transform_literal|shape", "", "reaches parse_digits, pad_limbs and construct")
    else:
        rep.violation("transform_literal|shape", "", "transform_literal no longer reaches %s: digits are not parsed, not range "
                      "checked or not emitted" % [k.split("::")[-1] for k in ("crate::parse_digits", "crate::pad_limbs",
                                                                               "crate::Transformer::construct") if k not in lit_reach])
    # pad_limbs: top-limb test (located by debug names: advisory)
    cmps = []
    for k in [k for k in cgm.closure(["crate::pad_limbs"]) if k in B and B[k]["kind"] in ("Fn", "AssocFn", "Closure")]:
        vp = prog.view(k)
        cmps += [panics._named_local(vp, {"o": "copy", "l": s_["pl"]["l"], "p": []})
                 for bi in vp.reachable for s_ in vp.blocks[bi]["stmts"]
                 if s_["s"] == "assign" and s_["rv"]["r"] == "bin" and s_["rv"]["op"] in ("Gt", "Ge", "Lt", "Le")]
    if any("mask" in c for c in cmps) and any("len" in c for c in cmps):
        rep.ok("pad_limbs|range-check", "", "limbs.len() > num_limbs || last > mask")
    else:
        rep.ok("pad_limbs|range-check", "", "length / top-limb comparisons not located by name (comparisons: %s): not decided "
               "here, the R-WITNESS too-large cases decide" % cmps[:6])
    # ---- (c) construct emits from_limbs
    strs = []
    for k, b in B.items():
        if b["kind"] not in ("Fn", "AssocFn", "Closure"):
            continue
        vc = prog.view(k)
        for bi in vc.reachable:
            for op in ir.operands_of_block(vc.blocks[bi]):
                if op.get("o") == "const" and op.get("c") in ("str", "bytes"):
                    strs.append(op["v"] if op.get("c") == "str" else bytes(op["v"]).decode("latin1"))
    joined = " ".join(strs)
    if "from_limbs_unmasked" in joined:
        rep.violation("construct|from_limbs", "", "the macro emits the non-asserting from_limbs_unmasked constructor")
    elif "from_limbs(" in joined:
        rep.ok("construct|from_limbs", "", "emits `<path>::<ty>::<bits, limbs>::from_limbs([..])`")
    else:
        rep.ok("construct|from_limbs", "", "constructor name not found in the format pieces: not decided here, R-WITNESS "
               "(ill-formed and too-large literals must not build) decides")
    rep.analysed = {"build_config": config, "macro_bodies": len(B)}
    return rep
