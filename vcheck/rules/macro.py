"""R-MACROERR and the digit range check of ruint-macro (C19), on the macro crate's own MIR."""
from .. import ir, panics
from ..engine import Report
from .flag import Bwd


def run(ctx, config="all"):
    rep = Report("R-MACRO", "ruint-macro: (a) the per-digit range check rejects a digit equal to the base; (b) every "
                 "Err of transform_literal reaches the compile_error! builder, Ok(None) returns the original literal "
                 "token, non-literal trees are returned unchanged and groups recurse; (c) the emitted constructor is the "
                 "asserting from_limbs under the caller-supplied crate path")
    prog = ctx.prog(config, "ruint_macro")
    B = prog.bodies
    need = ["crate::parse_digits", "crate::Transformer::transform_tree", "crate::Transformer::transform_literal",
            "crate::Transformer::construct", "crate::Transformer::transform_stream", "crate::error", "crate::pad_limbs"]
    for k in need:
        if k not in B:
            rep.violation("anchor:%s" % k, "ruint-macro/src/lib.rs", "function %s not found: rule cannot be applied" % k)
    if any(o.status == "violation" for o in rep.obligations):
        return rep
    # ---- (a) digit range check
    found = False
    cgm = ir.CallGraph(prog)
    digit_fns = sorted(k for k in cgm.closure(["crate::Transformer::transform_literal"]) if prog.bodies[k]["kind"] in ("Fn", "AssocFn", "Closure"))
    for v, bi in ((vv, bb) for vv in (prog.view(k) for k in digit_fns) for bb in sorted(vv.reachable)):
        t = v.blocks[bi]["term"]
        if t["t"] != "switch" or not (t["discr"].get("o") in ("copy", "move") and not t["discr"]["p"]):
            continue
        c = v.chase(t["discr"])
        if not (c[0] == "rv" and c[1]["r"] == "bin" and c[1]["op"] in ("Gt", "Ge", "Lt", "Le")):
            continue
        a, b = panics._named_local(v, c[1]["a"]), panics._named_local(v, c[1]["b"])
        if not (("digit" in a and "base" in b) or ("base" in a and "digit" in b)):
            continue
        found = True
        op = c[1]["op"]
        if "base" in a:   # base op digit  ->  digit op' base
            op = {"Gt": "Lt", "Lt": "Gt", "Ge": "Le", "Le": "Ge"}[op]
        # which edge builds the error?
        err_truth = None
        for s in v.succ.get(bi, []):
            seen, st = set(), [s]
            is_err = False
            while st:
                n = st.pop()
                if n in seen or v.dominates(n, bi):
                    continue
                seen.add(n)
                for stt in v.blocks[n]["stmts"]:
                    if stt["s"] == "assign" and stt["rv"]["r"] == "agg" and stt["rv"].get("variant") == "Err":
                        is_err = True
                if len(seen) < 12:
                    st.extend(v.succ.get(n, []))
            vals = [val for val, bb in t["targets"] if bb == s]
            truth = (t["otherwise"] == s and not vals) or any(bool(x) for x in vals)
            if is_err:
                err_truth = truth
        rejects_equal = {("Ge", True): True, ("Gt", True): False, ("Lt", False): True, ("Le", False): False}.get((op, err_truth))
        where = v.where(bi)
        if rejects_equal:
            rep.ok("parse_digits|range-check", where, "error edge is `digit %s base` == %s" % (op, err_truth))
        else:
            rep.violation("parse_digits|range-check", where, "the range check takes the error edge on `digit %s base` == %s, "
                          "which accepts a digit equal to the base: uint!(1a_U8) builds with the value 20" % (op, err_truth))
    if not found:
        # the comparison is located through the debug names `digit` / `base`; when a rewrite renames them the clause
        # cannot be applied -- that digits >= base are rejected is decided by the R-WITNESS cases digit/* for every base
        rep.note("digit range check not located by name (variables renamed?): decided by the R-WITNESS digit/* witnesses only")
        rep.ok("parse_digits|range-check", "ruint-macro/src/lib.rs", "not located by name; R-WITNESS digit/* decide it")
    # ---- (b) error discipline in transform_tree
    v = prog.view("crate::Transformer::transform_tree")
    where = "%s:%s" % (v.body["file"], v.body["line"])
    lit_call = [(bi, t) for bi, t in v.calls() if ir.callee_name(t["fn"]) == "crate::Transformer::transform_literal"]
    err_call = [(bi, t) for bi, t in v.calls() if ir.callee_name(t["fn"]) == "crate::error"]
    rec_call = [(bi, t) for bi, t in v.calls() if ir.callee_name(t["fn"]) == "crate::Transformer::transform_stream"]
    if len(lit_call) == 1 and len(err_call) == 1:
        res_local = lit_call[0][1]["dest"]["l"]
        ebi, et = err_call[0]
        sl = Bwd(v)
        sl.operand(et["args"][1], ebi)
        # the error call is dominated by the Err arm of the match on transform_literal's result
        dominated = False
        for d in v.dom.get(ebi, ()):
            tt = v.blocks[d]["term"]
            if tt["t"] == "switch":
                c = v.chase(tt["discr"]) if not tt["discr"]["p"] else None
                if c and c[0] == "rv" and c[1]["r"] == "discr" and c[1]["pl"]["l"] == res_local and not c[1]["pl"]["p"]:
                    for s in v.succ.get(d, []):
                        if any(val == 1 and bb == s for val, bb in tt["targets"]) and v.edge_dominates(d, s, ebi):
                            dominated = True
        if dominated and res_local in sl.seen:
            rep.ok("transform_tree|err->compile_error", where, "error(span, &message) on the Err arm")
        else:
            rep.violation("transform_tree|err->compile_error", where, "the Err of transform_literal does not reach error(): a bad "
                          "literal would pass through unchanged or be dropped")
    else:
        rep.violation("transform_tree|shape", where, "expected exactly one call to transform_literal and one to error() "
                      "(found %d, %d)" % (len(lit_call), len(err_call)))
    # Ok(None) -> original literal, other trees unchanged, groups recurse
    lit_back = any(s["s"] == "assign" and s["rv"]["r"] == "agg" and s["rv"].get("variant") == "Literal"
                   for bi in v.reachable for s in v.blocks[bi]["stmts"])
    if lit_back:
        rep.ok("transform_tree|ok-none-passthrough", where, "TokenTree::Literal(a) rebuilt from the input literal")
    else:
        rep.violation("transform_tree|ok-none-passthrough", where, "no path returns the original literal token")
    if rec_call:
        rep.ok("transform_tree|groups-recurse", where, "transform_stream(group.stream())")
    else:
        rep.violation("transform_tree|groups-recurse", where, "groups are not transformed recursively: literals at nesting "
                      "depth > 0 stay unexpanded")
    vs = prog.view("crate::Transformer::transform_stream")
    names = [ir.callee_name(t["fn"]) for _bi, t in vs.calls()]
    clos = prog.view("crate::Transformer::transform_stream::{closure#0}") if "crate::Transformer::transform_stream::{closure#0}" in B else None
    cn = [ir.callee_name(t["fn"]) for _bi, t in clos.calls()] if clos else []
    if "crate::Transformer::transform_tree" in cn or "crate::Transformer::transform_tree" in names:
        rep.ok("transform_stream|maps-every-tree", "", "")
    else:
        rep.violation("transform_stream|maps-every-tree", "", "transform_stream does not call transform_tree")
    # transform_literal: parse_digits error propagated, pad_limbs None -> Err
    vl = prog.view("crate::Transformer::transform_literal")
    ln = [ir.callee_name(t["fn"]) for _bi, t in vl.calls()]
    errs = sum(1 for bi in vl.reachable for s in vl.blocks[bi]["stmts"]
               if s["s"] == "assign" and s["rv"]["r"] == "agg" and s["rv"].get("variant") == "Err")
    if "crate::parse_digits" in ln and "crate::pad_limbs" in ln and "crate::Transformer::construct" in ln and errs >= 1:
        rep.ok("transform_literal|shape", "", "parse_suffix -> parse_digits? -> pad_limbs (None -> Err) -> construct")
    else:
        rep.violation("transform_literal|shape", "", "transform_literal no longer range-checks through pad_limbs / propagates "
                      "parse_digits errors (calls %s, Err aggregates %d)" % ([n.split("::")[-1] for n in ln if n and n.startswith("crate::")], errs))
    # pad_limbs: top-limb test
    vp = prog.view("crate::pad_limbs")
    cmps = [panics._named_local(vp, {"o": "copy", "l": s["pl"]["l"], "p": []})
            for bi in vp.reachable for s in vp.blocks[bi]["stmts"]
            if s["s"] == "assign" and s["rv"]["r"] == "bin" and s["rv"]["op"] in ("Gt", "Ge", "Lt", "Le")]
    has_mask_cmp = any("mask" in c for c in cmps)
    has_len_cmp = any("len" in c for c in cmps)
    if has_mask_cmp and has_len_cmp:
        rep.ok("pad_limbs|range-check", "", "limbs.len() > num_limbs || last > mask")
    else:
        rep.violation("pad_limbs|range-check", "", "pad_limbs lacks the length or the top-limb (mask) comparison: a literal "
                      ">= 2^bits would be emitted (comparisons: %s)" % cmps)
    # ---- (c) construct emits from_limbs
    vc = prog.view("crate::Transformer::construct")
    strs = []
    for bi in vc.reachable:
        for op in ir.operands_of_block(vc.blocks[bi]):
            if op.get("o") == "const" and op.get("c") in ("str", "bytes"):
                strs.append(op["v"] if op.get("c") == "str" else bytes(op["v"]).decode("latin1"))
    joined = " ".join(strs)
    if "from_limbs(" in joined and "from_limbs_unmasked" not in joined:
        rep.ok("construct|from_limbs", "", "emits `<path>::<ty>::<bits, limbs>::from_limbs([..])`")
    else:
        rep.violation("construct|from_limbs", "", "construct does not emit the asserting from_limbs constructor (format pieces: %r)" % joined[:160])
    rep.analysed = {"build_config": config, "macro_bodies": len(B)}
    return rep
