"""R-FLOAT: float -> Uint is rounding-free before field extraction and classifies in the right order (C18)."""
import re

from .. import ir, total
from ..engine import Report
from .flag import Bwd

F64 = "crate::from::<impl core::convert::TryFrom<f64> for crate::Uint<BITS, LIMBS>>::try_from"
F32 = "crate::from::<impl core::convert::TryFrom<f32> for crate::Uint<BITS, LIMBS>>::try_from"
TO_F64 = "crate::from::<impl core::convert::From<&crate::Uint<BITS, LIMBS>> for f64>::from"
TO_F32 = "crate::from::<impl core::convert::From<&crate::Uint<BITS, LIMBS>> for f32>::from"
ROUNDING = {"Add", "Sub", "Mul", "Div"}


def is_float_local(v, l):
    t = v.local_ty(l)
    return t.get("k") == "prim" and t["n"] in ("f64", "f32")


def run(ctx, config="all"):
    rep = Report("R-FLOAT", "in TryFrom<f64>/TryFrom<f32> for Uint the value reaches the IEEE-754 field extraction "
                 "(to_bits) through no rounding float operation (+ - * / on floats; comparisons, %, abs, casts f32->f64 "
                 "are exact); NotANumber is not produced on the is_nan() == false edge, ValueNegative not on a negated "
                 "`>= 0.0` edge without a NaN test in front (an unrecognised classification is not decided). Uint->float: reads the value through "
                 "at most one inexact step (rounding cast, narrowing cast, float + - /, * by anything but an "
                 "exponent-only factor, nested conversion) on the path to the result")
    prog = ctx.prog(config)
    b = prog.bodies.get(F64)
    if b is None:
        rep.violation("try_from_f64-missing", "src/from.rs", "TryFrom<f64> for Uint not found (std feature off?)")
        return rep
    v = prog.view(b, (65, 2))
    where = "%s:%s" % (b["file"], b["line"])
    # 1. rounding-free path to to_bits
    n_bits = 0
    for bi, t in v.calls():
        n = ir.callee_name(t["fn"]) or ""
        if n.endswith("f64>::to_bits"):
            n_bits += 1
            sl = Bwd(v)
            sl.operand(t["args"][0], bi)
            bad = []
            for l in sl.seen:
                if not is_float_local(v, l):
                    continue
                for bj, si, s in v.defs.get(l, []):
                    if si != "term" and s.get("rv", {}).get("r") == "bin" and s["rv"]["op"] in ROUNDING:
                        bad.append((s["rv"]["op"], v.blocks[bj]["stmts"][si].get("line")))
            if bad:
                rep.violation("try_from_f64|rounding-before-to_bits", v.where(bi),
                              "the float passes through the rounding operation(s) %s before its mantissa and exponent are "
                              "extracted: e.g. value + 0.5 is not exact for odd integers in [2^52, 2^53) "
                              "(4503599627370497.0 -> ...498)" % sorted(set(bad)))
            else:
                rep.ok("try_from_f64|rounding-before-to_bits", v.where(bi), "no + - * / on the path to to_bits")
    if n_bits == 0:
        rep.ok("try_from_f64|to_bits-missing", where, "no to_bits call: the conversion does not extract the IEEE-754 fields "
               "through to_bits; the rounding clause has no instance (not decided)")
    # 2. classification: only what is provably wrong is reported.  NaN fails every comparison, so the order of the NaN
    # test and the range tests is not prescribed; a NaN test is `is_nan()` (how else NaN is told apart is not recognised
    # and then not decided).
    NEG = re.compile(r"^(Lt\([a-z_0-9]+,-?0(\.0)?\)|Gt\(-?0(\.0)?,[a-z_0-9]+\))$")
    nan_switch = None
    for bi in sorted(v.reachable):
        t = v.blocks[bi]["term"]
        if t["t"] == "switch" and t["discr"].get("o") in ("copy", "move") and not t["discr"]["p"]:
            c = v.chase(t["discr"])
            if c[0] == "call" and (ir.callee_name(c[1]["fn"]) or "").endswith("::is_nan"):
                nan_switch = bi
    for bi in sorted(v.reachable):
        for s in v.blocks[bi]["stmts"]:
            if s["s"] == "assign" and s["rv"]["r"] == "agg" and s["rv"].get("def", "").endswith("ToUintError"):
                var = s["rv"]["variant"]
                conds = total.dominating_conditions(v, bi)
                if var == "NotANumber":
                    if ("is_nan", True) in conds:
                        rep.ok("try_from_f64|NotANumber", v.where(bi), "on the is_nan edge")
                    elif ("is_nan", False) in conds:
                        rep.violation("try_from_f64|NotANumber", v.where(bi), "NotANumber is constructed on the edge where "
                                      "is_nan() is false")
                    else:
                        rep.ok("try_from_f64|NotANumber", v.where(bi), "NaN test not recognised (conditions: %s): not decided" % conds[:4])
                elif var == "ValueNegative":
                    if any(NEG.match(d) and tr for d, tr in conds):
                        rep.ok("try_from_f64|ValueNegative", v.where(bi), "on a `x < 0.0` edge (NaN fails the comparison)")
                    elif any(re.match(r"^(Ge|Gt)\([a-z_0-9]+,-?0(\.0)?\)$", d) and not tr for d, tr in conds) \
                            and ("is_nan", False) not in conds:
                        rep.violation("try_from_f64|ValueNegative", v.where(bi), "ValueNegative is constructed where `x >= 0.0` is "
                                      "false with no NaN test in front: NaN is reported as negative (conditions: %s)" % conds[:4])
                    else:
                        rep.ok("try_from_f64|ValueNegative", v.where(bi), "sign test not recognised (conditions: %s): not decided" % conds[:4])
    rep.analysed["nan_test_recognised"] = nan_switch is not None
    # f32 forwards through an exact widening cast
    b32 = prog.bodies.get(F32)
    if b32 is not None:
        v32 = prog.view(b32, (65, 2))
        calls = [ir.callee_name(t["fn"]) for _bi, t in v32.calls()]
        casts = [s["rv"]["kind"] for bi in v32.reachable for s in v32.blocks[bi]["stmts"]
                 if s["s"] == "assign" and s["rv"]["r"] == "cast"]
        binops = [s["rv"]["op"] for bi in v32.reachable for s in v32.blocks[bi]["stmts"]
                  if s["s"] == "assign" and s["rv"]["r"] == "bin"]
        WIDEN = "core::convert::num::<impl core::convert::From<f32> for f64>::from"
        if not binops and ((calls == [F64] and casts == ["FloatToFloat"]) or (calls == [WIDEN, F64] and not casts)):
            rep.ok("try_from_f32", "%s:%s" % (b32["file"], b32["line"]), "try_from(value as f64) / try_from(f64::from(value))")
        else:
            rep.violation("try_from_f32", "%s:%s" % (b32["file"], b32["line"]), "TryFrom<f32> is not the exact widening "
                          "forward to TryFrom<f64>: calls %s, casts %s, ops %s" % (calls, casts, binops))
    # Uint -> float: at most ONE inexact step between the integer and the returned float.  Inexact steps: an
    # int->float cast of a value that may exceed the mantissa, a narrowing float->float cast, a float + - /,
    # a float * unless one side is a factor derived from the exponent alone (a power of two: exact), and a call of
    # another Uint->float conversion (which contains its own).  Two inexact steps round twice (not a neighbour of
    # the exact value in general, wrong at the overflow edge).  How the power of two is produced (libm exp2, bit
    # pattern, table) is not prescribed -- its value is arithmetic and not decided.
    for k, nm in ((TO_F64, "f64"), (TO_F32, "f32")):
        bb = prog.bodies.get(k)
        if bb is None:
            continue
        vv = prog.view(bb, (65, 2))
        wh = "%s:%s" % (bb["file"], bb["line"])
        msb_dest = {t["dest"]["l"] for bi, t in vv.calls()
                    if (ir.callee_name(t["fn"]) or "").endswith("::most_significant_bits")}

        def slice_of(op):
            """(locals in the backward slice, msb fields read, statements/calls in the slice)"""
            used, seen, items, stk = set(), set(), [], [op]
            while stk:
                o = stk.pop()
                if o.get("o") not in ("copy", "move"):
                    continue
                if o["l"] in msb_dest and o["p"] and o["p"][0][0] == "f":
                    used.add(o["p"][0][1])
                    continue
                if o["l"] in seen or vv.is_arg(o["l"]):
                    continue
                seen.add(o["l"])
                for bi, si, x in vv.defs.get(o["l"], []):
                    if bi not in vv.reachable:
                        continue
                    items.append((bi, si, x))
                    if si == "term":
                        stk.extend(x["args"])
                    elif x.get("rv"):
                        stk.extend(ir.operands_of_rvalue(x["rv"]))
                        if x["rv"]["r"] in ("ref", "discr"):
                            stk.append({"o": "copy", "l": x["rv"]["pl"]["l"], "p": x["rv"]["pl"]["p"]})
            return seen, used, items

        _seen, _used, items = slice_of({"o": "copy", "l": 0, "p": []})
        exempt = set()    # locals on the exponent-only side of a multiplication
        steps = []
        mant_bits = {"f64": 53, "f32": 24}
        for bi, si, x in items:
            if si == "term":
                cn = ir.callee_name(x["fn"]) or ""
                if cn in (TO_F64, TO_F32) or cn in (TO_F64.replace("&", ""), TO_F32.replace("&", "")) or \
                        ("core::convert::From<" in cn and "Uint<BITS, LIMBS>> for f" in cn):
                    steps.append(("call of another Uint->float conversion", vv.where(bi), x["dest"]["l"]))
                continue
            rv = x.get("rv") or {}
            dl = x["pl"]["l"]
            if rv.get("r") == "bin" and is_float_local(vv, dl) and rv["op"] in ROUNDING:
                if rv["op"] == "Mul":
                    sa, sb = slice_of(rv["a"]), slice_of(rv["b"])
                    side = None
                    if sa[1] == {1}:
                        side = sa
                    elif sb[1] == {1}:
                        side = sb
                    if side is not None:
                        exempt |= side[0]
                        continue
                steps.append(("float %s" % rv["op"], vv.where(bi), dl))
            elif rv.get("r") == "cast" and rv["kind"] == "IntToFloat":
                src_t = None
                a = rv["a"]
                if a.get("o") in ("copy", "move") and not a["p"]:
                    src_t = vv.local_tyname(a["l"])
                bits = ir.INT_BITS.get(src_t, 128)
                tn = vv.local_tyname(dl)
                if bits > mant_bits.get(tn, 24):
                    steps.append(("%s as %s" % (src_t, tn), vv.where(bi), dl))
            elif rv.get("r") == "cast" and rv["kind"] == "FloatToFloat":
                a = rv["a"]
                st_ = vv.local_tyname(a["l"]) if a.get("o") in ("copy", "move") and not a["p"] else None
                if st_ == "f64" and vv.local_tyname(dl) == "f32":
                    steps.append(("f64 as f32", vv.where(bi), dl))
        steps = [s_ for s_ in steps if s_[2] not in exempt]
        if len(steps) > 1:
            rep.violation("to_%s" % nm, wh, "Uint->%s rounds more than once on the way to its result: %s; the result is then "
                          "not always a neighbour of the exact value (double rounding, e.g. at the overflow edge)" % (
                              nm, "; ".join("%s at %s" % (a_, w_) for a_, w_, _l in steps)))
        elif not steps and not msb_dest:
            rep.violation("to_%s" % nm, wh, "Uint->%s: no int->float step found on the path to the result (rule cannot be "
                          "applied)" % nm)
        else:
            rep.ok("to_%s" % nm, wh, "one inexact step on the path to the result: %s" % (
                "; ".join("%s at %s" % (a_, w_) for a_, w_, _l in steps) or "none"))
    rep.analysed["build_config"] = config
    return rep
