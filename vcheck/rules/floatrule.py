"""R-FLOAT: float -> Uint is rounding-free before field extraction and classifies in the right order (C18)."""
from .. import ir, total
from ..engine import Report
from .flag import Bwd

F64 = "crate::from::<impl core::convert::TryFrom<f64> for crate::Uint<BITS, LIMBS>>::try_from"
F32 = "crate::from::<impl core::convert::TryFrom<f32> for crate::Uint<BITS, LIMBS>>::try_from"
TO_F64 = "crate::from::<impl core::convert::From<&crate::Uint<BITS, LIMBS>> for f64>::from"
TO_F32 = "crate::from::<impl core::convert::From<&crate::Uint<BITS, LIMBS>> for f32>::from"
ROUNDING = {"Add", "Sub", "Mul", "Div"}


def is_float_local(v, l):
    t = v.local_ty(l)
    return t.get("k") == "prim" and t["n"] in ("f64", "f32")


def run(ctx, config="all"):
    rep = Report("R-FLOAT", "in TryFrom<f64>/TryFrom<f32> for Uint the value reaches the IEEE-754 field extraction "
                 "(to_bits) through no rounding float operation (+ - * / on floats; comparisons, %, abs, casts f32->f64 "
                 "are exact); NotANumber is produced exactly on the is_nan edge, which dominates every float comparison; "
                 "ValueNegative exactly on the `value < 0.0` edge. Uint->float: reads the value through "
                 "most_significant_bits, one int->float cast of the mantissa and one multiplication by exp2(exponent)")
    prog = ctx.prog(config)
    b = prog.bodies.get(F64)
    if b is None:
        rep.violation("try_from_f64-missing", "src/from.rs", "TryFrom<f64> for Uint not found (std feature off?)")
        return rep
    v = prog.view(b, (65, 2))
    where = "%s:%s" % (b["file"], b["line"])
    # 1. rounding-free path to to_bits
    n_bits = 0
    for bi, t in v.calls():
        n = ir.callee_name(t["fn"]) or ""
        if n.endswith("f64>::to_bits"):
            n_bits += 1
            sl = Bwd(v)
            sl.operand(t["args"][0], bi)
            bad = []
            for l in sl.seen:
                if not is_float_local(v, l):
                    continue
                for bj, si, s in v.defs.get(l, []):
                    if si != "term" and s.get("rv", {}).get("r") == "bin" and s["rv"]["op"] in ROUNDING:
                        bad.append((s["rv"]["op"], v.blocks[bj]["stmts"][si].get("line")))
            if bad:
                rep.violation("try_from_f64|rounding-before-to_bits", v.where(bi),
                              "the float passes through the rounding operation(s) %s before its mantissa and exponent are "
                              "extracted: e.g. value + 0.5 is not exact for odd integers in [2^52, 2^53) "
                              "(4503599627370497.0 -> ...498)" % sorted(set(bad)))
            else:
                rep.ok("try_from_f64|rounding-before-to_bits", v.where(bi), "no + - * / on the path to to_bits")
    if n_bits == 0:
        rep.violation("try_from_f64|to_bits-missing", where, "no to_bits call found: the conversion no longer extracts the "
                      "IEEE-754 fields exactly (rule cannot be applied)")
    # 2. classification
    nan_switch = None
    for bi in sorted(v.reachable):
        t = v.blocks[bi]["term"]
        if t["t"] == "switch" and t["discr"].get("o") in ("copy", "move") and not t["discr"]["p"]:
            c = v.chase(t["discr"])
            if c[0] == "call" and (ir.callee_name(c[1]["fn"]) or "").endswith("::is_nan"):
                nan_switch = bi
    for bi in sorted(v.reachable):
        for s in v.blocks[bi]["stmts"]:
            if s["s"] == "assign" and s["rv"]["r"] == "agg" and s["rv"].get("def", "").endswith("ToUintError"):
                var = s["rv"]["variant"]
                conds = total.dominating_conditions(v, bi)
                if var == "NotANumber":
                    if ("is_nan", True) in conds:
                        rep.ok("try_from_f64|NotANumber", v.where(bi), "on the is_nan edge")
                    else:
                        rep.violation("try_from_f64|NotANumber", v.where(bi), "NotANumber is constructed off the is_nan edge")
                elif var == "ValueNegative":
                    if any(d.startswith("Lt(value,") and tr for d, tr in conds) and ("is_nan", False) in conds:
                        rep.ok("try_from_f64|ValueNegative", v.where(bi), "on the `value < 0.0` edge, after the NaN test")
                    else:
                        rep.violation("try_from_f64|ValueNegative", v.where(bi), "ValueNegative is not constructed exactly "
                                      "under `value < 0.0` after the NaN test (conditions: %s)" % conds)
    # every float comparison is dominated by the is_nan false edge
    if nan_switch is None:
        rep.violation("try_from_f64|is_nan-missing", where, "no is_nan test: NaN compares false with everything and would "
                      "fall through the range tests")
    else:
        n_cmp = 0
        for bi in sorted(v.reachable):
            for s in v.blocks[bi]["stmts"]:
                if s["s"] == "assign" and s["rv"]["r"] == "bin" and s["rv"]["op"] in ("Lt", "Le", "Gt", "Ge", "Eq", "Ne"):
                    ops = [o for o in (s["rv"]["a"], s["rv"]["b"]) if o.get("o") in ("copy", "move") and not o["p"]
                           and is_float_local(v, o["l"])]
                    if ops:
                        n_cmp += 1
                        if ("is_nan", False) in total.dominating_conditions(v, bi):
                            rep.ok("try_from_f64|cmp-after-nan#%d" % n_cmp, v.where(bi), "")
                        else:
                            rep.violation("try_from_f64|cmp-before-nan", v.where(bi), "a float comparison is evaluated "
                                          "before the NaN test")
        rep.analysed["float_comparisons"] = n_cmp
    # f32 forwards through an exact widening cast
    b32 = prog.bodies.get(F32)
    if b32 is not None:
        v32 = prog.view(b32, (65, 2))
        calls = [ir.callee_name(t["fn"]) for _bi, t in v32.calls()]
        casts = [s["rv"]["kind"] for bi in v32.reachable for s in v32.blocks[bi]["stmts"]
                 if s["s"] == "assign" and s["rv"]["r"] == "cast"]
        binops = [s["rv"]["op"] for bi in v32.reachable for s in v32.blocks[bi]["stmts"]
                  if s["s"] == "assign" and s["rv"]["r"] == "bin"]
        if calls == [F64] and casts == ["FloatToFloat"] and not binops:
            rep.ok("try_from_f32", "%s:%s" % (b32["file"], b32["line"]), "try_from(value as f64)")
        else:
            rep.violation("try_from_f32", "%s:%s" % (b32["file"], b32["line"]), "TryFrom<f32> is not the exact widening "
                          "forward to TryFrom<f64>: calls %s, casts %s, ops %s" % (calls, casts, binops))
    # Uint -> float: (top 64 bits as float) * (a factor derived from the exponent only), one multiplication,
    # no other rounding float operation in the body.  How the power of two is produced (libm exp2, bit pattern,
    # table) is not prescribed -- its value is arithmetic and not decided.
    for k, nm in ((TO_F64, "f64"), (TO_F32, "f32")):
        bb = prog.bodies.get(k)
        if bb is None:
            continue
        vv = prog.view(bb, (65, 2))
        wh = "%s:%s" % (bb["file"], bb["line"])
        msb = [(bi, t) for bi, t in vv.calls() if (ir.callee_name(t["fn"]) or "").endswith("::most_significant_bits")]
        fops = []
        for bi in sorted(vv.reachable):
            for s in vv.blocks[bi]["stmts"]:
                if s["s"] == "assign" and s["rv"]["r"] == "bin" and not s["pl"]["p"] and is_float_local(vv, s["pl"]["l"]):
                    fops.append((s["rv"]["op"], s))
        muls = [s for op, s in fops if op == "Mul"]
        others = sorted(op for op, _s in fops if op in ROUNDING and op != "Mul")
        if len(msb) != 1 or len(muls) != 1 or others:
            rep.violation("to_%s" % nm, wh, "Uint->%s is not (top 64 bits as float) * factor(exponent) with a single rounding "
                          "multiplication: %d most_significant_bits calls, %d multiplications, other rounding ops %s" % (
                              nm, len(msb), len(muls), others))
            continue
        d = msb[0][1]["dest"]["l"]

        def fields_used(op):
            used, seen, st = set(), set(), [op]
            while st:
                o = st.pop()
                if o.get("o") not in ("copy", "move"):
                    continue
                if o["l"] == d and o["p"] and o["p"][0][0] == "f":
                    used.add(o["p"][0][1])
                    continue
                if o["l"] in seen or vv.is_arg(o["l"]):
                    continue
                seen.add(o["l"])
                for bi, si, x in vv.defs.get(o["l"], []):
                    if si == "term":
                        st.extend(x["args"])
                    elif x.get("rv"):
                        st.extend(ir.operands_of_rvalue(x["rv"]))
            return used
        fa, fb = fields_used(muls[0]["rv"]["a"]), fields_used(muls[0]["rv"]["b"])
        if {frozenset(fa), frozenset(fb)} == {frozenset({0}), frozenset({1})}:
            rep.ok("to_%s" % nm, wh, "(bits as %s) * factor(exponent)" % nm)
        else:
            rep.violation("to_%s" % nm, wh, "the multiplication's operands derive from fields %s and %s of most_significant_bits() "
                          "(expected the mantissa on one side and the exponent on the other)" % (sorted(fa), sorted(fb)))
    rep.analysed["build_config"] = config
    return rep
