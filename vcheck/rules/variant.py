"""R-VARIANT: a variant family computes one operation (C01, C02, C05, C07, C13)."""
from .. import ir
from ..engine import Report

U = "crate::Uint<BITS, LIMBS>"
KERNELS = {
    "add": ("crate::algorithms::carrying_add",), "sub": ("crate::algorithms::borrowing_sub",),
    "neg": ("crate::algorithms::borrowing_sub",),
    "mul": ("crate::algorithms::mul::addmul", "crate::algorithms::mul::addmul_n"),
    "shl": ("crate::bits::<impl %s>::overflowing_shl" % U,), "shr": ("crate::bits::<impl %s>::overflowing_shr" % U,),
    "pow": ("crate::algorithms::mul::addmul", "crate::algorithms::mul::addmul_n"),
}
FOREIGN_TO = {"add": ["sub", "mul", "shl", "shr"], "sub": ["add", "mul", "shl", "shr"], "neg": ["add", "mul", "shl", "shr"],
              "mul": ["shl", "shr", "div"], "shl": ["shr", "add", "sub"], "shr": ["shl", "add", "sub"], "pow": ["div"]}
KERNELS["div"] = ("crate::algorithms::div::div",)
SATURATE_TO = {"add": "MAX", "sub": "ZERO", "mul": "MAX", "shl": "MAX", "pow": "MAX"}
FILES = {"add": "src/add.rs", "sub": "src/add.rs", "neg": "src/add.rs", "mul": "src/mul.rs", "shl": "src/bits.rs",
         "shr": "src/bits.rs", "pow": "src/pow.rs"}


def run(ctx, config="all", ops=None):
    rep = Report("R-VARIANT", "for op in {add, sub, neg, mul, shl, shr, pow} every checked_/saturating_/wrapping_/"
                 "wrapping_ variant delegates to the family's overflowing_ root or shares an arithmetic kernel with it (which "
                 "kernel implements the operation is not prescribed); "
                 "saturating_X mentions exactly the right bound (MAX; ZERO for sub); wrapping_to/saturating_to project the "
                 "wrapped (.1) resp. maximum (.2) payload of FromUintError::Overflow; saturating_from maps ValueTooLarge to "
                 "MAX and ValueNegative/NotANumber to ZERO")
    prog = ctx.prog(config)
    cg = ctx.cg(config)
    n = 0
    for op, kern in KERNELS.items():
        if op == "div" or (ops and op not in ops):
            continue
        fam = {}
        for pre in ("checked_", "saturating_", "wrapping_", "overflowing_", ""):
            name = pre + op
            if pre == "" and op != "pow":
                continue
            cands = [b for b in prog.fn_bodies() if b["name"] == name and b["file"] == FILES[op]
                     and (prog.impl_of(b) or {}).get("self_s") == U and not (prog.impl_of(b) or {}).get("trait")]
            if cands:
                fam[pre] = cands[0]
        # the family's root is the overflowing_ form (value and indicator); every other variant either reaches the
        # root or shares an arithmetic kernel (a function of src/algorithms) with it.  WHICH kernel implements the
        # operation is not prescribed: neg may be 0 - x or !x + 1.
        root = fam.get("overflowing_")
        root_clo = cg.closure([root["key"]]) if root else set()
        root_kern = {k for k in root_clo if k in prog.bodies and prog.bodies[k]["file"].startswith("src/algorithms")}
        for pre, b in fam.items():
            name = pre + op
            n += 1
            clo = cg.closure([b["key"]])
            key = b["key"].replace("crate::", "")
            where = "%s:%s" % (b["file"], b["line"])
            if root is None:
                rep.violation(key + "|kernel", where, "the %s family has no overflowing_%s root" % (op, op))
            elif b is root:
                rep.ok(key + "|kernel", where, "family root; kernels: %s" % (
                    ", ".join(sorted(k.split("::")[-1] for k in root_kern)) or "none (computes on limbs itself)"))
            elif root["key"] in clo:
                rep.ok(key + "|kernel", where, "delegates to overflowing_%s" % op)
            else:
                mine = {k for k in clo if k in prog.bodies and prog.bodies[k]["file"].startswith("src/algorithms")}
                common = mine & root_kern
                if common:
                    rep.ok(key + "|kernel", where, "own implementation on the same kernel(s) as overflowing_%s: %s" % (
                        op, ", ".join(sorted(k.split("::")[-1] for k in common))))
                else:
                    rep.violation(key + "|kernel", where, "%s neither delegates to overflowing_%s nor shares a kernel with it "
                                  "(its kernels: %s; the root's: %s): the variants of one operation compute different things" % (
                                      name, op, sorted(k.split("::")[-1] for k in mine) or "none",
                                      sorted(k.split("::")[-1] for k in root_kern) or "none"))
            if pre == "saturating_" and op in SATURATE_TO:
                v = prog.view(b, (65, 2))
                consts = set()
                for bi in v.reachable:
                    for o in ir.operands_of_block(v.blocks[bi]):
                        if o.get("o") == "const" and o.get("c") == "uneval" and o["def"].startswith("crate::Uint::<BITS, LIMBS>::"):
                            consts.add(o["def"].split("::")[-1])
                consts -= {"MASK", "LIMBS", "BITS"}
                if consts == {SATURATE_TO[op]}:
                    rep.ok(key + "|bound", where, "saturates to %s" % SATURATE_TO[op])
                else:
                    rep.violation(key + "|bound", where, "%s saturates to %s (expected %s)" % (name, sorted(consts), SATURATE_TO[op]))
    if not ops or "conv" in ops:
        # wrapping_to / saturating_to payload projection
        for name, fld in (("wrapping_to", 1), ("saturating_to", 2)):
            b = next((x for x in prog.fn_bodies() if x["name"] == name and x["file"] == "src/from.rs"), None)
            if b is None:
                rep.violation(name + "|missing", "src/from.rs", "%s not found" % name)
                continue
            n += 1
            v = prog.view(b, (65, 2))
            used = set()
            for bi in v.reachable:
                for o in ir.operands_of_block(v.blocks[bi]):
                    if o.get("o") in ("copy", "move"):
                        p = o["p"]
                        for i, e in enumerate(p):
                            if isinstance(e, list) and e[0] == "dc" and e[2] == "Overflow" and i + 1 < len(p) and p[i + 1][0] == "f":
                                used.add(p[i + 1][1])
            where = "%s:%s" % (b["file"], b["line"])
            if used == {fld}:
                rep.ok(name + "|payload", where, "returns field .%d of FromUintError::Overflow" % fld)
            else:
                rep.violation(name + "|payload", where, "%s returns field(s) %s of FromUintError::Overflow (expected .%d: %s)" % (
                    name, sorted(used), fld, "the wrapped value" if fld == 1 else "the target's maximum"))
        # saturating_from
        b = next((x for x in prog.fn_bodies() if x["name"] == "saturating_from" and x["file"] == "src/from.rs"), None)
        if b is not None:
            n += 1
            where = "%s:%s" % (b["file"], b["line"])
            # find the switch on the error discriminant and the constant each arm yields -- in the body itself
            # (`match Self::try_from(x) { Err(ValueTooLarge(..)) => ..}`) or in a closure handed to unwrap_or_else /
            # map_err / or_else (`.unwrap_or_else(|e| match e { .. })`)
            arm = {}
            views = [prog.view(b, (65, 2))] + [prog.view(k, (65, 2)) for k in sorted(prog.bodies)
                                               if k.startswith(b["key"] + "::{closure")]
            for v, bi in ((vv, bb) for vv in views for bb in sorted(vv.reachable)):
                t = v.blocks[bi]["term"]
                if t["t"] != "switch":
                    continue
                c = v.chase(t["discr"]) if t["discr"].get("o") in ("copy", "move") and not t["discr"]["p"] else None
                if not (c and c[0] == "rv" and c[1]["r"] == "discr"):
                    continue
                pl = c[1]["pl"]
                in_closure = v.body["kind"] == "Closure"
                err_ty = ir.ty_contains(v.local_ty(pl["l"]), lambda t_: t_.get("k") == "adt" and t_.get("n", "").endswith("ToUintError"))
                if not (any(isinstance(e, list) and e[0] == "dc" and e[2] == "Err" for e in pl["p"]) or (in_closure and err_ty)):
                    continue
                for val, tb in t["targets"] + [[None, t["otherwise"]]]:
                    consts = set()
                    seen, st = set(), [tb]
                    while st and len(seen) < 6:
                        x = st.pop()
                        if x in seen:
                            continue
                        seen.add(x)
                        for o in ir.operands_of_block(v.blocks[x]):
                            if o.get("o") == "const" and o.get("c") == "uneval" and o["def"].startswith("crate::Uint::<BITS, LIMBS>::"):
                                consts.add(o["def"].split("::")[-1])
                        nx = v.succ.get(x, [])
                        if len(nx) == 1:
                            st.append(nx[0])
                    arm[val] = consts
            # variant indices: ValueTooLarge=0, ValueNegative=1, NotANumber=2
            want = {0: {"MAX"}, 1: {"ZERO"}, 2: {"ZERO"}}
            got = {k: arm.get(k, arm.get(None, set())) for k in (0, 1, 2)}
            if got == want:
                rep.ok("saturating_from|mapping", where, "ValueTooLarge->MAX, ValueNegative|NotANumber->ZERO")
            else:
                rep.violation("saturating_from|mapping", where, "saturating_from maps ToUintError variants to %s (expected "
                              "ValueTooLarge->MAX, ValueNegative->ZERO, NotANumber->ZERO)" % got)
    rep.analysed = {"build_config": config, "functions": n}
    if not ops:
        rep.floor("functions", n, 25)
    return rep
