"""Signature / header / operand-kind rules: R-MUTREF, R-WF, R-EQORD, R-MASKKIND."""
import re

from .. import ir
from ..engine import Report

MASK_CONST = "crate::Uint::<BITS, LIMBS>::MASK"


def _is_uintish(t):
    return t.get("k") == "adt" and t["n"] in (ir.UINT, ir.BITS_T)


def _mut_storage(t):
    """type hands out mutable access to raw integer storage"""
    def pred(u):
        if u.get("k") == "ref" and u.get("m"):
            inner = u["t"]
            if inner.get("k") in ("array", "slice") and inner["t"].get("k") == "prim":
                return True
            if inner.get("k") == "prim" and inner["n"] in ir.INT_BITS:
                return True
        if u.get("k") == "ptr" and u.get("m"):
            return True
        return False
    return ir.ty_contains(t, pred)


def mutref(ctx, config="all"):
    rep = Report("R-MUTREF", "limb storage is private and no safe function that takes a Uint/Bits hands out `&mut` "
                 "access to integer storage or a `*mut`: such functions must be `unsafe fn`")
    prog = ctx.prog(config)
    st = prog.structs.get(ir.UINT)
    if not st or len(st["variants"]) != 1 or len(st["variants"][0]["fields"]) != 1:
        rep.violation("uint-struct-shape", "", "Uint is no longer a single-field struct")
    else:
        f = st["variants"][0]["fields"][0]
        if f["pub"] or "Restricted" not in f["vis"]:
            rep.violation("limbs-field-public", "src/lib.rs", "field `%s` of Uint is not private (%s)" % (f["name"], f["vis"]))
        else:
            rep.ok("limbs-field-private", "src/lib.rs", "field %s: %s" % (f["name"], f["vis"]))
    n = n_unsafe = 0
    for b in prog.fn_bodies():
        if b["kind"] == "Closure" or "output" not in b:
            continue
        if not any(ir.ty_contains(t, _is_uintish) for t in b.get("inputs", [])):
            continue
        if not _mut_storage(b["output"]):
            continue
        n += 1
        key = b["key"].replace("crate::", "")
        where = "%s:%s" % (b["file"], b["line"])
        if b.get("unsafe"):
            n_unsafe += 1
            rep.ok(key, where, "returns mutable storage access and is `unsafe fn`")
        elif not (b.get("vis") == "pub" or (prog.impl_of(b) or {}).get("trait")):
            rep.ok(key, where, "returns mutable storage access but is private to the crate (R-CANON covers its users)")
        else:
            rep.violation(key, where, "safe public function %s returns %s: a caller can set bits at positions >= BITS "
                          "without `unsafe`" % (key, b["sig_s"].split("->")[-1].strip()))
    rep.analysed = {"build_config": config, "storage_returning_functions": n, "unsafe": n_unsafe}
    rep.floor("unsafe-storage-accessors (positive control)", n_unsafe, 2)
    return rep


def _concrete_pairs(text):
    return [(int(a), int(b)) for a, b in re.findall(r"Uint<(\d+), (\d+)>", text)] + \
           [(int(a), int(b)) for a, b in re.findall(r"Bits<(\d+), (\d+)>", text)]


POD_TRAITS = ("bytemuck::pod::Pod", "bytemuck::anybitpattern::AnyBitPattern")
MARKER_CTOR_TRAITS = ("bytemuck::zeroable::Zeroable", "bytemuck::pod::Pod", "bytemuck::anybitpattern::AnyBitPattern")


def wf(ctx, config="all", marker_generic=True):
    rep = Report("R-WF", "every concrete (BITS, LIMBS) pair in an alias or impl header satisfies LIMBS == ceil(BITS/64); "
                 "Pod/AnyBitPattern impls additionally BITS == 64*LIMBS; no marker trait that provides a safe "
                 "constructor is implemented generically over (BITS, LIMBS)")
    prog = ctx.prog(config)
    n_pairs = n_pod = 0
    for a in prog.aliases:
        for (bits, limbs) in _concrete_pairs(a["s"]):
            n_pairs += 1
            k = "alias:%s" % a["key"].replace("crate::", "")
            if limbs != (bits + 63) // 64:
                rep.violation(k, "%s:%s" % (a["file"], a["line"]), "alias target %s is ill-formed: LIMBS %d != ceil(%d/64)" % (
                    a["s"], limbs, bits))
            else:
                rep.ok(k, "%s:%s" % (a["file"], a["line"]), a["s"])
    for i in prog.facts["impls"]:
        txt = i["self_s"] + " " + (i.get("trait_s") or "")
        pairs = _concrete_pairs(txt)
        where = "%s:%s" % (i["file"], i["line"])
        tr = i.get("trait") or ""
        for (bits, limbs) in pairs:
            n_pairs += 1
            k = "impl:%s for %s" % (tr.replace("crate::", ""), i["self_s"].replace("crate::", ""))
            if limbs != (bits + 63) // 64:
                rep.violation(k, where, "impl header mentions ill-formed Uint<%d, %d>" % (bits, limbs))
            elif tr in POD_TRAITS:
                n_pod += 1
                if bits != 64 * limbs:
                    rep.violation(k, where, "unsafe impl %s for Uint<%d, %d>: not every bit pattern is canonical "
                                  "(BITS != 64*LIMBS)" % (tr, bits, limbs))
                else:
                    rep.ok(k, where, "all bit patterns canonical")
            else:
                rep.ok(k, where, "")
        if marker_generic and tr in MARKER_CTOR_TRAITS and not pairs and ("Uint<BITS, LIMBS>" in i["self_s"] or "Bits<BITS, LIMBS>" in i["self_s"]):
            k = "marker-generic:%s:%s" % (tr, i["self_s"].replace("crate::", ""))
            rep.violation(k, where, "unsafe impl %s for %s is generic over (BITS, LIMBS): its safe constructor "
                          "(e.g. Zeroable::zeroed()) yields a value of an ill-formed type such as Uint<64, 2> without "
                          "evaluating the LIMBS assertion" % (tr, i["self_s"]))
    rep.analysed = {"build_config": config, "concrete_pairs": n_pairs, "pod_impls": n_pod}
    rep.floor("concrete_pairs", n_pairs, 90)
    rep.floor("pod_impls", n_pod, 16)
    return rep


def eqord(ctx, config="all"):
    rep = Report("R-EQORD", "PartialEq/Eq/Hash of Uint are the derived field-wise impls (one each); Ord::cmp forwards "
                 "(self.limbs, rhs.limbs) in that order to algorithms::cmp; PartialOrd::partial_cmp is Some(Ord::cmp)")
    prog = ctx.prog(config)
    want = {"core::cmp::PartialEq": True, "core::cmp::Eq": True, "core::hash::Hash": True,
            "core::cmp::Ord": False, "core::cmp::PartialOrd": False}
    found = {k: [] for k in want}
    for i in prog.facts["impls"]:
        if i.get("trait") in want and i["self_s"] == "crate::Uint<BITS, LIMBS>":
            found[i["trait"]].append(i)
    for tr, derived in want.items():
        imps = found[tr]
        # PartialEq may be implemented for other Rhs types; only Rhs = Self counts
        imps = [i for i in imps if not i.get("trait_args") or all(a.get("n") == ir.UINT for a in i["trait_args"] if "k" in a)]
        if len(imps) != 1:
            rep.violation("impl-count:%s" % tr, "", "%d impls of %s for Uint (expected exactly one)" % (len(imps), tr))
            continue
        i = imps[0]
        where = "%s:%s" % (i["file"], i["line"])
        if derived and not i["derived"]:
            # a hand-written impl is fine when it does what the derive does: compare / hash the whole limb array
            ok_hw = False
            meth = {"core::cmp::PartialEq": "eq", "core::hash::Hash": "hash", "core::cmp::Eq": None}[tr]
            if meth is None:
                ok_hw = True
            else:
                mk = next((k for k, bb in prog.bodies.items() if bb.get("impl") == i.get("key") and bb["name"] == meth), None)
                if mk is not None:
                    from .facade import Slice
                    v = prog.view(mk)
                    whole = []
                    for bi, t in v.calls():
                        n = ir.callee_name(t["fn"]) or ""
                        if n in prog.bodies and prog.bodies[n]["name"] in ("as_limbs",):
                            continue
                        sl = Slice(v)
                        for a in t["args"]:
                            sl.operand(a)
                        uses_idx = bool(sl.index_locals) or any("index" in f for f in sl.foreign_calls)
                        if n.endswith("::eq") or n.endswith("::hash") or n.endswith("::ne"):
                            whole.append((sl.params, uses_idx))
                    want_params = {1, 2} if meth == "eq" else {1}
                    ok_hw = len(whole) == 1 and (whole[0][0] & {1, 2}) >= (want_params & {1, 2}) and not whole[0][1]
            if ok_hw:
                rep.ok("impl:%s" % tr, where, "hand-written, compares / hashes the whole limb arrays like the derive")
            else:
                rep.violation("not-derived:%s" % tr, where, "%s for Uint is hand-written and is not a comparison / hash of the "
                              "whole limb arrays: equality/hash may disagree with the field-wise comparison the "
                              "canonical-form invariant is designed for" % tr)
        else:
            rep.ok("impl:%s" % tr, where, "derived" if derived else "hand-written (checked below)")
    # Ord::cmp
    cmpk = "crate::cmp::<impl core::cmp::Ord for crate::Uint<BITS, LIMBS>>::cmp"
    b = prog.bodies.get(cmpk)
    if b is None:
        rep.violation("ord-cmp-missing", "", "Ord::cmp for Uint not found")
    else:
        v = prog.view(b)
        calls = [(bi, t) for bi, t in v.calls() if (ir.callee_name(t["fn"]) or "") == "crate::algorithms::cmp"]
        where = "%s:%s" % (b["file"], b["line"])
        if len(calls) == 0:
            # an own comparison loop instead of the shared kernel: which limb decides is value-level and not decided;
            # what IS required is that both operands' limbs are read (no constant / one-sided order)
            from .facade import Slice
            sl = Slice(v)
            sl.local(0)
            if {1, 2} <= sl.params:
                rep.ok("ord-cmp-delegate", where, "hand-written comparison reading both operands (order of limbs not decided)")
            else:
                rep.violation("ord-cmp-delegate", where, "Ord::cmp neither calls algorithms::cmp nor reads both operands")
        elif len(calls) != 1:
            rep.violation("ord-cmp-delegate", where, "Ord::cmp contains %d calls to algorithms::cmp" % len(calls))
        else:
            bi, t = calls[0]
            roots = []
            for a in t["args"]:
                r = None
                op = a
                for _ in range(8):
                    if op.get("o") not in ("copy", "move"):
                        break
                    if v.is_arg(op["l"]):
                        r = op["l"]
                        break
                    d = v.single_def(op["l"])
                    if d is None or d[1] == "term":
                        # as_limbs(&self) style accessor
                        if d is not None and d[1] == "term" and d[2]["args"]:
                            op = d[2]["args"][0]
                            continue
                        break
                    rv = d[2]["rv"]
                    if rv["r"] == "use":
                        op = rv["a"]
                    elif rv["r"] == "ref":
                        op = {"o": "copy", "l": rv["pl"]["l"], "p": []}
                    elif rv["r"] == "cast":
                        op = rv["a"]
                    else:
                        break
                roots.append(r)
            if roots == [1, 2]:
                rep.ok("ord-cmp-delegate", where, "algorithms::cmp(self.limbs, rhs.limbs)")
            else:
                rep.violation("ord-cmp-delegate", where, "arguments of algorithms::cmp derive from parameters %s, "
                              "expected [self, rhs]: the order of every unequal pair would be wrong" % roots)
    pk = "crate::cmp::<impl core::cmp::PartialOrd for crate::Uint<BITS, LIMBS>>::partial_cmp"
    b = prog.bodies.get(pk)
    if b is None:
        rep.violation("partial-cmp-missing", "", "PartialOrd::partial_cmp for Uint not found")
    else:
        v = prog.view(b)
        names = [ir.callee_name(t["fn"]) for _bi, t in v.calls()]
        where = "%s:%s" % (b["file"], b["line"])
        some = any(s["s"] == "assign" and s["rv"]["r"] == "agg" and s["rv"].get("variant") == "Some"
                   for blk in b["blocks"] for s in blk["stmts"])
        none = any(s["s"] == "assign" and s["rv"]["r"] == "agg" and s["rv"].get("variant") == "None"
                   for blk in b["blocks"] for s in blk["stmts"])
        if names == [cmpk] and some and not none:
            rep.ok("partial-cmp", where, "Some(Ord::cmp(self, other))")
        else:
            rep.violation("partial-cmp", where, "partial_cmp is not Some(Ord::cmp(..)): calls %s, builds None: %s" % (names, none))
    rep.analysed = {"build_config": config}
    return rep


ALLOWED_MASK_BINOPS = {"BitAnd", "Eq", "Ne", "Lt", "Le", "Gt", "Ge"}
ALLOWED_MASK_CALLEES = ("leading_zeros", "count_ones", "RangeInclusive::<Idx>::new", "trailing_zeros", "fmt", "new_display")


def maskkind(ctx, config="all"):
    rep = Report("R-MASKKIND", "Uint::MASK is used as a bit mask only: operand of `&`, of a comparison, of `!`, of "
                 "leading_zeros/count_ones, or upper bound of a range sampler -- never of %, /, +, -, *, <<, >>")
    prog = ctx.prog(config)
    n = 0
    for b in prog.facts["bodies"]:
        if b["key"] in (MASK_CONST, "crate::Uint::<BITS, LIMBS>::SHOULD_MASK", "crate::mask"):
            continue
        v = None
        for bi, blk in enumerate(b["blocks"]):
            if blk.get("cleanup"):
                continue

            def is_mask(op, depth=6):
                nonlocal v
                while depth > 0:
                    depth -= 1
                    if op.get("o") == "const":
                        return op.get("c") == "uneval" and op["def"] == MASK_CONST
                    if op.get("o") not in ("copy", "move") or op["p"]:
                        return False
                    if v is None:
                        v = prog.view(b)
                    d = v.single_def(op["l"])
                    if d is None or d[1] == "term":
                        return False
                    rv = d[2]["rv"]
                    if rv["r"] == "use":
                        op = rv["a"]
                        continue
                    if rv["r"] == "cast":
                        op = rv["a"]
                        continue
                    return False
                return False
            for s in blk["stmts"]:
                if s["s"] != "assign":
                    continue
                rv = s["rv"]
                if rv["r"] == "bin" and (is_mask(rv["a"]) or is_mask(rv["b"])):
                    n += 1
                    key = "%s|%s" % (b["key"].replace("crate::", ""), rv["op"])
                    where = "%s:%s" % (b["file"], s.get("line"))
                    if rv["op"].replace("Unchecked", "") in ALLOWED_MASK_BINOPS:
                        rep.ok(key, where, "")
                    else:
                        rep.violation(key, where, "MASK (= 2^(BITS mod 64) - 1, a bit mask) is an operand of `%s`: reducing "
                                      "modulo / adding the mask is not reduction modulo 2^BITS" % rv["op"])
                elif rv["r"] == "un" and is_mask(rv["a"]):
                    n += 1
                    rep.ok("%s|%s" % (b["key"].replace("crate::", ""), rv["op"]), "%s:%s" % (b["file"], s.get("line")), "")
            t = blk["term"]
            if t["t"] == "call":
                for a in t["args"]:
                    if is_mask(a):
                        n += 1
                        name = ir.callee_name(t["fn"]) or "?"
                        key = "%s|call:%s" % (b["key"].replace("crate::", ""), name.split("::")[-1])
                        where = "%s:%s" % (b["file"], t.get("line"))
                        if any(x in name for x in ALLOWED_MASK_CALLEES):
                            rep.ok(key, where, name)
                        else:
                            rep.violation(key, where, "MASK passed to %s (not a mask-kind use)" % name)
    rep.analysed = {"build_config": config, "mask_uses": n}
    rep.floor("mask_uses", n, 15)
    return rep
