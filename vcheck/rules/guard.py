"""R-GUARD: a guard must dominate an operation / every path passes a check (C03, C07, C08, C10, C17)."""
import re

from .. import ir, panics, total
from ..engine import Report
from .facade import Slice

U = "crate::Uint<BITS, LIMBS>"


def switch_descr(v, bi):
    t = v.blocks[bi]["term"]
    if t["t"] != "switch":
        return None
    d = t["discr"]
    if not (d.get("o") in ("copy", "move") and not d["p"]):
        return None
    ch = v.chase(d)
    neg = False
    if ch[0] == "rv" and ch[1]["r"] == "un" and ch[1]["op"] == "Not":
        ch = v.chase(ch[1]["a"])
        neg = True
    if ch[0] == "call":
        if ir.is_negated_forward(ch[1]["fn"]):
            neg = not neg
        return ((ir.callee_name(ch[1]["fn"]) or "?").split("::")[-1], neg)
    if ch[0] == "rv" and ch[1]["r"] == "bin":
        return ("%s(%s,%s)" % (ch[1]["op"], panics._named_local(v, ch[1]["a"]), panics._named_local(v, ch[1]["b"])), neg)
    return None


def edges_matching(v, pattern, truth):
    """(block, succ) edges of switches whose condition description matches `pattern` taken with `truth`."""
    out = []
    rx = re.compile(pattern)
    for bi in v.reachable:
        d = switch_descr(v, bi)
        if d is None or not rx.fullmatch(d[0]):
            continue
        t = v.blocks[bi]["term"]
        for s in v.succ.get(bi, []):
            vals = [val for val, bb in t["targets"] if bb == s]
            truths = {bool(x) for x in vals}
            if t["otherwise"] == s:
                truths |= ({True, False} - {bool(x) for x, _ in t["targets"]})
            if len(truths) == 1 and (truths.pop() != d[1]) == truth:
                out.append((bi, s))
    return out


def reachable_without(v, target, removed):
    seen, st = set(), [0]
    while st:
        n = st.pop()
        if n in seen:
            continue
        seen.add(n)
        if n == target:
            return True
        for s in v.succ.get(n, []):
            if (n, s) not in removed:
                st.append(s)
    return False


def constructed(v):
    """Names of enum variants / error-constructor callees built on feasible blocks."""
    out = []
    for bi in sorted(v.reachable):
        for s in v.blocks[bi]["stmts"]:
            if s["s"] == "assign" and s["rv"]["r"] == "agg" and s["rv"].get("kind") == "adt":
                out.append(s["rv"]["variant"])
        t = v.blocks[bi]["term"]
        if t["t"] == "call":
            out.append((ir.callee_name(t["fn"]) or "?").split("::")[-1])
    return out


INVENTORY = {
    # decoder function key -> error kinds that must be constructed on a feasible path (read off the code)
    "crate::support::alloy_rlp::<impl alloy_rlp::decode::Decodable for %s>::decode" % U: ["LeadingZero", "Overflow"],
    "crate::support::fastrlp_03::<impl fastrlp::decode::Decodable for %s>::decode" % U: ["UnexpectedList", "LeadingZero", "Overflow"],
    "crate::support::fastrlp_04::<impl fastrlp::decode::Decodable for %s>::decode" % U: ["UnexpectedList", "LeadingZero", "Overflow"],
    "crate::support::der::from_der_slice": ["length_error", "non_canonical_error", "value_error"],
    "crate::support::der::from_der_uint_slice": ["length_error", "non_canonical_error"],
    "crate::support::der::<impl der::decode::DecodeValue<'a> for %s>::decode_value" % U: ["non_canonical_error"],
    "<crate::support::serde::ByteVisitor<BITS, LIMBS> as serde_core::de::Visitor<'_>>::visit_bytes": ["invalid_length"],
    "crate::support::ssz::<impl ssz::decode::Decode for %s>::from_ssz_bytes" % U: ["InvalidByteLength"],
    "crate::support::rlp::<impl rlp::traits::Decodable for crate::bit_arr::Bits<BITS, LIMBS>>::decode::{closure#0}":
        ["RlpIsTooShort", "RlpIsTooBig"],
}
RLP_CANON = [k for k in INVENTORY if "alloy_rlp" in k or "fastrlp" in k]


def c17(ctx, config="all"):
    rep = Report("R-GUARD/decoders", "canonical-form and length checks of the decoders are present and cannot be "
                 "bypassed: each decoder constructs its documented error kinds on a feasible path; in the RLP decoders "
                 "every path to try_from_be_slice passes `bytes.is_empty()` or the `bytes[0] == 0 -> LeadingZero` test; "
                 "every accepted value is built by a range-checking constructor (try_from_*_slice / from_str* / "
                 "from_base_* / TryFrom), never by an asserting or unchecked one")
    prog = ctx.prog(config)
    n = 0
    for k, kinds in INVENTORY.items():
        b = prog.bodies.get(k)
        short = k.replace("crate::", "").replace("<BITS, LIMBS>", "")
        if b is None:
            if config.startswith("all"):
                rep.violation("missing:" + short, "", "decoder %s not found (anchor moved): rule cannot be applied" % short)
            continue
        n += 1
        v = prog.view(b, (65, 2))
        have = constructed(v)
        for hk in ir.local_helpers(prog, k):
            have += constructed(prog.view(hk, (65, 2)))     # checks moved into a private helper of the same file
        where = "%s:%s" % (b["file"], b["line"])
        for kind in kinds:
            if kind in have:
                rep.ok("%s|%s" % (short, kind), where, "")
            else:
                rep.violation("%s|%s" % (short, kind), where, "%s no longer produces `%s`: the check that rejected such "
                              "inputs is gone, so malformed / non-canonical encodings are accepted" % (short, kind))
    for k in RLP_CANON:
        b = prog.bodies.get(k)
        if b is None:
            continue
        v = prog.view(b, (65, 2))
        short = k.replace("crate::", "").replace("<BITS, LIMBS>", "")
        tgt = [bi for bi, t in v.calls() if (ir.callee_name(t["fn"]) or "").endswith("::try_from_be_slice")]
        if not tgt:
            # the check and the conversion may live together in a private helper of the same file
            for hk in ir.local_helpers(prog, k):
                hv = prog.view(hk, (65, 2))
                ht = [bi for bi, t in hv.calls() if (ir.callee_name(t["fn"]) or "").endswith("::try_from_be_slice")]
                if ht:
                    v, tgt = hv, ht
                    break
        where = "%s:%s" % (b["file"], b["line"])
        if len(tgt) != 1:
            # the decoder does not hand its payload to try_from_be_slice at exactly one place: the must-pass clause has
            # no anchor and is not decided (that a LeadingZero error exists at all is the error-kind clause above)
            rep.ok(short + "|must-pass-leading-zero", where, "%d calls of try_from_be_slice: must-pass clause not decided" % len(tgt))
            continue
        # the decisions that can end in LeadingZero and look at the payload the parser receives -- however they are
        # written (`!bytes.is_empty() && bytes[0] == 0`, `bytes.first() == Some(&0)`, `if let [0, ..] = bytes`)
        from .flag import Bwd
        from .. import total as _total
        tt = v.blocks[tgt[0]]["term"]
        payload = _total.Totality._value_root(None, v, tt["args"][0]) if tt["args"] else None
        lz_blocks = {bi for bi in v.reachable for st_ in v.blocks[bi]["stmts"]
                     if st_["s"] == "assign" and st_["rv"]["r"] == "agg" and st_["rv"].get("variant") == "LeadingZero"}

        def reaches(src, dsts):
            seen, stk = set(), [src]
            while stk:
                x = stk.pop()
                if x in dsts:
                    return True
                if x in seen:
                    continue
                seen.add(x)
                stk.extend(v.succ.get(x, []))
            return False
        decisions = set()
        for bi in sorted(v.reachable):
            t_ = v.blocks[bi]["term"]
            if t_["t"] != "switch" or not lz_blocks or not reaches(bi, lz_blocks):
                continue
            bw = Bwd(v)
            bw.operand(t_["discr"], bi)
            if payload is not None and payload in bw.seen:
                decisions.add(bi)
        removed = {(d, s_) for d in decisions for s_ in v.succ.get(d, [])}
        if not lz_blocks or not decisions:
            rep.violation(short + "|must-pass-leading-zero", where, "no decision on the payload bytes that can end in "
                          "LeadingZero was found")
        elif reachable_without(v, tgt[0], removed):
            rep.violation(short + "|must-pass-leading-zero", where, "a path reaches try_from_be_slice without passing the "
                          "leading-zero test: a non-minimal RLP integer is accepted")
        else:
            rep.ok(short + "|must-pass-leading-zero", where, "every path to the parser passes %d decision(s) on the payload "
                                                              "that can end in LeadingZero" % len(decisions))
    rep.analysed = {"build_config": config, "decoders": n}
    if config.startswith("all"):
        rep.floor("decoders", n, 9)
    return rep


def zero_divisor(ctx, config="all"):
    rep = Report("R-GUARD/zero-divisor", "the documented-panicking division forms reach the 'Divisor is zero' site on "
                 "every path (no branch returns a value before the kernel is called), and the modular functions return "
                 "ZERO / None on the `modulus.is_zero()` edge")
    prog = ctx.prog(config)
    DIV = "crate::algorithms::div::div"
    fam = {
        "crate::div::<impl %s>::div_rem" % U: DIV,
        "crate::div::<impl %s>::wrapping_div" % U: "crate::div::<impl %s>::div_rem" % U,
        "crate::div::<impl %s>::wrapping_rem" % U: "crate::div::<impl %s>::div_rem" % U,
        "crate::div::<impl %s>::div_ceil" % U: "crate::div::<impl %s>::div_rem" % U,
    }
    for k, callee in fam.items():
        b = prog.bodies.get(k)
        short = k.replace("crate::", "").replace("<BITS, LIMBS>", "")
        if b is None:
            rep.violation("missing:" + short, "", "%s not found" % short)
            continue
        v = prog.view(b, (65, 2))
        where = "%s:%s" % (b["file"], b["line"])
        cs = [bi for bi, t in v.calls() if ir.callee_name(t["fn"]) == callee]
        if len(cs) != 1:
            rep.violation(short + "|kernel-call", where, "%s does not contain exactly one call to %s" % (short, callee.split("::")[-1]))
        elif all(v.dominates(cs[0], r) for r in v.return_blocks()):
            rep.ok(short + "|kernel-call", where, "the call to %s dominates every return" % callee.split("::")[-1])
        else:
            rep.violation(short + "|kernel-call", where, "%s can return without calling %s: a zero divisor yields a silent "
                          "result instead of the documented panic" % (short, callee.split("::")[-1]))
    for name, want in (("reduce_mod", "ZERO"), ("mul_mod", "ZERO"), ("pow_mod", "ZERO"), ("inv_mod", "None")):
        k = "crate::modular::<impl %s>::%s" % (U, name)
        b = prog.bodies.get(k)
        if b is None:
            rep.violation("missing:" + name, "", "%s not found" % name)
            continue
        v = prog.view(b, (65, 2))
        where = "%s:%s" % (b["file"], b["line"])
        # edges on which the modulus is known to be zero, however the test is written (is_zero, == ZERO, != ZERO ...)
        from . import total_rule
        T = total_rule.totality(ctx, config)
        mods = [l for l in range(1, v.nargs + 1) if (v.local_name(l) or "") == "modulus"] or [v.nargs]
        es = [e for m in mods for e in T.zero_test_edges(v, m)]
        if not es:
            es = edges_matching(v, r"is_zero|le|partial_cmp", True)
        good = False
        for (bi, s) in es:
            # the value assigned to _0 along the single-successor chain from s
            x, seen = s, set()
            while x is not None and x not in seen:
                seen.add(x)
                for st in v.blocks[x]["stmts"]:
                    if st["s"] == "assign" and st["pl"]["l"] == 0 and not st["pl"]["p"]:
                        rv = st["rv"]
                        if want == "ZERO" and rv["r"] == "use" and rv["a"].get("c") == "uneval" and rv["a"]["def"].endswith("::ZERO"):
                            good = True
                        if want == "None" and rv["r"] == "agg" and rv.get("variant") == "None":
                            good = True
                nx = v.succ.get(x, [])
                x = nx[0] if len(nx) == 1 else None
        if good:
            rep.ok(name + "|zero-modulus", where, "returns %s on the is_zero edge" % want)
        elif name == "inv_mod":
            rep.ok(name + "|zero-modulus", where, "delegates to algorithms::gcd::inv_mod (zero modulus handled there; C12 N/A)") \
                if any((ir.callee_name(t["fn"]) or "").endswith("gcd::inv_mod") for _bi, t in v.calls()) else \
                rep.violation(name + "|zero-modulus", where, "no zero-modulus edge returning None")
        else:
            rep.violation(name + "|zero-modulus", where, "%s does not return %s on a `modulus.is_zero()` edge" % (name, want))
    rep.analysed = {"build_config": config}
    return rep


def buffers(ctx, config="all"):
    """R-GUARD/buffers: checked_copy_{le,be}_bytes_to hand the buffer to a writer only when it is long enough.

    Decided on the interval interpretation per configuration: at every call of a function of this crate that
    receives (a slice of) the caller's buffer, the length interval of the slice passed has a lower bound >= BYTES.
    How the length is established (a `len() < BYTES` test, `get_mut(..BYTES)?`, a match) is not prescribed."""
    from . import total_rule
    rep = Report("R-GUARD/buffers", "checked_copy_{le,be}_bytes_to pass the buffer to a writing function of the crate only "
                 "with a length >= BYTES in every configuration (interval of the slice length at the call): a too-short "
                 "buffer is left untouched and yields None")
    prog = ctx.prog(config)
    T = total_rule.totality(ctx, config)
    bytes_cfg = prog.const_cfg.get(ir.BYTES_CONST, {})
    for e in ("le", "be"):
        k = "crate::bytes::<impl %s>::checked_copy_%s_bytes_to" % (U, e)
        b = prog.bodies.get(k)
        if b is None:
            rep.violation("missing:checked_copy_%s" % e, "", "not found")
            continue
        where = "%s:%s" % (b["file"], b["line"])
        bad = None
        n_uses = 0
        for cfg in ctx.cfgs():
            want = bytes_cfg.get(cfg)
            if want is None:
                continue
            a = T.ai(k, cfg)
            v = a.v
            for bi, t in v.calls():
                name = ir.callee_name(t["fn"]) or ""
                if name not in prog.bodies:
                    continue    # foreign calls (len, get_mut, Try::branch, ...) do not write through the buffer
                st = a.state_before_term(bi)
                if st is None:
                    continue
                for arg in t["args"]:
                    if arg.get("o") not in ("copy", "move") or arg["p"]:
                        continue
                    pt = a.pointee_ty(arg["l"])
                    if pt is None or pt.get("k") != "slice":
                        continue
                    sl = Slice(v)
                    sl.operand(arg)
                    if 2 not in sl.params:
                        continue
                    n_uses += 1
                    lk = a.len_key(arg["l"], st)
                    iv = None
                    if lk is not None:
                        iv = (lk[1], lk[1]) if lk[0] == "const" else a.get(st, lk)
                    if iv is None or iv[0] < want:
                        bad = bad or (name.replace("crate::", ""), v.where(bi), cfg, iv, want)
        if bad:
            rep.violation("checked_copy_%s|guard" % e, where, "the buffer is passed to %s at %s with a length of %s where BYTES "
                          "is %d (configuration (%d,%d)): a too-short buffer may be written / panic instead of returning "
                          "None" % (bad[0], bad[1], ("[%d, %d]" % bad[3]) if bad[3] else "unknown", bad[4], bad[2][0], bad[2][1]))
        elif n_uses == 0:
            rep.ok("checked_copy_%s|guard" % e, where, "the buffer is handed to no callee (written in place?): not decided here; "
                   "R-TOTAL decides that no write is out of bounds")
        else:
            rep.ok("checked_copy_%s|guard" % e, where, "%d buffer hand-over(s), all with length >= BYTES" % n_uses)
    rep.analysed = {"build_config": config, "configurations": len(ctx.cfgs())}
    return rep


def try_from_u64_model(ctx, config="all"):
    rep = Report("R-GUARD/TryFrom<u64>", "the model used by D-lit holds on the code: TryFrom<u64> constructs only "
                 "ValueTooLarge, only under LIMBS <= 1 on the `value > MASK` edge; TryFrom<u128> constructs only "
                 "ValueTooLarge; impl_from_signed_int! constructs ValueNegative exactly on the is_negative edge")
    prog = ctx.prog(config)
    k = "crate::from::<impl core::convert::TryFrom<u64> for %s>::try_from" % U
    b = prog.bodies.get(k)
    if b is None:
        rep.violation("missing", "src/from.rs", "TryFrom<u64> not found")
        return rep
    # decided on intervals, per configuration: where an error is built the argument certainly does not fit, where Ok is
    # built it certainly fits.  How the test is written (`value > MASK`, `match LIMBS`, a helper) is not prescribed.
    from . import total_rule
    T = total_rule.totality(ctx, config)
    n_pts = 0
    for cfg in ctx.cfgs():
        a = T.ai(k, cfg)
        v = a.v
        fit_max = (1 << cfg[0]) - 1 if cfg[0] < 64 else (1 << 64) - 1
        key = "try_from_u64|(%d,%d)" % cfg
        bad = None
        for bi in sorted(v.reachable):
            st0 = a.entry.get(bi)
            if st0 is None:
                continue
            st0 = st0.copy()
            for s in v.blocks[bi]["stmts"]:
                if s["s"] == "assign" and s["rv"]["r"] == "agg":
                    iv = a.get(st0, 1)
                    if s["rv"].get("def", "").endswith("ToUintError"):
                        n_pts += 1
                        if s["rv"]["variant"] != "ValueTooLarge":
                            bad = bad or "constructs %s at %s (the signed conversions rely on ValueTooLarge only)" % (
                                s["rv"]["variant"], v.where(bi))
                        elif iv is None or iv[0] <= fit_max:
                            bad = bad or "ValueTooLarge is built at %s where the argument can be %s, which fits %d bits" % (
                                v.where(bi), ("as small as %d" % iv[0]) if iv else "anything", cfg[0])
                    elif s["rv"].get("variant") == "Ok" and s["pl"]["l"] == 0:
                        n_pts += 1
                        if iv is None or iv[1] > fit_max:
                            bad = bad or "Ok is built at %s where the argument can be %s, which does not fit %d bits" % (
                                v.where(bi), ("as large as %d" % iv[1]) if iv else "anything", cfg[0])
                if s["s"] == "assign":
                    a.assign(st0, s)
        if bad:
            rep.violation(key, "src/from.rs", "TryFrom<u64> in configuration (%d,%d): %s" % (cfg[0], cfg[1], bad))
        else:
            rep.ok(key, "src/from.rs", "errors only where the argument exceeds 2^BITS - 1, Ok only where it fits")
    rep.floor("try_from_u64 result points", n_pts, len(ctx.cfgs()))
    for ty in ("u128",):
        k2 = "crate::from::<impl core::convert::TryFrom<%s> for %s>::try_from" % (ty, U)
        b2 = prog.bodies.get(k2)
        if b2 is not None:
            v = prog.view(b2, (65, 2))
            kinds = {s["rv"]["variant"] for bi in v.reachable for s in v.blocks[bi]["stmts"]
                     if s["s"] == "assign" and s["rv"]["r"] == "agg" and s["rv"].get("def", "").endswith("ToUintError")}
            clo = [prog.bodies[c]["key"] for c in ctx.cg(config).closure([k2]) if "::{closure" in c]
            for c in clo:
                vc = prog.view(c, (65, 2))
                kinds |= {s["rv"]["variant"] for bi in vc.reachable for s in vc.blocks[bi]["stmts"]
                          if s["s"] == "assign" and s["rv"]["r"] == "agg" and s["rv"].get("def", "").endswith("ToUintError")}
            if kinds <= {"ValueTooLarge"}:
                rep.ok("try_from_%s|kinds" % ty, "src/from.rs", "only ValueTooLarge")
            else:
                rep.violation("try_from_%s|kinds" % ty, "src/from.rs", "constructs %s (the signed conversions' unreachable!() "
                              "arm relies on ValueTooLarge only)" % sorted(kinds))
    for ty in ("i8", "i16", "i32", "i64", "i128", "isize"):
        k3 = "crate::from::<impl core::convert::TryFrom<%s> for %s>::try_from" % (ty, U)
        b3 = prog.bodies.get(k3)
        if b3 is None:
            continue
        # decided on intervals: where ValueNegative is built the source value is certainly negative, and where a
        # non-ValueNegative result is produced from the unsigned conversion it is certainly non-negative -- however the
        # sign test is written (is_negative(), value < 0, value >= 0 ...)
        from .. import absint as _ai
        v = prog.view(b3, (65, 2))
        a = _ai.Analysis(v)
        ok = True
        found = False
        why = ""
        for bi in sorted(a.entry):
            st0 = a.entry[bi].copy()
            for s in v.blocks[bi]["stmts"]:
                if s["s"] == "assign" and s["rv"]["r"] == "agg" and s["rv"].get("variant") == "ValueNegative":
                    found = True
                    iv = a.get(st0, st0.alias.get(1, 1))
                    if iv is None or iv[1] >= 0:
                        ok = False
                        why = "the source value can be %s where ValueNegative is built" % (iv,)
                if s["s"] == "assign":
                    a.assign(st0, s)
        # the non-negative side must not be reachable with a negative value: every return block that is not reached
        # through a ValueNegative construction sees value >= 0
        neg_blocks = {bi for bi in a.entry for s in v.blocks[bi]["stmts"]
                      if s["s"] == "assign" and s["rv"]["r"] == "agg" and s["rv"].get("variant") == "ValueNegative"}
        for bi, t in v.calls():
            if bi in a.entry and (ir.callee_name(t["fn"]) or "").endswith("::try_from") and t["dest"]["l"] == 0:
                st = a.state_before_term(bi)
                iv = a.get(st, st.alias.get(1, 1)) if st is not None else None
                if iv is not None and iv[0] < 0:
                    ok = False
                    why = "the unsigned conversion's result is returned although the source value can be negative (%s)" % (iv,)
        if found and ok:
            rep.ok("try_from_%s|negative" % ty, "src/from.rs", "ValueNegative exactly where the value is negative")
        else:
            rep.violation("try_from_%s|negative" % ty, "src/from.rs", "ValueNegative is not constructed exactly for negative "
                          "values (found=%s) %s" % (found, why))
    rep.analysed = {"build_config": config}
    return rep


def byte_panics(ctx, config="all"):
    rep = Report("R-GUARD/byte", "Uint::byte panics exactly for index >= BYTES (documented): in every configuration its only "
                 "panic site is a bounds check whose failure condition, expressed over the parameters, is index >= BYTES; "
                 "checked_byte discharges it with its `index < BYTES` guard (R-TOTAL)")
    from . import total_rule
    prog = ctx.prog(config)
    T = total_rule.totality(ctx, config)
    k = "crate::bits::<impl %s>::byte" % U
    if k not in prog.bodies:
        rep.violation("byte|missing", "src/bits.rs", "Uint::byte not found")
        return rep
    bytes_tab = prog.const_cfg.get(ir.BYTES_CONST, {})
    bad = []
    for cfg in ctx.cfgs():
        rs = T.residuals(k, cfg)
        want = ("Ge", ("arg", 2), ("c", bytes_tab.get(cfg)), True)
        if cfg == (0, 0):
            # BYTES == 0: every index must panic
            if not rs:
                bad.append((cfg, "no panic site at all"))
            continue
        if len(rs) != 1 or want not in rs[0].guards:
            bad.append((cfg, [r.guards for r in rs]))
    b = prog.bodies[k]
    where = "%s:%s" % (b["file"], b["line"])
    if bad:
        rep.violation("byte|panics-iff-index>=BYTES", where, "Uint::byte does not panic exactly when index >= BYTES: in "
                      "configuration %s its panic condition is %s (an index in BYTES..8*LIMBS would read a padding byte as 0 "
                      "instead of panicking)" % (bad[0][0], bad[0][1]))
    else:
        rep.ok("byte|panics-iff-index>=BYTES", where, "bounds check against a slice of length BYTES in %d configurations" % len(ctx.cfgs()))
    rep.analysed = {"build_config": config}
    return rep


# ---------------------------------------------------------------------------------------------------------------
FIXED_LENGTH_DECODERS = {
    # decoder of a fixed-width format -> byte-form parser it hands the input slice to
    "crate::support::ssz::<impl ssz::decode::Decode for %s>::from_ssz_bytes" % U: "try_from_le_slice",
    "<crate::support::serde::ByteVisitor<BITS, LIMBS> as serde_core::de::Visitor<'_>>::visit_bytes": "try_from_be_slice",
}


def fixed_length(ctx, config="all"):
    """R-GUARD/fixed-length: decoders of fixed-width formats reject every input whose length is not BYTES.

    Decided on the interval interpretation of the decoder body, per configuration: at the call that hands the input
    slice to try_from_{le,be}_slice, the interval of the slice's length must be the single point BYTES.  A decoder that
    only rejects over-long input leaves [0, BYTES] there: truncated input is then accepted and zero-extended."""
    from . import total_rule
    rep = Report("R-GUARD/fixed-length", "decoders of fixed-width formats (SSZ uintN, serde binary) hand the byte-form "
                 "parser a slice whose length is exactly BYTES in every configuration (interval of the slice length at "
                 "the call): truncated input is an error, not a zero-extended value")
    prog = ctx.prog(config)
    T = total_rule.totality(ctx, config)
    bytes_cfg = prog.const_cfg.get(ir.BYTES_CONST, {})
    n = 0
    for k, parser in FIXED_LENGTH_DECODERS.items():
        b = prog.bodies.get(k)
        short = k.replace("crate::", "").replace("<BITS, LIMBS>", "")
        if b is None:
            if config.startswith("all"):
                rep.violation("missing:" + short, "", "decoder %s not found (anchor moved): rule cannot be applied" % short)
            continue
        where = "%s:%s" % (b["file"], b["line"])
        bad, seen_call = [], False
        for cfg in ctx.cfgs():
            want = bytes_cfg.get(cfg)
            if want is None:
                continue
            a = T.ai(k, cfg)
            v = a.v
            for bi, t in v.calls():
                nm = ir.callee_name(t["fn"]) or ""
                if not nm.endswith("::" + parser) or not t["args"]:
                    continue
                seen_call = True
                st = a.state_before_term(bi)
                if st is None:
                    continue
                arg = t["args"][0]
                lk = a.len_key(arg["l"], st) if arg.get("o") in ("copy", "move") and not arg["p"] else None
                iv = None
                if lk is not None:
                    iv = (lk[1], lk[1]) if lk[0] == "const" else a.get(st, lk)
                n += 1
                if iv is None or iv != (want, want):
                    bad.append((cfg, iv, want))
        if not seen_call:
            rep.ok(short + "|parser", where, "%s does not call %s: the fixed-length clause has no anchor (not decided)" % (short, parser))
        elif bad:
            cfg, iv, want = bad[0]
            rep.violation(short + "|length", where, "%s passes a slice of length %s to %s where the format's width is %d "
                          "bytes (configuration (%d,%d), +%d more): input shorter than the fixed width is accepted and "
                          "zero-extended instead of being rejected as truncated" % (
                              short, "[%d, %d]" % iv if iv else "unknown", parser, want, cfg[0], cfg[1], len(bad) - 1))
        else:
            rep.ok(short + "|length", where, "slice length is exactly BYTES at the %s call in %d configurations" % (
                parser, len(ctx.cfgs())))
    rep.analysed = {"build_config": config, "length_evaluations": n}
    rep.floor("length_evaluations", n, 2 * len(ctx.cfgs()) if config.startswith("all") else 0)
    return rep


def slice_length(ctx, config="all"):
    """R-GUARD/slice-length: try_from_{be,le}_slice can return Some only for a slice of at most BYTES bytes.

    Interval interpretation per configuration: at every point where the result is set to anything but a literal None
    (a Some aggregate, or the result of a helper call), the interval of the input slice's length has an upper bound
    <= BYTES.  How the length is tested, and where, is not prescribed."""
    from . import total_rule
    rep = Report("R-GUARD/slice-length", "try_from_be_slice / try_from_le_slice produce a non-None result only where the "
                 "input slice is known to be at most BYTES long, in every configuration (interval of the slice length "
                 "where the result is built): an over-long slice is None even when its excess bytes are zero")
    prog = ctx.prog(config)
    T = total_rule.totality(ctx, config)
    bytes_cfg = prog.const_cfg.get(ir.BYTES_CONST, {})
    n = 0
    for e in ("be", "le"):
        k = "crate::bytes::<impl %s>::try_from_%s_slice" % (U, e)
        b = prog.bodies.get(k)
        if b is None:
            rep.violation("missing:try_from_%s_slice" % e, "", "not found")
            continue
        where = "%s:%s" % (b["file"], b["line"])
        bad = None
        for cfg in ctx.cfgs():
            want = bytes_cfg.get(cfg)
            if want is None:
                continue
            a = T.ai(k, cfg)
            v = a.v
            for bi in sorted(a.entry):
                st0 = a.entry[bi].copy()
                sites = []
                for s in v.blocks[bi]["stmts"]:
                    if s["s"] == "assign" and s["pl"]["l"] == 0 and not s["pl"]["p"]:
                        rv = s["rv"]
                        if not (rv["r"] == "agg" and rv.get("variant") == "None"):
                            sites.append(st0.copy())
                    if s["s"] == "assign":
                        a.assign(st0, s)
                t = v.blocks[bi]["term"]
                if t["t"] == "call" and t["dest"]["l"] == 0 and not t["dest"]["p"]:
                    sites.append(st0)
                for st in sites:
                    n += 1
                    lk = a.len_key(1, st)
                    iv = None
                    if lk is not None:
                        iv = (lk[1], lk[1]) if lk[0] == "const" else a.get(st, lk)
                    if iv is None or iv[1] > want:
                        bad = bad or (cfg, iv, want, v.where(bi))
        if bad:
            cfg, iv, want, w = bad
            rep.violation("try_from_%s_slice|length" % e, where, "a non-None result is built at %s where the slice can be %s "
                          "bytes long and BYTES is %d (configuration (%d,%d)): an over-long slice is accepted" % (
                              w, ("[%d, %d]" % iv) if iv else "of unknown length", want, cfg[0], cfg[1]))
        else:
            rep.ok("try_from_%s_slice|length" % e, where, "every non-None result is built with len <= BYTES")
    rep.analysed = {"build_config": config, "result_sites_evaluated": n}
    rep.floor("result_sites_evaluated", n, 2 * len(ctx.cfgs()))
    return rep


SLICING = ("::index_mut", "::index", "::split_at_mut", "::split_at", "::get_mut", "::get", "::len", "::is_empty",
           "::as_mut_ptr", "::as_ptr", "::split_first_mut", "::split_last_mut", "::first_mut", "::last_mut")


def write_extent(ctx, config="all"):
    """R-GUARD/write-extent: copy_{le,be}_bytes_to write at most BYTES bytes of the caller's buffer.

    The buffer may be longer than BYTES (the functions return how much they wrote); everything past BYTES belongs to the
    caller.  Interval interpretation per configuration: wherever (a sub-slice of) the buffer is handed to a function
    that can write through it -- copy_from_slice, chunks_mut, iter_mut, fill, ... , anything but the slicing operations
    themselves -- its length has an upper bound <= BYTES.  A private helper of the crate that receives the buffer is
    analysed the same way instead."""
    from . import total_rule
    rep = Report("R-GUARD/write-extent", "copy_{le,be}_bytes_to (and the private helpers they hand the buffer to) pass the "
                 "caller's buffer to a writing callee only as a slice of at most BYTES bytes in every configuration "
                 "(interval of the slice length at the call): bytes past BYTES are never touched")
    prog = ctx.prog(config)
    T = total_rule.totality(ctx, config)
    bytes_cfg = prog.const_cfg.get(ir.BYTES_CONST, {})
    n = 0
    for e in ("le", "be"):
        k0 = "crate::bytes::<impl %s>::copy_%s_bytes_to" % (U, e)
        if k0 not in prog.bodies:
            rep.violation("missing:copy_%s_bytes_to" % e, "", "not found")
            continue
        work, done, bad = [(k0, 2)], set(), None
        while work:
            k, bufp = work.pop()
            if (k, bufp) in done:
                continue
            done.add((k, bufp))
            for cfg in ctx.cfgs():
                want = bytes_cfg.get(cfg)
                if want is None:
                    continue
                a = T.ai(k, cfg)
                v = a.v
                # locals that are (sub-slices of) the buffer
                derived = {bufp}
                changed = True
                while changed:
                    changed = False
                    for bi in v.reachable:
                        for s in v.blocks[bi]["stmts"]:
                            if s["s"] == "assign" and not s["pl"]["p"] and s["pl"]["l"] not in derived:
                                rv = s["rv"]
                                src = None
                                if rv["r"] == "use" and rv["a"].get("o") in ("copy", "move"):
                                    src = rv["a"]["l"]
                                elif rv["r"] in ("ref", "rawptr"):
                                    src = rv["pl"]["l"]
                                elif rv["r"] == "cast" and rv["a"].get("o") in ("copy", "move"):
                                    src = rv["a"]["l"]
                                if src in derived:
                                    derived.add(s["pl"]["l"])
                                    changed = True
                        t = v.blocks[bi]["term"]
                        if t["t"] == "call" and not t["dest"]["p"] and t["dest"]["l"] not in derived and t["args"] \
                                and t["args"][0].get("o") in ("copy", "move") and t["args"][0]["l"] in derived \
                                and (ir.callee_name(t["fn"]) or "").endswith(SLICING):
                            derived.add(t["dest"]["l"])
                            changed = True
                for bi, t in v.calls():
                    name = ir.callee_name(t["fn"]) or ""
                    if name.endswith(SLICING):
                        continue
                    st = a.state_before_term(bi)
                    if st is None:
                        continue
                    for j, arg in enumerate(t["args"]):
                        if arg.get("o") not in ("copy", "move") or arg["p"] or arg["l"] not in derived:
                            continue
                        at = v.local_ty(arg["l"])
                        if not (at.get("k") == "ref" and at.get("m")):
                            continue       # a shared borrow cannot write
                        pt = a.pointee_ty(arg["l"])
                        if pt is None or pt.get("k") != "slice":
                            continue
                        lk = a.len_key(arg["l"], st)
                        iv = None
                        if lk is not None:
                            iv = (lk[1], lk[1]) if lk[0] == "const" else a.get(st, lk)
                        if name in prog.bodies:
                            n += 1
                            if iv is not None and iv[1] <= want:
                                continue     # the helper receives at most BYTES bytes: whatever it does stays inside
                            if prog.bodies[name]["file"] == "src/bytes.rs":
                                work.append((name, j + 1))   # it receives the whole buffer: analysed itself
                            continue
                        n += 1
                        if iv is None or iv[1] > want:
                            bad = bad or (name, v.where(bi), cfg, iv, want)
        b0 = prog.bodies[k0]
        where = "%s:%s" % (b0["file"], b0["line"])
        if bad:
            name, w, cfg, iv, want = bad
            rep.violation("copy_%s_bytes_to|extent" % e, where, "the buffer is handed to %s at %s as a slice that can be %s bytes "
                          "long where BYTES is %d (configuration (%d,%d)): bytes of the caller's buffer past the returned "
                          "length can be overwritten" % (name.split("::")[-1], w, ("up to %d" % iv[1]) if iv else "arbitrarily many",
                                                         want, cfg[0], cfg[1]))
        else:
            rep.ok("copy_%s_bytes_to|extent" % e, where, "every writing callee receives at most BYTES bytes of the buffer")
    rep.analysed = {"build_config": config, "writing_hand_overs_evaluated": n}
    rep.floor("writing_hand_overs_evaluated", n, 2)
    return rep
