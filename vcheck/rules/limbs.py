"""R-LIMBS: every producer of a Uint/Bits value forces evaluation of the
LIMBS assertion for its own (BITS, LIMBS) pair."""
from .. import ir
from ..engine import Report

LIMBS_CONST = "crate::Uint::<BITS, LIMBS>::LIMBS"


def param_pair(pair):
    a, b = pair
    if a.get("c") == "param" and b.get("c") == "param":
        return (a["n"], b["n"])
    return None


def find_carriers(prog, carriers):
    """Local structs generic over exactly (BITS, LIMBS) with a field that holds a Uint."""
    for k, st in prog.structs.items():
        for v in st["variants"]:
            for f in v["fields"]:
                ps = [param_pair(x) for x in uint_pairs(f["ty"], [], carriers)]
                if ("BITS", "LIMBS") in ps:
                    carriers.add(k)


def uint_pairs(t, out, carriers):
    """Collect (BITS-arg, LIMBS-arg) of every Uint/Bits (or local wrapper) inside type t."""
    k = t.get("k")
    if k == "adt":
        if t["n"] in carriers and len(t["a"]) == 2:
            out.append((t["a"][0], t["a"][1]))
        for a in t["a"]:
            if "k" in a:
                uint_pairs(a, out, carriers)
    elif k in ("ref", "ptr", "array", "slice"):
        uint_pairs(t["t"], out, carriers)
    elif k == "tuple":
        for x in t["ts"]:
            uint_pairs(x, out, carriers)
    elif k == "fnptr":
        # a function pointer that returns a Uint hands out values (proptest strategies)
        if t.get("io"):
            uint_pairs(t["io"][-1], out, carriers)
    return out


def generic_names(body):
    return [n for _k, n in body["generics"]]


def map_args(callee_body, args, pair):
    """Callee-side (X, Y) parameter names bound to the caller's (P, Q); [] when
    the edge changes the configuration."""
    names = generic_names(callee_body)
    if len(names) != len(args):
        return []
    bound_p = [n for n, a in zip(names, args) if a.get("c") == "param" and a["n"] == pair[0]]
    bound_q = [n for n, a in zip(names, args) if a.get("c") == "param" and a["n"] == pair[1]]
    return [(x, y) for x in bound_p for y in bound_q]


FOREIGN_GENERIC_DELEGATES = {
    # foreign generic functions instantiated with local types: they can obtain a
    # Uint only from a local trait-impl method they dispatch to (private field,
    # R-MUTREF, R-WF); value = module whose impls are the candidates.
    "der::asn1::any::AnyRef::<'a>::decode_as": ("der::decode_as", "crate::support::der"),
    "der::asn1::any::allocating::Any::decode_as": ("der::decode_as", "crate::support::der"),
    "serde_core::de::Deserializer::deserialize_any": ("serde::deserialize_*", "crate::support::serde"),
    "serde_core::de::Deserializer::deserialize_bytes": ("serde::deserialize_*", "crate::support::serde"),
    "diesel::deserialize::FromSql::from_sql": ("diesel::from_sql", "crate::support::diesel"),
    "sqlx_core::decode::Decode::decode": ("sqlx::decode", "crate::support::sqlx"),
    # `iter.copied().sum()` inside `Sum<&Uint>`: Iterator::sum::<Uint> dispatches to the local `Sum<Uint> for Uint`
    "core::iter::traits::iterator::Iterator::sum": ("Iterator::sum", "crate::add"),
    "core::iter::traits::iterator::Iterator::product": ("Iterator::product", "crate::mul"),
}


def short(k):
    return k.replace("crate::", "")


def run(ctx, config="all", floors=True):
    rep = Report("R-LIMBS", "every public constant/function that can bring a Uint<B,L>/Bits<B,L> into existence "
                 "without receiving one reaches (in the call graph restricted to edges that keep (B,L)) a body whose "
                 "required_consts mention Uint::<B,L>::LIMBS, whose evaluation asserts LIMBS == ceil(BITS/64)")
    prog = ctx.prog(config)
    bodies = prog.bodies
    carriers = {ir.UINT, ir.BITS_T}
    find_carriers(prog, carriers)
    find_carriers(prog, carriers)

    def pairs_of(t):
        return [p for p in (param_pair(x) for x in uint_pairs(t, [], carriers)) if p]

    def checks_here(body, pair):
        for rc in body.get("required_consts", []):
            if rc["def"] == LIMBS_CONST and len(rc["args"]) == 2:
                if param_pair((rc["args"][0], rc["args"][1])) == pair:
                    return True
        return False

    trait_impls = {}
    for b in prog.facts["bodies"]:
        ti = b.get("trait_item")
        if ti:
            trait_impls.setdefault(ti, []).append(b["key"])

    def returns_uint_without_taking(cb):
        if "output" not in cb or not pairs_of(cb["output"]):
            return False
        return not any(pairs_of(i) for i in cb.get("inputs", []))

    edge_memo = {}

    def out_edges(key, pair):
        """(config-preserving edges, delegation groups) of one (body, pair) node.
        A delegation group is (description, name, [candidate nodes])."""
        ck = (key, pair)
        if ck in edge_memo:
            return edge_memo[ck]
        body = bodies[key]
        res = []
        groups = []
        for blk in body["blocks"]:
            if blk.get("cleanup"):
                continue
            for op in ir.operands_of_block(blk):
                if op.get("o") != "const":
                    continue
                c = op.get("c")
                if c == "fn":
                    cands = []
                    fwd = op.get("fwd")
                    if fwd and fwd.get("res") in bodies:
                        cands.append((fwd["res"], fwd.get("res_args", [])))
                    if op.get("res") in bodies:
                        cands.append((op["res"], op.get("res_args", op.get("args", []))))
                    for k, args in cands:
                        for p2 in map_args(bodies[k], args, pair):
                            res.append((k, p2))
                    name = ir.callee_name(op)
                    if name in FOREIGN_GENERIC_DELEGATES:
                        cls, mod = FOREIGN_GENERIC_DELEGATES[name]
                        impls = [k for k, cb in bodies.items()
                                 if cb.get("trait_item") and mod in k and returns_uint_without_taking(cb)]
                        if impls:
                            groups.append(("foreign generic " + name, cls,
                                           [(k, q) for k in impls for q in set(pairs_of(bodies[k]["output"]))]))
                    elif (op.get("res") is None and op.get("trait")) or (fwd and fwd.get("res") is None):
                        tdef = fwd["def"] if (fwd and fwd.get("res") is None) else op["def"]
                        impls = [k for k in trait_impls.get(tdef, [])
                                 if "output" in bodies[k] and pairs_of(bodies[k]["output"])]
                        if impls:
                            groups.append(("trait dispatch on a type parameter: " + tdef, tdef,
                                           [(k, q) for k in impls for q in set(pairs_of(bodies[k]["output"]))]))
                    for a in op.get("args", []):
                        if a.get("k") == "closure" and a["def"] in bodies:
                            res.append((a["def"], pair))
                        if a.get("k") == "fndef" and a["def"] in bodies:
                            for p2 in map_args(bodies[a["def"]], a["a"], pair):
                                res.append((a["def"], p2))
                elif c == "closure" and op["def"] in bodies:
                    res.append((op["def"], pair))
                elif c == "uneval" and op["def"] in bodies:
                    for p2 in map_args(bodies[op["def"]], op["args"], pair):
                        res.append((op["def"], p2))
            for s in blk["stmts"]:
                if s["s"] == "assign" and s["rv"]["r"] == "agg" and s["rv"].get("kind") == "closure":
                    if s["rv"]["def"] in bodies:
                        res.append((s["rv"]["def"], pair))
        edge_memo[ck] = (res, groups)
        return edge_memo[ck]

    # producers ---------------------------------------------------------------
    producers = []
    for b in prog.facts["bodies"]:
        if b["kind"] not in ("Fn", "AssocFn", "AssocConst", "Const"):
            continue
        imp = prog.impl_of(b)
        is_trait_impl = bool(imp and imp.get("trait"))
        if not (b.get("vis") == "pub" or is_trait_impl):
            continue
        if "output" not in b:
            continue
        out_pairs = pairs_of(b["output"])
        if not out_pairs:
            continue
        in_pairs = set()
        for t in b.get("inputs", []):
            in_pairs.update(pairs_of(t))
        for p in sorted(set(out_pairs)):
            if p not in in_pairs:
                producers.append((b["key"], p))

    # universe of nodes -------------------------------------------------------
    universe = set()
    st = list(producers)
    while st:
        n = st.pop()
        if n in universe:
            continue
        universe.add(n)
        edges, groups = out_edges(*n)
        st.extend(edges)
        for _d, _n, cands in groups:
            st.extend(cands)

    rg_memo = {}

    def reaches_group(node, cls):
        """node delegates (directly or through local config-preserving calls)
        through dispatch class cls."""
        mk = (node, cls)
        if mk not in rg_memo:
            seen = set()
            stack = [node]
            hit = False
            while stack and not hit:
                c = stack.pop()
                if c in seen:
                    continue
                seen.add(c)
                edges, groups = out_edges(*c)
                if any(g[1] == cls for g in groups):
                    hit = True
                stack.extend(edges)
            rg_memo[mk] = hit
        return rg_memo[mk]

    # least fixpoint ----------------------------------------------------------
    ok = {}
    for n in universe:
        if checks_here(bodies[n[0]], n[1]):
            ok[n] = "mentions Uint::LIMBS"
    changed = True
    while changed:
        changed = False
        for n in sorted(universe):
            if n in ok:
                continue
            edges, groups = out_edges(*n)
            hit = next((e for e in edges if e in ok), None)
            if hit is not None:
                ok[n] = "-> " + short(hit[0])
                changed = True
                continue
            if groups:
                # all values originate from the dispatch groups only if the body has
                # no aggregate construction of a Uint of its own
                own = any(s["s"] == "assign" and s["rv"]["r"] == "agg" and s["rv"].get("def") == ir.UINT
                          for blk in bodies[n[0]]["blocks"] for s in blk["stmts"])
                if own:
                    continue
                good = True
                descr = []
                for d, name, cands in groups:
                    # candidates that delegate through the very same dispatch (incl. self)
                    # add no new origin of values
                    base = [c for c in cands if c != n and not reaches_group(c, name)]
                    if not base or not all(c in ok for c in base):
                        good = False
                        break
                    descr.append("%s (%d local candidate impls, each with its own obligation)" % (d, len(base)))
                if good:
                    ok[n] = "delegates: " + "; ".join(descr)
                    changed = True

    n_check = sum(1 for b in prog.facts["bodies"]
                  if any(rc["def"] == LIMBS_CONST for rc in b.get("required_consts", [])))
    rep.analysed = {"build_config": config, "bodies": len(prog.facts["bodies"]), "producers": len(producers),
                    "nodes_explored": len(universe), "bodies_mentioning_LIMBS": n_check,
                    "delegating": sum(1 for n in producers if ok.get(n, "").startswith("delegates"))}

    def explain(n, depth=0):
        path = [short(n[0])]
        cur = n
        seen = set()
        while cur in ok and ok[cur].startswith("-> ") and cur not in seen and len(path) < 8:
            seen.add(cur)
            edges, _ = out_edges(*cur)
            nxt = next((e for e in edges if e in ok and "-> " + short(e[0]) == ok[cur]), None)
            if nxt is None:
                break
            path.append(short(nxt[0]))
            cur = nxt
        tail = ok.get(cur, "")
        return " -> ".join(path) + (" [%s]" % tail if not tail.startswith("-> ") else "")

    for key, p in producers:
        b = bodies[key]
        okey = "%s<%s,%s>" % (key, p[0], p[1])
        where = "%s:%s" % (b["file"], b["line"])
        if (key, p) in ok:
            rep.ok(okey, where, explain((key, p)))
        else:
            seen = set()
            stack = [(key, p)]
            while stack:
                n = stack.pop()
                if n in seen:
                    continue
                seen.add(n)
                stack.extend(out_edges(*n)[0])
            rep.violation(okey, where,
                          "producer reaches no body that evaluates Uint::LIMBS for its own (%s, %s), so a value of an "
                          "ill-formed Uint type can be obtained through it; explored: %s" % (
                              p[0], p[1], ", ".join(sorted(short(k) for k, _ in seen)[:8])))
    if floors:
        rep.floor("producers", len(producers), 110)
        rep.floor("bodies_mentioning_LIMBS", n_check, 3)
    return rep
