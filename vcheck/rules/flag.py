"""R-FLAG (discarded information reaches the flag), R-LOWLIMB (truncating low-limb reads are
guarded) and R-VARIANT (a variant family computes one operation)."""
from .. import ir, total
from ..engine import Report
from .canon import limb_proj

MASK_CONST = "crate::Uint::<BITS, LIMBS>::MASK"
CFG = (65, 2)

# callees whose result carries an overflow / carry indicator, and where: index of the tuple field, or None = whole
INDICATORS = {
    "crate::algorithms::carrying_add": 1, "crate::algorithms::borrowing_sub": 1,
    "crate::algorithms::mul::addmul": None, "crate::algorithms::mul::addmul_nx1": None,
    "crate::algorithms::mul::mul_nx1": None, "crate::algorithms::mul::add_nx1": None,
    "crate::algorithms::shift::shift_left_small": None, "crate::algorithms::shift::shift_right_small": None,
}


class Fwd:
    """Flow-insensitive forward slice (data flow + control: a branch on a tainted value)."""

    def __init__(self, view):
        self.v = view
        self.tainted = set()
        self.branches = set()

    def run(self, seeds):
        v = self.v
        self.tainted = set(seeds)
        changed = True
        while changed:
            changed = False
            for bi in v.reachable:
                blk = v.blocks[bi]
                for s in blk["stmts"]:
                    if s["s"] != "assign":
                        continue
                    if s["pl"]["l"] in self.tainted:
                        continue
                    if any(o.get("o") in ("copy", "move") and o["l"] in self.tainted for o in ir.operands_of_rvalue(s["rv"])) \
                            or (s["rv"]["r"] in ("ref", "discr") and s["rv"]["pl"]["l"] in self.tainted):
                        self.tainted.add(s["pl"]["l"])
                        changed = True
                t = blk["term"]
                if t["t"] == "call":
                    if any(a.get("o") in ("copy", "move") and a["l"] in self.tainted for a in t["args"]):
                        if t["dest"]["l"] not in self.tainted:
                            self.tainted.add(t["dest"]["l"])
                            changed = True
                elif t["t"] == "switch":
                    d = t["discr"]
                    if d.get("o") in ("copy", "move") and d["l"] in self.tainted:
                        self.branches.add(bi)
        return self


class Bwd:
    """Flow-insensitive backward slice from operands; records parameter reads with their blocks,
    comparisons against named constants and local callees."""

    def __init__(self, view):
        self.v = view
        self.seen = set()
        self.param_reads = {}      # param local -> set of blocks where it is read
        self.cmp_consts = set()    # names of unevaluated constants compared with something in the slice
        self.local_calls = set()
        self.limb_reads = []       # (root param, block, index descr)
        self._ctrl_seen = set()

    def operand(self, op, at_block):
        if op.get("o") == "const":
            return
        if op.get("o") in ("copy", "move"):
            l = op["l"]
            if self.v.is_arg(l):
                self.param_reads.setdefault(l, set()).add(at_block)
            self.local(l)
            for e in op["p"]:
                if isinstance(e, list) and e[0] == "idx":
                    self.local(e[1])

    def local(self, l):
        if l in self.seen:
            return
        self.seen.add(l)
        v = self.v
        if v.is_arg(l):
            return
        # control dependence: a local assigned on different branches (`a || b`, `if c { x = .. } else { x = .. }`)
        # depends on the conditions that select the assignment
        dblocks = {bi for bi, _si, _s in v.defs.get(l, []) if bi in v.reachable}
        if len(dblocks) >= 2:
            doms = [set(v.dom.get(b, ())) | {b} for b in dblocks]
            common = set.intersection(*doms)
            deepest = max(common, key=lambda b: len(v.dom.get(b, ()))) if common else None
            ctrl = (set.union(*doms) - common) | ({deepest} if deepest is not None else set())
            for b in ctrl:
                t = v.blocks[b]["term"]
                if t["t"] == "switch" and b not in self._ctrl_seen:
                    self._ctrl_seen.add(b)
                    self.operand(t["discr"], b)
        for bi, si, s in v.defs.get(l, []):
            if bi not in v.reachable:
                continue
            if si == "term":
                n = ir.callee_name(s["fn"])
                if n in v.prog.bodies:
                    self.local_calls.add(n)
                for a in s["args"]:
                    self.operand(a, bi)
            else:
                rv = s.get("rv")
                if rv is None:
                    continue
                if rv["r"] == "bin" and rv["op"] in ("Gt", "Ge", "Lt", "Le", "Eq", "Ne"):
                    for o in (rv["a"], rv["b"]):
                        if o.get("o") == "const" and o.get("c") == "uneval":
                            self.cmp_consts.add(o["def"])
                for o in ir.operands_of_rvalue(rv):
                    self.operand(o, bi)
                if rv["r"] in ("ref", "discr"):
                    self.operand({"o": "copy", "l": rv["pl"]["l"], "p": rv["pl"]["p"]}, bi)


def natural_loops(view):
    """{head: set(blocks)}"""
    loops = {}
    for b in view.reachable:
        for s in view.succ[b]:
            if view.dominates(s, b):
                body = {s, b}
                st = [b]
                while st:
                    n = st.pop()
                    if n == s:
                        continue
                    for p in view.preds.get(n, []):
                        if p not in body:
                            body.add(p)
                            st.append(p)
                loops.setdefault(s, set()).update(body)
    return loops


def returns_flag(b):
    o = b.get("output", {})
    return o.get("k") == "tuple" and len(o["ts"]) == 2 and ir.is_uint_ty(o["ts"][0], True) and \
        o["ts"][1].get("n") == "bool"


WHOLE_VALUE_OBSERVERS = ("::bit_len", "::leading_zeros", "::is_zero", "::const_is_zero", "PartialEq>::eq", "PartialEq::ne",
                         "PartialOrd>::partial_cmp", "Ord>::cmp", "::byte_len", "::count_ones", "::checked_log2")


def flag(ctx, config="all", files=None):
    rep = Report("R-FLAG", "in every function that promises an exact overflow flag: (1) no carry/overflow indicator "
                 "returned by a callee is dropped; (2) if the result is masked, the flag depends on a comparison with "
                 "MASK; (3) if limbs of `self` are read only inside a loop whose trip count depends on the run-time "
                 "shift amount, the flag also depends on a read of `self` outside that loop")
    prog = ctx.prog(config)
    n1 = n2 = n3 = 0
    for b in prog.fn_bodies():
        if b["kind"] == "Closure" or (not prog.is_cfg_generic(b) and b["key"] != "crate::algorithms::mul::addmul"):
            continue
        if files and b["file"] not in files:
            continue
        name = b["name"]
        in_scope = (name.startswith(("overflowing_", "checked_", "saturating_")) or name in ("from_base_le", "from_base_be", "add_mod")
                    or b["key"] == "crate::algorithms::mul::addmul")
        if b["file"].startswith("src/algorithms") and b["key"] != "crate::algorithms::mul::addmul":
            continue
        if not in_scope or b["file"].startswith("src/support"):
            continue
        v = prog.view(b, CFG if prog.is_cfg_generic(b) else None)
        key = b["key"].replace("crate::", "")
        where = "%s:%s" % (b["file"], b["line"])
        # ---- clause 1: indicators
        for bi, t in v.calls():
            n = ir.callee_name(t["fn"])
            cb = prog.bodies.get(n)
            ind = None
            if n in INDICATORS:
                ind = INDICATORS[n]
            elif cb is not None and cb["name"].startswith("overflowing_") and returns_flag(cb):
                ind = 1
            else:
                continue
            n1 += 1
            d = t["dest"]["l"]
            # locals that receive the indicator component
            seeds = set()
            if ind is None:
                seeds.add(d)
            for bj in v.reachable:
                for s in v.blocks[bj]["stmts"]:
                    if s["s"] == "assign" and s["rv"]["r"] == "use":
                        a = s["rv"]["a"]
                        if a.get("o") in ("copy", "move") and a["l"] == d and a["p"] and a["p"][0] == ["f", ind]:
                            seeds.add(s["pl"]["l"])
                    if s["s"] == "assign" and s["rv"]["r"] == "discr" and s["rv"]["pl"]["l"] == d:
                        pass
            # a `match call() { (v, false) => .. }` reads the field in a switch directly
            direct_switch = False
            for bj in v.reachable:
                tt = v.blocks[bj]["term"]
                if tt["t"] == "switch":
                    dd = tt["discr"]
                    if dd.get("o") in ("copy", "move") and dd["l"] == d and dd["p"] and dd["p"][0] == ["f", ind]:
                        direct_switch = True
            fw = Fwd(v).run(seeds) if seeds else None
            used = d == 0 or direct_switch or (fw is not None and (0 in fw.tainted or fw.branches or
                                                         any(v.is_arg(x) for x in fw.tainted)))
            k1 = "%s|indicator:%s" % (key, (n or "?").split("::")[-1])
            if not used and not returns_flag(b) and b.get("output", {}).get("n") == "bool":
                # the function's result IS the flag: a later indicator adds nothing on a path where the flag has already
                # been set to `true` for good (`overflow = true; ...; addmul_nx1(..);` in the truncated-row branch)
                ret = Bwd(v)
                ret.local(0)
                doms = set(v.dom.get(bi, ())) | {bi}
                for bj in doms:
                    for s in v.blocks[bj]["stmts"]:
                        if s["s"] == "assign" and not s["pl"]["p"] and s["pl"]["l"] in ret.seen and s["rv"]["r"] == "use" \
                                and s["rv"]["a"].get("o") == "const" and v.const_of_operand(s["rv"]["a"]) == 1 \
                                and v.local_tyname(s["pl"]["l"]) == "bool":
                            used = "already-true"
            if used == "already-true":
                rep.ok(k1, v.where(bi), "dropped on a path where the returned flag has already been set to true")
            elif used:
                rep.ok(k1, v.where(bi), "")
            else:
                rep.violation(k1, v.where(bi), "the overflow/carry indicator returned by %s is dropped in %s: it "
                              "reaches neither the returned flag nor a branch" % ((n or "?").replace("crate::", ""), key))
        if not returns_flag(b):
            continue
        # ---- per returned tuple: the flag operand
        masked = any((ir.callee_name(t["fn"]) or "").endswith(("::masked", "::apply_mask")) for _bi, t in v.calls())
        loops = natural_loops(v)
        # loops whose bound depends on a run-time value and that read limbs of self
        window_loops = []
        for head, body in loops.items():
            reads_self = False
            for bj in body:
                for s in v.blocks[bj]["stmts"]:
                    if s["s"] == "assign":
                        for o in ir.operands_of_rvalue(s["rv"]):
                            if o.get("o") in ("copy", "move") and o["l"] == 1 and limb_proj(v, o) is not None:
                                reads_self = True
            if not reads_self:
                continue
            # trip count: Range{_, end} aggregates / comparisons in the loop header chain that are not config-constant
            runtime_bound = False
            for bj in v.reachable:
                for s in v.blocks[bj]["stmts"]:
                    if s["s"] == "assign" and s["rv"]["r"] == "agg" and s["rv"].get("def") == "core::ops::range::Range":
                        # is this range the one iterated by the loop?  (its next() call is in the loop body)
                        end = s["rv"]["ops"][1]
                        if v.const_of_operand(end) is None:
                            # does the loop iterate it?
                            for bk in body:
                                tt = v.blocks[bk]["term"]
                                if tt["t"] == "call" and (ir.callee_name(tt["fn"]) or "").endswith("Range<A>>::next"):
                                    runtime_bound = True
            hd = v.blocks[head]["term"]
            if hd["t"] == "switch":
                ch = v.chase(hd["discr"]) if hd["discr"].get("o") in ("copy", "move") and not hd["discr"]["p"] else None
                if ch and ch[0] == "rv" and ch[1]["r"] == "bin":
                    if v.const_of_operand(ch[1]["a"]) is None and v.const_of_operand(ch[1]["b"]) is None:
                        runtime_bound = True
            if runtime_bound:
                window_loops.append((head, body))
        for bj in sorted(v.reachable):
            for s in v.blocks[bj]["stmts"]:
                if not (s["s"] == "assign" and s["pl"]["l"] == 0 and not s["pl"]["p"] and s["rv"]["r"] == "agg"
                        and s["rv"].get("kind") == "tuple" and len(s["rv"]["ops"]) == 2):
                    continue
                flag_op = s["rv"]["ops"][1]
                val_op = s["rv"]["ops"][0]
                bw = Bwd(v)
                bw.operand(flag_op, bj)
                # is the returned value on this path produced by the masked computation?
                vb = Bwd(v)
                vb.operand(val_op, bj)
                value_is_const = (val_op.get("o") == "const")
                if masked and not value_is_const and v.const_of_operand(flag_op) is None:
                    n2 += 1
                    k2 = "%s|mask-discard" % key
                    if MASK_CONST in bw.cmp_consts or any(c.endswith("::MASK") for c in bw.cmp_consts):
                        rep.ok(k2, v.where(bj), "flag depends on a comparison with MASK")
                    elif any(c.endswith(WHOLE_VALUE_OBSERVERS) for c in bw.local_calls):
                        # e.g. `self.leading_zeros() < rhs`: the loss is computed from the whole value beforehand;
                        # whether that computation is the right one is arithmetic
                        rep.ok(k2, v.where(bj), "flag is computed from a whole-value observation (%s): not decided" % ", ".join(
                            sorted(c.split("::")[-1] for c in bw.local_calls if c.endswith(WHOLE_VALUE_OBSERVERS))))
                    else:
                        rep.violation(k2, v.where(bj), "%s masks its result but the returned flag does not depend on a "
                                      "comparison of the top limb with MASK: bits shifted/carried into positions >= BITS "
                                      "of a non-aligned width are discarded without being reported" % key)
                if window_loops and not value_is_const:
                    n3 += 1
                    k3 = "%s|window-discard" % key
                    inside = set()
                    for _h, body in window_loops:
                        inside |= body
                    reads = bw.param_reads.get(1, set())
                    # the value must come from the loop for the clause to apply on this path
                    if not (vb.seen & {l for l in range(v.nlocals)}) or not reads:
                        rep.ok(k3, v.where(bj), "flag does not depend on self on this path")
                    elif reads - inside:
                        rep.ok(k3, v.where(bj), "flag also depends on a read of self outside the windowed loop")
                    elif len([1 for _h, body in window_loops if reads & body]) >= 2:
                        rep.ok(k3, v.where(bj), "flag depends on reads of self in two different loops (scan of the "
                               "complementary range)")
                    else:
                        rep.violation(k3, v.where(bj), "%s reads the limbs of `self` only inside a loop that covers "
                                      "LIMBS - k limbs for a run-time k, and the returned flag depends on no other read of "
                                      "`self`: non-zero limbs outside the window are dropped without being reported" % key)
    rep.analysed = {"build_config": config, "indicator_call_sites": n1, "masked_flag_paths": n2, "windowed_flag_paths": n3}
    if not files:
        rep.floor("indicator_call_sites", n1, 12)
        rep.floor("masked_flag_paths", n2, 4)
        rep.floor("windowed_flag_paths", n3, 2)
    return rep


_CALLERS = {}


def callers_of(prog, key):
    """Local call sites of a function: [(caller key, block)]."""
    idx = _CALLERS.get(id(prog))
    if idx is None:
        idx = {}
        for b in prog.fn_bodies():
            for bi, blk in enumerate(b["blocks"]):
                t = blk["term"]
                if t["t"] == "call":
                    n = ir.callee_name(t["fn"])
                    if n in prog.bodies:
                        idx.setdefault(n, []).append((b["key"], bi))
        _CALLERS[id(prog)] = idx
    return idx.get(key, [])


def lowlimb(ctx, config="all"):
    rep = Report("R-LOWLIMB", "a function that uses a constant-indexed limb of a Uint parameter as a scalar is, on the "
                 "path to its normal return, dominated by a whole-value observer of the same parameter (bit_len, "
                 "leading_zeros, comparison, is_zero) or by a configuration guard that makes the read complete "
                 "(LIMBS == 1, BITS <= 64), unless the value is reduced to low bits by definition")
    prog = ctx.prog(config)
    table = ctx.table("lowlimb")
    n = 0
    # A PRIVATE helper that returns low limbs as a scalar (`fn low_u128(&self) -> u128`) truncates by definition; the
    # obligation moves to its callers, where the call is a low-limb read of the argument.  Pass 1 finds such helpers
    # (private, with an unguarded read), pass 2 reports.
    helpers = {}
    for final in (False, True):
      if final:
          rep.obligations[:] = []
          n = 0
      for b in prog.fn_bodies():
          if b["kind"] == "Closure" or b["file"].startswith("src/algorithms"):
              continue
          if not prog.is_cfg_generic(b):
              continue
          # parameters of Uint / &Uint type
          uparams = [l for l in range(1, b.get("arg_count", 0) + 1)
                     if ir.is_uint_ty(b["locals"][l]["ty"], True) or (b["locals"][l]["ty"].get("k") == "ref" and
                                                                     ir.is_uint_ty(b["locals"][l]["ty"]["t"], True))]
          if not uparams:
              continue
          out_t = b.get("output", {})
          if ir.ty_contains(out_t, lambda t: ir.is_uint_ty(t, True)) and b["name"] not in ("shl", "shr", "pow"):
              # functions that rebuild a Uint limb by limb read every limb: not truncating reads
              continue
          v = prog.view(b, (129, 3))
          sites = []
          for bi in sorted(v.reachable):
              blk = v.blocks[bi]
              for s in blk["stmts"]:
                  if s["s"] != "assign":
                      continue
                  for o in ir.operands_of_rvalue(s["rv"]):
                      if o.get("o") in ("copy", "move") and o["l"] in uparams:
                          lp = limb_proj(v, o)
                          if lp and len(lp[2]) == 1:
                              e = lp[2][0]
                              idx = None
                              if e[0] == "cidx" and not e[2]:
                                  idx = e[1]
                              elif e[0] == "idx":
                                  idx = v.const_of_local(e[1])
                              if idx is not None and idx <= 1:
                                  sites.append((bi, o["l"], idx, s["pl"]["l"]))
              t = blk["term"]
              if t["t"] == "call":
                  nm = ir.callee_name(t["fn"]) or ""
                  # as_limbs()[c] / .first()
                  if nm.endswith("::as_limbs") and t["args"] and t["args"][0].get("o") in ("copy", "move"):
                      root = total.Totality._value_root(None, v, t["args"][0])
                      if root in uparams:
                          # how is the returned array reference used?  constant index
                          d = t["dest"]["l"]
                          for bj in v.reachable:
                              for s in v.blocks[bj]["stmts"]:
                                  if s["s"] == "assign":
                                      for o in ir.operands_of_rvalue(s["rv"]):
                                          if o.get("o") in ("copy", "move") and o["l"] == d and len(o["p"]) == 2 and o["p"][0] == "deref":
                                              e = o["p"][1]
                                              idx = e[1] if (e[0] == "cidx" and not e[2]) else (v.const_of_local(e[1]) if e[0] == "idx" else None)
                                              if idx is not None and idx <= 1:
                                                  sites.append((bj, root, idx, s["pl"]["l"]))
          # calls of a truncating private helper: the result is a low-limb read of the argument
          for bi in sorted(v.reachable):
              t = v.blocks[bi]["term"]
              if t["t"] != "call":
                  continue
              hk = ir.callee_name(t["fn"])
              if hk in helpers and hk != b["key"]:
                  for ai_, idx_ in helpers[hk]:
                      if ai_ - 1 < len(t["args"]) and t["args"][ai_ - 1].get("o") in ("copy", "move"):
                          root = total.Totality._value_root(None, v, t["args"][ai_ - 1])
                          if root in uparams:
                              sites.append((bi, root, idx_, t["dest"]["l"]))
          if not sites:
              continue
          # is the whole array read (every index 0..LIMBS-1)?  then reads are not truncating
          def observer_at(blk, p):
              for d in v.dom.get(blk, ()):
                  t = v.blocks[d]["term"]
                  if t["t"] != "switch":
                      continue
                  dd = t["discr"]
                  if not (dd.get("o") in ("copy", "move") and not dd["p"]):
                      continue
                  sl = BwdCalls(v)
                  sl.local(dd["l"])
                  for cn, args in sl.calls:
                      if any(cn.endswith(w) or w in cn for w in WHOLE_VALUE_OBSERVERS):
                          roots = {total.Totality._value_root(None, v, a) for a in args}
                          if p in roots:
                              return "a branch on %s(param)" % cn.split("::")[-1]
                  # the condition reads the parameter's limb array as a whole (or a non-constant part of it, e.g.
                  # limbs[1..].iter().any(..)): the other limbs are observed
                  for al, proj in sl.arg_places:
                      if al == p and not any(e[0] in ("cidx", "idx") for e in proj if isinstance(e, (list, tuple))) and sl.calls:
                          return "a branch whose condition reads the whole limb array of the parameter"
              return None

          for bi, p, idx, dest in sorted(set(sites)):
              n += 1
              key = "%s|limbs[%d]" % (b["key"].replace("crate::", ""), idx)
              where = v.where(bi)
              row = next((r for r in table.get(b["key"], []) if r["index"] == idx), None)
              # guards: dominated by a branch whose condition is a whole-value observer call on the same parameter,
              # or the block is only reachable in configurations where the read is complete
              ok = observer_at(bi, p)
              if ok:
                  ok = "read dominated by " + ok
              if ok is None:
                  # every place where the read value reaches the return value is dominated by an observer
                  fw = Fwd(v).run({dest})
                  outs = []
                  for bj in sorted(v.reachable):
                      for s2 in v.blocks[bj]["stmts"]:
                          if s2["s"] == "assign" and s2["pl"]["l"] == 0 and any(
                                  o.get("o") in ("copy", "move") and o["l"] in fw.tainted for o in ir.operands_of_rvalue(s2["rv"])):
                              if s2["rv"]["r"] == "agg" and s2["rv"].get("variant") == "Err":
                                  continue  # the failure payload carries the wrapped (low-bits) value by definition
                              outs.append(bj)
                      t2 = v.blocks[bj]["term"]
                      if t2["t"] == "call" and t2["dest"]["l"] == 0 and any(
                              a.get("o") in ("copy", "move") and a["l"] in fw.tainted for a in t2["args"]):
                          outs.append(bj)
                  if outs and all(observer_at(bj, p) for bj in outs):
                      ok = "every use of the read in the returned value is dominated by " + observer_at(outs[0], p)
                  elif not outs and not any(t3["t"] == "call" and any(a.get("o") in ("copy", "move") and a["l"] in fw.tainted
                                                                      for a in t3["args"])
                                            for t3 in (v.blocks[bj]["term"] for bj in v.reachable)):
                      ok = "the read feeds only comparisons / branch conditions, never a returned value or a call"
              if ok is None:
                  # complete by configuration: unreachable when LIMBS > idx + 1 ?
                  v_big = prog.view(b, (256, 4))
                  v_one = prog.view(b, (64, 1)) if idx == 0 else prog.view(b, (128, 2))
                  if bi not in v_big.reachable and bi not in prog.view(b, (129, 3)).reachable:
                      ok = "only reachable in configurations where limb %d is the whole value" % idx
              if ok:
                  rep.ok(key, where, ok)
              elif row is not None:
                  rep.table(key, where, row["reason"])
              elif b.get("vis") != "pub" and not (prog.impl_of(b) or {}).get("trait") and callers_of(prog, b["key"]):
                  # private helper: truncates by definition, its callers carry the obligation
                  helpers.setdefault(b["key"], set()).add((p, idx))
                  rep.ok(key, where, "private helper returning low limbs: the obligation is checked at its %d call site(s)" %
                         len(callers_of(prog, b["key"])))
              else:
                  rep.violation(key, where, "%s uses limbs[%d] of a Uint parameter as a scalar without a dominating "
                                "whole-value check: limbs above it are silently ignored (e.g. a shift amount >= 2^64)" % (
                                    b["key"].replace("crate::", ""), idx))
    rep.analysed = {"build_config": config, "low_limb_reads": n}
    rep.floor("low_limb_reads", n, 10)
    return rep


CFG_LIMBS = 3


class BwdCalls:
    def __init__(self, view):
        self.v = view
        self.seen = set()
        self.calls = []
        self.arg_places = []   # (argument local, projection) of every place rooted at an argument that the slice reads

    def _place(self, l, proj):
        if self.v.is_arg(l):
            self.arg_places.append((l, proj))
        self.local(l)

    def local(self, l):
        if l in self.seen or self.v.is_arg(l):
            return
        self.seen.add(l)
        for bi, si, s in self.v.defs.get(l, []):
            if si == "term":
                self.calls.append((ir.callee_name(s["fn"]) or "?", s["args"]))
                for a in s["args"]:
                    if a.get("o") in ("copy", "move"):
                        self._place(a["l"], a["p"])
            else:
                rv = s.get("rv")
                if rv is None:
                    continue
                for o in ir.operands_of_rvalue(rv):
                    if o.get("o") in ("copy", "move"):
                        self._place(o["l"], o["p"])
                if rv["r"] in ("ref", "discr"):
                    self._place(rv["pl"]["l"], rv["pl"]["p"])


FALLIBLE_FROM_UNBOUNDED = [
    # constructors whose input domain (a slice / digit stream / text of any length) always contains values that do
    # not fit: the failure outcome must be constructible on a feasible path in EVERY configuration, also (0,0)
    ("crate::Uint::<BITS, LIMBS>::overflowing_from_limbs_slice", "flag"),
    ("crate::bytes::<impl crate::Uint<BITS, LIMBS>>::try_from_be_slice", "None"),
    ("crate::bytes::<impl crate::Uint<BITS, LIMBS>>::try_from_le_slice", "None"),
    ("crate::base_convert::<impl crate::Uint<BITS, LIMBS>>::from_base_be", "Err"),
    ("crate::base_convert::<impl crate::Uint<BITS, LIMBS>>::from_base_le", "Err"),
]


def feasible_failure(ctx, config="all", keys=None):
    from .. import absint
    rep = Report("R-FLAG/feasible-failure", "constructors from an unbounded input domain (limb slice, byte slice, digit "
                 "stream) can report failure in every configuration: on the configuration-pruned, interval-feasible CFG "
                 "of each (BITS, LIMBS) -- including (0,0) and aligned widths -- some path returns the failure outcome "
                 "(flag not constant false / None / Err)")
    prog = ctx.prog(config)
    n = 0
    for k, kind in FALLIBLE_FROM_UNBOUNDED:
        if keys and k not in keys:
            continue
        b = prog.bodies.get(k)
        short = k.replace("crate::", "")
        if b is None:
            rep.violation("missing:" + short, "", "%s not found" % short)
            continue
        bad = []
        for cfg in ctx.cfgs():
            n += 1
            v = prog.view(b, cfg)
            a = absint.Analysis(v)
            ok = False
            for bi in sorted(a.entry):
                for s in v.blocks[bi]["stmts"]:
                    if s["s"] != "assign" or s["pl"]["l"] != 0 or s["pl"]["p"]:
                        continue
                    rv = s["rv"]
                    if kind == "flag" and rv["r"] == "agg" and rv.get("kind") == "tuple" and len(rv["ops"]) == 2:
                        c = v.const_of_operand(rv["ops"][1])
                        if c is None or c != 0:
                            ok = True
                    elif kind in ("None", "Err") and rv["r"] == "agg" and rv.get("variant") == kind:
                        ok = True
                t = v.blocks[bi]["term"]
                if kind == "Err" and t["t"] == "call" and t["dest"]["l"] == 0 and "from_residual" in (ir.callee_name(t["fn"]) or ""):
                    ok = True
            if not ok:
                bad.append(cfg)
        where = "%s:%s" % (b["file"], b["line"])
        if bad:
            rep.violation(short + "|can-fail", where, "%s can never report failure in configuration(s) %s although inputs that do "
                          "not fit exist for every width (e.g. a non-zero limb for BITS = 0)" % (
                              short, ", ".join("(%d,%d)" % c for c in bad[:6])))
        else:
            rep.ok(short + "|can-fail", where, "failure outcome feasible in %d configurations" % len(ctx.cfgs()))
    rep.analysed = {"build_config": config, "function_configurations": n}
    return rep


FLAGGED_OPS = {"add": "src/add.rs", "sub": "src/add.rs", "neg": "src/add.rs", "mul": "src/mul.rs", "shl": "src/bits.rs",
               "shr": "src/bits.rs", "pow": "src/pow.rs"}


def flag_range(ctx, config="all", ops=None):
    """R-FLAG/flag-range: the indicator of overflowing_X is not a constant it must not be.

    BITS == 0: the type has exactly one value and 0 op 0 = 0 is in range, so `false` must be a feasible indicator
    (a constant `true` makes checked_X return None for the only input there is).  BITS > 0: both outcomes occur for
    every X, so the indicator must not be provably constant.  Decided on the interval interpretation of the
    configuration-pruned body with contextual summaries of the callees' returned pairs."""
    from . import total_rule
    rep = Report("R-FLAG/flag-range", "the overflow indicator returned by overflowing_{add,sub,neg,mul,shl,shr,pow} can be "
                 "false for BITS == 0 (the only value there is never overflows) and is not provably constant for "
                 "BITS > 0; interval interpretation per configuration with summaries of the pairs callees return")
    prog = ctx.prog(config)
    T = total_rule.totality(ctx, config)
    U_ = "crate::Uint<BITS, LIMBS>"
    n = 0
    for op, f in FLAGGED_OPS.items():
        if ops and op not in ops:
            continue
        cands = [b for b in prog.fn_bodies() if b["name"] == "overflowing_" + op and b["file"] == f
                 and (prog.impl_of(b) or {}).get("self_s") == U_ and not (prog.impl_of(b) or {}).get("trait")]
        if not cands:
            rep.violation("overflowing_%s|missing" % op, f, "overflowing_%s not found" % op)
            continue
        b = cands[0]
        key = b["key"].replace("crate::", "")
        where = "%s:%s" % (b["file"], b["line"])
        bad = []
        for cfg in ctx.cfgs():
            n += 1
            a = T.ai(b["key"], cfg)
            if a is None:
                continue
            iv = a.return_paths().get((("f", 1),))
            if iv is None:
                continue
            if cfg[0] == 0 and iv == (1, 1):
                bad.append((cfg, "always true"))
            elif cfg[0] > 0 and iv[0] == iv[1]:
                bad.append((cfg, "always %s" % ("true" if iv[0] else "false")))
        if bad:
            rep.violation(key + "|flag-range", where, "the overflow indicator of overflowing_%s is provably constant: %s" % (
                op, ", ".join("(%d,%d): %s" % (c[0], c[1], w) for c, w in bad[:6])) +
                ("; for BITS == 0 the only value is 0 and 0 %s 0 does not overflow" % op if any(c[0] == 0 for c, _w in bad) else ""))
        else:
            rep.ok(key + "|flag-range", where, "indicator not constant where it must vary, false feasible for BITS == 0")
    rep.analysed = {"build_config": config, "function_configurations": n}
    rep.floor("function_configurations", n, len(ctx.cfgs()) * (len(ops) if ops else len(FLAGGED_OPS)))
    return rep


# ---------------------------------------------------------------------------------------------------------------
# R-CARRY: a carry / borrow word, once produced, is read before it is overwritten or abandoned
PAIR_PRODUCERS = {
    "crate::algorithms::carrying_add": 1, "crate::algorithms::borrowing_sub": 1,
    "crate::algorithms::ops::adc": 1, "crate::algorithms::ops::sbb": 1,
}


def _producer_field(name):
    if name is None:
        return None
    if name in PAIR_PRODUCERS:
        return PAIR_PRODUCERS[name]
    last = name.split("::")[-1]
    if last == "split" and "DoubleWord" in name:
        return 1
    if name.startswith("core::num::<impl u") and last in ("overflowing_add", "overflowing_sub", "overflowing_mul",
                                                          "carrying_add", "borrowing_sub", "carrying_mul", "widening_mul"):
        return 1
    return None


def _reads(op, holders):
    """Does the operand read one of the holders?  holders: set of ("l", local) / ("f", local, field)."""
    if op.get("o") not in ("copy", "move"):
        return None
    l, p = op["l"], op["p"]
    for h in holders:
        if h[0] == "l" and h[1] == l:
            return h
        if h[0] == "f" and h[1] == l and (not p or (isinstance(p[0], list) and p[0][0] == "f" and p[0][1] == h[2])):
            return h
    for e in p:
        if isinstance(e, list) and e[0] == "idx":
            for h in holders:
                if h[0] == "l" and h[1] == e[1]:
                    return h
    return None


def carry_liveness(ctx, config="all", files=(), label="", floor=0):
    """R-CARRY: in the given files, for every call that returns a (low, carry) pair -- carrying_add, borrowing_sub,
    adc, sbb, DoubleWord::split, u64::overflowing_* -- the carry component is READ (used in arithmetic, a comparison,
    a call, a store, or returned) on every path before every local that holds it is overwritten or the function
    returns.  Plain copies / moves pass the obligation on to the destination.  Flow-sensitive walk of the MIR CFG."""
    rep = Report("R-CARRY", "a carry / borrow word produced by a limb primitive (carrying_add, borrowing_sub, adc, sbb, "
                 "DoubleWord::split, u64::overflowing_*) is read on every path before it is overwritten or the function "
                 "returns: no carry between limbs is silently dropped (flow-sensitive liveness over the MIR CFG; copies "
                 "pass the obligation on)")
    prog = ctx.prog(config)
    n_sites = 0
    for b in prog.fn_bodies():
        if b["file"] not in files:
            continue
        v = prog.view(b, CFG if prog.is_cfg_generic(b) else None)
        key = b["key"].replace("crate::", "")
        for cbi, t in v.calls():
            name = ir.callee_name(t["fn"])
            fld = _producer_field(name)
            if fld is None or t["dest"]["p"] or t.get("target") is None:
                continue
            n_sites += 1
            d = t["dest"]["l"]
            if d == 0:
                rep.ok("%s|carry:%s" % (key, (name or "?").split("::")[-1]), v.where(cbi), "the pair is the return value")
                continue
            dty = v.local_ty(d)
            is_flag = dty.get("k") == "tuple" and fld < len(dty.get("ts", [])) and dty["ts"][fld].get("n") == "bool"
            start = (t["target"], 0, frozenset([("f", d, fld)]))
            seen = set()
            stack = [start]
            bad = None
            while stack and bad is None:
                bi, si, holders = stack.pop()
                if (bi, si, holders) in seen:
                    continue
                seen.add((bi, si, holders))
                if bi not in v.reachable:
                    continue
                blk = v.blocks[bi]
                done = False
                for j in range(si, len(blk["stmts"])):
                    s = blk["stmts"][j]
                    if s["s"] != "assign":
                        continue
                    rv, pl = s["rv"], s["pl"]
                    ops = list(ir.operands_of_rvalue(rv))
                    if rv["r"] in ("ref", "discr", "len"):
                        ops.append({"o": "copy", "l": rv["pl"]["l"], "p": rv["pl"]["p"]})
                    hit = None
                    for o in ops:
                        hit = hit or _reads(o, holders)
                    # index locals of the destination place
                    for e in pl["p"]:
                        if isinstance(e, list) and e[0] == "idx" and ("l", e[1]) in holders:
                            hit = ("l", e[1])
                    if hit is not None:
                        a = rv.get("a") if rv["r"] == "use" else None
                        pure = (rv["r"] == "use" and a is not None and a.get("o") in ("copy", "move") and not pl["p"]
                                and (a["p"] == [] or (hit[0] == "f" and len(a["p"]) == 1)))
                        if pure and pl["l"] != 0:
                            nh = set(holders)
                            if a["o"] == "move":
                                nh.discard(hit)
                            nh.discard(("l", pl["l"]))
                            nh.add(("l", pl["l"]))
                            holders = frozenset(nh)
                            continue
                        done = True     # a real use (or the return place)
                        break
                    if not pl["p"]:
                        nh = frozenset(h for h in holders if not (h[1] == pl["l"]))
                        if nh != holders:
                            holders = nh
                            if not holders:
                                bad = ("overwritten", v.where(bi))
                                break
                if done or bad:
                    continue
                tt = blk["term"]
                k = tt["t"]
                if k == "call":
                    if any(_reads(a_, holders) for a_ in tt["args"]):
                        continue
                    if not tt["dest"]["p"]:
                        nh = frozenset(h for h in holders if h[1] != tt["dest"]["l"])
                        if not nh:
                            bad = ("overwritten", v.where(bi))
                            continue
                        holders = nh
                    if tt.get("target") is not None:
                        stack.append((tt["target"], 0, holders))
                elif k == "switch":
                    if _reads(tt["discr"], holders):
                        continue
                    for s2 in v.succ.get(bi, []):
                        stack.append((s2, 0, holders))
                elif k == "assert":
                    if _reads(tt["cond"], holders):
                        continue
                    for s2 in v.succ.get(bi, []):
                        stack.append((s2, 0, holders))
                elif k == "return":
                    if not is_flag:
                        bad = ("abandoned at return", v.where(bi))
                    # a boolean flag may legitimately go unread on a path where another flag already decides the
                    # result (`wrapped_a || wrapped_b` short-circuits); that it reaches the result at all is R-FLAG 1
                else:
                    for s2 in v.succ.get(bi, []):
                        stack.append((s2, 0, holders))
            k1 = "%s|carry:%s" % (key, (name or "?").split("::")[-1])
            if bad:
                rep.violation(k1, v.where(cbi), "the carry component returned by %s at %s is %s (%s) without having been "
                              "read on that path: a carry between limbs is dropped" % (
                                  (name or "?").replace("crate::", ""), v.where(cbi), bad[0], bad[1]))
            else:
                rep.ok(k1, v.where(cbi), "read on every path")
    rep.analysed = {"build_config": config, "files": sorted(files), "pair_producing_call_sites": n_sites, "label": label}
    if floor:
        rep.floor("pair-producing call sites" + ("-" + label if label else ""), n_sites, floor)
    return rep
