"""R-CODEC: encoder, decoder and format agree on the byte form (C16); postgres registry agreement."""
from .. import ir
from ..engine import Report

LE = {"as_le_slice", "as_le_slice_mut", "as_le_bytes", "as_le_bytes_trimmed", "to_le_bytes", "to_le_bytes_vec",
      "to_le_bytes_trimmed_vec", "copy_le_bytes_to", "checked_copy_le_bytes_to", "try_from_le_slice", "from_le_slice",
      "from_le_bytes"}
BE = {"to_be_bytes", "to_be_bytes_vec", "to_be_bytes_trimmed_vec", "copy_be_bytes_to", "checked_copy_be_bytes_to",
      "try_from_be_slice", "from_be_slice", "from_be_bytes"}
STR = {"from_str", "from_str_radix", "fmt"}
LIMBS = {"from_limbs", "as_limbs", "into_limbs", "overflowing_from_limbs_slice", "from_limbs_slice",
         "checked_from_limbs_slice", "wrapping_from_limbs_slice"}
U = "crate::Uint<BITS, LIMBS>"
B = "crate::bit_arr::Bits<BITS, LIMBS>"


def classify(prog, cg, key, cfg=(256, 4)):
    """Byte-form class of a codec function: the Uint byte-form producers/consumers it (or its closures) delegates to."""
    names = set()
    rev = False
    todo = [key] + ir.local_helpers(prog, key)      # closures and private helpers of the same file
    for k in todo:
        v = prog.view(k, cfg if prog.is_cfg_generic(prog.bodies[k]) else None)
        for _bi, t in v.calls():
            n = ir.callee_name(t["fn"]) or ""
            last = n.split("::")[-1]
            if n in prog.bodies and (last in LE | BE | STR | LIMBS):
                names.add(last)
            if last in ("reverse", "rev"):
                rev = True
    le, be = names & LE, names & BE
    if be and not le:
        cls = "BE"
    elif le and not be:
        cls = "BE" if rev else "LE"
    elif le and be:
        cls = "MIXED"
    elif names & STR:
        cls = "STR"
    elif names & LIMBS:
        cls = "LIMBS"
    else:
        cls = "NONE"
    return cls, sorted(names) + (["+reverse"] if rev else [])


# (integration, encode fn key, decode fn key, byte order demanded by the format)
PAIRS = [
    ("rlp/Uint", "crate::support::rlp::<impl rlp::traits::Encodable for %s>::rlp_append" % U,
     "crate::support::rlp::<impl rlp::traits::Decodable for %s>::decode" % U, "BE"),
    ("rlp/Bits", "crate::support::rlp::<impl rlp::traits::Encodable for %s>::rlp_append" % B,
     "crate::support::rlp::<impl rlp::traits::Decodable for %s>::decode" % B, "BE"),
    ("alloy-rlp", "crate::support::alloy_rlp::<impl alloy_rlp::encode::Encodable for %s>::encode" % U,
     "crate::support::alloy_rlp::<impl alloy_rlp::decode::Decodable for %s>::decode" % U, "BE"),
    ("fastrlp-0.3", "crate::support::fastrlp_03::<impl fastrlp::encode::Encodable for %s>::encode" % U,
     "crate::support::fastrlp_03::<impl fastrlp::decode::Decodable for %s>::decode" % U, "BE"),
    ("fastrlp-0.4", "crate::support::fastrlp_04::<impl fastrlp::encode::Encodable for %s>::encode" % U,
     "crate::support::fastrlp_04::<impl fastrlp::decode::Decodable for %s>::decode" % U, "BE"),
    ("scale/fixed", "crate::support::scale::<impl parity_scale_codec::codec::Encode for %s>::using_encoded" % U,
     "crate::support::scale::<impl parity_scale_codec::codec::Decode for %s>::decode" % U, "LE"),
    ("scale/compact", "<crate::support::scale::CompactRefUint<'_, BITS, LIMBS> as parity_scale_codec::codec::Encode>::encode_to",
     "<crate::support::scale::CompactUint<BITS, LIMBS> as parity_scale_codec::codec::Decode>::decode", "LE"),
    ("ssz", "crate::support::ssz::<impl ssz::encode::Encode for %s>::ssz_append" % U,
     "crate::support::ssz::<impl ssz::decode::Decode for %s>::from_ssz_bytes" % U, "LE"),
    ("borsh", "crate::support::borsh::<impl borsh::ser::BorshSerialize for %s>::serialize" % U,
     "crate::support::borsh::<impl borsh::de::BorshDeserialize for %s>::deserialize_reader" % U, "LE"),
    ("der", "crate::support::der::<impl der::encode::EncodeValue for %s>::encode_value" % U,
     "crate::support::der::from_der_slice", "BE"),
    ("serde/binary", "crate::support::serde::<impl %s>::serialize_binary" % U,
     "<crate::support::serde::ByteVisitor<BITS, LIMBS> as serde_core::de::Visitor<'_>>::visit_bytes", "BE"),
    ("sqlx", "crate::support::sqlx::<impl sqlx_core::encode::Encode<'a, DB> for %s>::encode_by_ref" % U,
     "crate::support::sqlx::<impl sqlx_core::decode::Decode<'a, DB> for %s>::decode" % U, "BE"),
    ("diesel", "crate::support::diesel::<impl diesel::serialize::ToSql<diesel::sql_types::Binary, Db> for %s>::to_sql" % U,
     "crate::support::diesel::<impl diesel::deserialize::FromSql<diesel::sql_types::Binary, Db> for %s>::from_sql" % U, "BE"),
]
FIXED_LEN = [
    ("ssz_fixed_len", "crate::support::ssz::<impl ssz::encode::Encode for %s>::ssz_fixed_len" % U),
    ("ssz_bytes_len", "crate::support::ssz::<impl ssz::encode::Encode for %s>::ssz_bytes_len" % U),
    ("ssz_fixed_len(decode)", "crate::support::ssz::<impl ssz::decode::Decode for %s>::ssz_fixed_len" % U),
]


def run(ctx, config="all"):
    rep = Report("R-CODEC", "per integration, encoder and decoder delegate to Uint byte-form functions of the byte order "
                 "the format defines (big-endian: to_be_*/try_from_be_slice or a little-endian producer followed by "
                 "reverse; little-endian: as_le_*/to_le_*/try_from_le_slice) and agree with each other; SSZ length "
                 "reporters evaluate to BYTES in every configuration; the postgres column-type sets of accepts, to_sql "
                 "and from_sql are equal")
    prog = ctx.prog(config)
    cg = ctx.cg(config)
    n = 0
    for name, enc, dec, order in PAIRS:
        if enc not in prog.bodies or dec not in prog.bodies:
            if config.startswith("all"):
                missing = [k for k in (enc, dec) if k not in prog.bodies]
                # a trait method of an integration is public API: fail closed.  An inherent helper of the integration
                # (`impl Uint { fn serialize_binary }`) is an implementation detail: when it is gone the pair has no
                # anchor and is not decided
                if any(" for " in m for m in missing):
                    rep.violation("missing:" + name, "", "codec function(s) not found (anchor moved): %s" % [m.replace("crate::", "") for m in missing])
                else:
                    rep.ok("missing:" + name, "", "private helper(s) %s not found: byte-order pair not decided" % [m.split("::")[-1] for m in missing])
            continue
        n += 1
        ce, ne = classify(prog, cg, enc)
        cd, nd = classify(prog, cg, dec)
        where = "%s:%s" % (prog.bodies[enc]["file"], prog.bodies[enc]["line"])
        if ce == order and cd == order:
            rep.ok(name, where, "%s: encode via %s, decode via %s" % (order, ne, nd))
        else:
            rep.violation(name, where, "%s requires %s bytes; encoder is %s (%s), decoder is %s (%s): the bytes are not the "
                          "format's encoding or do not round-trip" % (name, order, ce, ne, cd, nd))
    # fixed length reporters
    bytes_tab = prog.const_cfg.get(ir.BYTES_CONST, {})
    for label, k in FIXED_LEN:
        b = prog.bodies.get(k)
        if b is None:
            continue
        bad = None
        for cfg in ctx.cfgs():
            v = prog.view(b, cfg)
            val = None
            for rb in v.return_blocks():
                for bi in v.reachable:
                    for s in v.blocks[bi]["stmts"]:
                        if s["s"] == "assign" and s["pl"]["l"] == 0 and not s["pl"]["p"] and s["rv"]["r"] == "use":
                            val = v.const_of_operand(s["rv"]["a"])
                    t = v.blocks[bi]["term"]
                    if t["t"] == "call" and t["dest"]["l"] == 0:
                        val = v.const_of_call(t, "usize")
                        if val is None and (ir.callee_name(t["fn"]) or "").endswith("::nbytes") and t["args"]:
                            a = v.const_of_operand(t["args"][0])
                            val = (a + 7) // 8 if a is not None else None
            if val != bytes_tab.get(cfg):
                bad = (cfg, val, bytes_tab.get(cfg))
                break
        if bad:
            rep.violation(label, "%s:%s" % (b["file"], b["line"]), "%s evaluates to %s in configuration %s, BYTES is %s" % (label, bad[1], bad[0], bad[2]))
        else:
            rep.ok(label, "%s:%s" % (b["file"], b["line"]), "== BYTES in %d configurations" % len(ctx.cfgs()))
    # postgres registry
    sets = {}
    for nm, suffix in (("ToSql::accepts", "postgres_types::ToSql for %s>::accepts" % U), ("ToSql::to_sql", "postgres_types::ToSql for %s>::to_sql" % U),
                       ("FromSql::accepts", "postgres_types::FromSql<'a> for %s>::accepts" % U),
                       ("FromSql::from_sql", "postgres_types::FromSql<'a> for %s>::from_sql" % U)):
        ks = [k for k in prog.bodies if k.endswith(suffix)]
        if not ks:
            continue
        v = prog.view(ks[0], (65, 2))
        fw = [ir.callee_name(t["fn"]) or "" for _bi, t in v.calls()]
        if len(fw) == 1 and fw[0].endswith("postgres_types::ToSql for %s>::accepts" % U):
            sets[nm] = None   # forwards to ToSql::accepts
            continue
        best = set()
        for bi in sorted(v.reachable):
            t = v.blocks[bi]["term"]
            if t["t"] == "switch" and len(t["targets"]) > len(best):
                c = v.chase(t["discr"]) if t["discr"].get("o") in ("copy", "move") and not t["discr"]["p"] else None
                if c and c[0] == "rv" and c[1]["r"] == "discr":
                    best = {x[0] for x in t["targets"]}
        sets[nm] = best
    if sets:
        ref = sets.get("ToSql::accepts", set())
        for nm, sset in sets.items():
            if sset is None:
                rep.ok("postgres:" + nm, "src/support/postgres.rs", "forwards to ToSql::accepts")
            elif sset == ref and len(sset) >= 10:
                rep.ok("postgres:" + nm, "src/support/postgres.rs", "%d column types" % len(sset))
            else:
                rep.violation("postgres:" + nm, "src/support/postgres.rs", "%s handles column-type discriminants %s but ToSql::accepts "
                              "advertises %s: a type that is encoded but not decoded (or accepted but not handled) breaks the "
                              "round trip / panics for every value" % (nm, sorted(sset ^ ref), len(ref)))
    elif config.startswith("all"):
        rep.violation("postgres:missing", "src/support/postgres.rs", "postgres impls not found")
    rep.analysed = {"build_config": config, "codec_pairs": n}
    if config.startswith("all"):
        rep.floor("codec_pairs", n, 12)
    return rep


# ---------------------------------------------------------------------------------------------------------------
ENC_COMPACT = "<crate::support::scale::CompactRefUint<'_, BITS, LIMBS> as parity_scale_codec::codec::Encode>::encode_to"
DEC_COMPACT = "<crate::support::scale::CompactUint<BITS, LIMBS> as parity_scale_codec::codec::Decode>::decode"


def compact_modes(ctx, config="all"):
    """R-CODEC/compact-modes: the SCALE compact decoder accepts, in every mode, at least the values the encoder emits
    in that mode (writer's and reader's mode tables agree).

    Encoder: the interval of bit_len() in each arm of the mode match (arms identified by what they call: to::<u8>,
    to::<u16>, to::<u32>, byte_len) gives the value range emitted per mode.  Decoder: the interval of the decoded
    integer at each `Uint::try_from(x)` (arms identified by x's type and whether it was shifted right by the two
    mode bits) is the accepted range.  Both from the interval interpretation of the bodies; no input is run."""
    from . import total_rule
    rep = Report("R-CODEC/compact-modes", "SCALE compact: for every mode (single byte, two byte, four byte, big-integer "
                 "with 4 / 8 / 16 payload bytes) the value range the encoder emits in that mode is contained in the range "
                 "the decoder accepts in that mode (intervals of bit_len per encoder arm vs intervals of the decoded "
                 "integer per decoder arm)")
    prog = ctx.prog(config)
    if ENC_COMPACT not in prog.bodies or DEC_COMPACT not in prog.bodies:
        rep.violation("missing", "src/support/scale.rs", "compact encoder / decoder not found (feature parity-scale-codec off?)")
        return rep
    T = total_rule.totality(ctx, config)
    cfgs = [(256, 4)] + ([c for c in ctx.cfgs() if c in ((536, 9), (129, 3), (64, 1), (60, 1))] if ctx.tier == "thorough" else [])
    n = 0
    for cfg in cfgs:
        bits = cfg[0]
        vmax = (1 << bits) - 1
        # ---- encoder
        a = T.ai(ENC_COMPACT, cfg)
        v = a.v
        bl = [t["dest"]["l"] for _bi, t in v.calls() if (ir.callee_name(t["fn"]) or "").endswith(">::bit_len")]
        where_e = "%s:%s" % (v.body["file"], v.body["line"])
        if len(bl) != 1:
            rep.ok("encoder|bit_len", where_e, "the compact encoder does not select its mode by one bit_len() call "
                   "(%d found): the mode tables cannot be read off; not decided" % len(bl))
            rep.analysed = {"build_config": config, "mode_ranges_compared": 0}
            return rep
        enc = {}
        for bi, t in v.calls():
            nm = ir.callee_name(t["fn"]) or ""
            mode = None
            if nm.endswith("::to") and "UintTryTo" not in nm:
                targs = [x.get("n") for x in t["fn"].get("args", []) if isinstance(x, dict) and x.get("k") == "prim"]
                mode = {"u8": "single-byte", "u16": "two-byte", "u32": "four-byte"}.get(targs[-1] if targs else None)
            elif nm.endswith(">::byte_len"):
                mode = "big"
            if mode is None:
                continue
            st = a.state_before_term(bi)
            if st is None:
                continue
            iv = a.get(st, bl[0])
            if iv is None:
                continue
            lo = 0 if iv[0] == 0 else 1 << (iv[0] - 1)
            hi = min(vmax, (1 << iv[1]) - 1)
            if lo <= hi:
                enc[mode] = (lo, hi) if mode not in enc else (min(lo, enc[mode][0]), max(hi, enc[mode][1]))
        if "big" in enc:
            blo, bhi = enc.pop("big")
            for nb in (4, 8, 16):
                lo, hi = max(blo, 1 << (8 * (nb - 1))), min(bhi, (1 << (8 * nb)) - 1)
                if lo <= hi:
                    enc["big-%d" % nb] = (lo, hi)
        # ---- decoder
        d = T.ai(DEC_COMPACT, cfg)
        dv = d.v
        dec = {}
        for bi, t in dv.calls():
            nm = ir.callee_name(t["fn"]) or ""
            if not (nm.endswith("::try_from") and "TryFrom<u" in nm and "for crate::Uint<BITS, LIMBS>>" in nm):
                continue
            ty = nm.split("TryFrom<")[1].split(">")[0]
            st = d.state_before_term(bi)
            if st is None:
                continue
            iv, _k = d.eval_operand(st, t["args"][0])
            if iv is None:
                continue
            # shifted right by the mode bits?
            shifted, seen, stk = False, set(), [t["args"][0]]
            while stk:
                o = stk.pop()
                if o.get("o") not in ("copy", "move") or o["l"] in seen:
                    continue
                seen.add(o["l"])
                for _b, si, x in dv.defs.get(o["l"], []):
                    if si == "term":
                        continue
                    rv = x.get("rv") or {}
                    if rv.get("r") == "bin" and rv["op"] in ("Shr", "ShrUnchecked"):
                        shifted = True
                    stk.extend(ir.operands_of_rvalue(rv) if rv else [])
            mode = {("u8", True): "single-byte", ("u8", False): "single-byte", ("u16", True): "two-byte",
                    ("u32", True): "four-byte", ("u32", False): "big-4", ("u64", False): "big-8",
                    ("u128", False): "big-16"}.get((ty, shifted))
            if mode:
                dec[mode] = iv if mode not in dec else (min(iv[0], dec[mode][0]), max(iv[1], dec[mode][1]))
        where_d = "%s:%s" % (dv.body["file"], dv.body["line"])
        for mode, (lo, hi) in sorted(enc.items()):
            n += 1
            key = "%s|(%d,%d)" % (mode, cfg[0], cfg[1])
            acc = dec.get(mode)
            if acc is None:
                # no `Uint::try_from(x)` of that mode's integer type was located in the decoder body (the arm may live
                # in a private helper): the accepted range cannot be read off
                rep.ok(key, where_d, "the encoder emits [%d, %d] in %s mode; the decoder's arm for that mode was not located: "
                       "not decided" % (lo, hi, mode))
            elif acc[0] <= lo and hi <= acc[1]:
                rep.ok(key, where_d, "encoder emits [%d, %d], decoder accepts [%d, %d]" % (lo, hi, acc[0], acc[1]))
            else:
                miss = ("%d" % lo) if lo < acc[0] else ("%d" % hi)
                rep.violation(key, where_d, "in %s mode the encoder emits [%d, %d] but the decoder accepts only [%d, %d]: "
                              "e.g. %s is encoded and then rejected" % (mode, lo, hi, acc[0], acc[1], miss))
    rep.analysed = {"build_config": config, "configurations": ["%d,%d" % c for c in cfgs], "mode_comparisons": n}
    rep.floor("mode_comparisons", n, 1)
    return rep


RLP_FILES = ("src/support/alloy_rlp.rs", "src/support/fastrlp_03.rs", "src/support/fastrlp_04.rs", "src/support/rlp.rs")


def rlp_headers(ctx, config="all"):
    """R-CODEC/rlp-header: a header byte the Uint RLP encoders build by hand as EMPTY_STRING_CODE + n is the
    single-byte string header, which exists only for payloads of at most 55 bytes (0x80..=0xb7; 0xb8.. are the
    long-string headers).  Interval of n where the byte is computed, per configuration; the widest evaluated widths
    (512 bits and up) are the ones where a 56-byte payload exists."""
    from . import total_rule
    rep = Report("R-CODEC/rlp-header", "RLP encoders: every byte computed as 0x80 + n and written with put_u8 is a "
                 "short-string header, so n <= 55 in every configuration (interval of n where the byte is computed; "
                 "a 56-byte payload must take the long form 0xb8, len, payload)")
    prog = ctx.prog(config)
    T = total_rule.totality(ctx, config)
    n_sites = n_eval = 0
    for b in prog.fn_bodies():
        if b["file"] not in RLP_FILES or b["name"] != "encode" or b["kind"] == "Closure":
            continue
        key = b["key"].replace("crate::", "")
        where = "%s:%s" % (b["file"], b["line"])
        bad = None
        sites_here = 0
        for cfg in ctx.cfgs():
            a = T.ai(b["key"], cfg)
            v = a.v
            for bi, t in v.calls():
                if not (ir.callee_name(t["fn"]) or "").endswith("::put_u8") or len(t["args"]) < 2:
                    continue
                # chase the byte to `const 0x80 + n`
                op, hops = t["args"][1], 0
                add = None
                while op.get("o") in ("copy", "move") and hops < 6:
                    hops += 1
                    d = v.single_def(op["l"])
                    if d is None or d[1] == "term":
                        break
                    rv = d[2]["rv"]
                    if rv["r"] == "use" or (rv["r"] == "cast" and rv["kind"] == "IntToInt"):
                        op = rv["a"]
                    elif rv["r"] == "bin" and rv["op"] in ("Add", "AddWithOverflow", "AddUnchecked"):
                        add = (d[0], d[1], rv)
                        break
                    else:
                        break
                if add is None:
                    continue
                dbi, dsi, rv = add
                ca, cb = v.const_of_operand(rv["a"]), v.const_of_operand(rv["b"])
                if ca == 0x80 and cb is None:
                    other = rv["b"]
                elif cb == 0x80 and ca is None:
                    other = rv["a"]
                else:
                    continue
                sites_here += 1
                st = a.entry.get(dbi)
                if st is None:
                    continue
                st = st.copy()
                for j, s2 in enumerate(v.blocks[dbi]["stmts"]):
                    if j >= dsi:
                        break
                    if s2["s"] == "assign":
                        a.assign(st, s2)
                iv, _k = a.eval_operand(st, other)
                n_eval += 1
                if iv is None or iv[1] > 55:
                    bad = bad or (cfg, iv, v.where(dbi))
        n_sites += 1 if sites_here else 0
        if bad:
            cfg, iv, w = bad
            rep.violation(key + "|short-header", w, "the single-byte string header 0x80 + n is built where n can be %s "
                          "(configuration (%d,%d)): a payload of 56 or more bytes gets a short-string header, which is "
                          "not the RLP encoding and does not decode" % ("[%d, %d]" % iv if iv else "anything", cfg[0], cfg[1]))
        elif sites_here:
            rep.ok(key + "|short-header", where, "0x80 + n with n <= 55 in every configuration")
    rep.analysed = {"build_config": config, "encoders_with_hand_built_header": n_sites, "evaluations": n_eval,
                    "widest_configuration": "%d,%d" % max(ctx.cfgs())}
    return rep


BIT_LEN_KEY = "crate::bits::<impl crate::Uint<BITS, LIMBS>>::bit_len"


def rlp_true_length(k):
    """Length in bytes of the RLP encoding of an integer whose bit length is k."""
    if k <= 7:
        return 1                     # a single byte below 0x80 (0x80 itself for zero)
    n = (k + 7) // 8
    if n <= 55:
        return 1 + n
    return 1 + (n.bit_length() + 7) // 8 + n


def _length_of_length_summary(an, st, args):
    """Foreign post-condition (read in alloy-rlp 0.3 / fastrlp 0.3, 0.4 encode.rs): 1 for payloads below 56 bytes,
    else 1 + the number of bytes of the payload length."""
    iv, _ = an.eval_operand(st, args[0]) if args else (None, None)
    if iv is None:
        return (1, 9)
    lo = 1 if iv[0] < 56 else 1 + (iv[0].bit_length() + 7) // 8
    hi = 1 if iv[1] < 56 else 1 + (min(iv[1], (1 << 64) - 1).bit_length() + 7) // 8
    return (lo, hi)


def rlp_lengths(ctx, config="all"):
    """R-CODEC/rlp-length: `Encodable::length()` of the Uint RLP integrations can return the true encoded length.

    The function is interpreted abstractly (intervals, nothing runs) once per configuration and per bit length k of a
    boundary set, with the trusted summary `bit_len() == k` substituted for every call of Uint::bit_len in its
    call-graph closure (byte_len() and other local helpers are interpreted the same way).  The interval it returns
    over-approximates what the function can return for a value of that bit length, so a *correct* length function
    always has the true RLP length inside it; when the true length is outside, the function is wrong for every
    value of that bit length (list payload lengths are sums of length(), so such a list does not decode)."""
    from .. import absint
    rep = Report("R-CODEC/rlp-length", "RLP: for every configuration and every bit length k in a boundary set, the interval "
                 "Encodable::length() can return for a value with bit_len() == k (abstract interpretation with that "
                 "summary substituted) contains the length of the RLP encoding of such a value: 1 for k <= 7, "
                 "1 + ceil(k/8) up to 55 payload bytes, 1 + len-of-len + ceil(k/8) above")
    prog = ctx.prog(config)
    if BIT_LEN_KEY not in prog.bodies:
        rep.violation("missing:bit_len", "src/bits.rs", "Uint::bit_len not found")
        return rep
    n_fn = n_eval = 0
    for b in prog.fn_bodies():
        if b["file"] not in RLP_FILES or b["name"] != "length" or b["kind"] == "Closure" or not prog.is_cfg_generic(b):
            continue
        imp = prog.impl_of(b)
        if not imp or "Encodable" not in (imp.get("trait") or ""):
            continue
        n_fn += 1
        key = b["key"].replace("crate::", "")
        where = "%s:%s" % (b["file"], b["line"])
        bad = None
        undecided = 0
        for cfg in ctx.cfgs():
            if cfg[0] == 0:
                ks = [0]
            else:
                ks = sorted({k for k in (0, 1, 7, 8, 9, 15, 16, 17, 63, 64, 65, 440, 441, 448, cfg[0] - 1, cfg[0]) if 0 <= k <= cfg[0]})
            for k in ks:
                forced = {BIT_LEN_KEY: (lambda a_, st_, args_, k=k: (k, k))}
                for lol in ("alloy_rlp::encode::length_of_length", "fastrlp::encode::length_of_length"):
                    forced[lol] = _length_of_length_summary
                depth = [0]

                def ret_iv(callee, term, caller_ai, st, forced=forced, cfg=cfg, depth=depth):
                    cb = prog.bodies[callee]
                    if cb["kind"] not in ("Fn", "AssocFn") or len(cb["blocks"]) > 60 or depth[0] > 4:
                        return None
                    argiv = {}
                    for i, a_ in enumerate(term["args"]):
                        iv_, _ = caller_ai.eval_operand(st, a_)
                        if iv_ is not None:
                            argiv[i + 1] = iv_
                    depth[0] += 1
                    try:
                        eff = cfg if prog.is_cfg_generic(cb) else None
                        an = absint.Analysis(prog.view(callee, eff), arg_intervals=argiv, summaries=forced, ret_interval=ret_iv)
                        return an.return_interval()
                    except RuntimeError:
                        return None
                    finally:
                        depth[0] -= 1
                try:
                    an = absint.Analysis(prog.view(b["key"], cfg), summaries=forced, ret_interval=ret_iv)
                    iv = an.return_interval()
                except RuntimeError:
                    iv = None
                n_eval += 1
                want = rlp_true_length(k)
                if iv is None:
                    undecided += 1
                elif not (iv[0] <= want <= iv[1]):
                    bad = bad or (cfg, k, iv, want)
        if bad:
            cfg, k, iv, want = bad
            rep.violation(key + "|length", where, "for a value with bit_len() == %d (configuration (%d,%d)) length() can only "
                          "return [%d, %d], but the RLP encoding of such a value is %d byte(s) long: a list containing it gets a "
                          "wrong payload length and does not decode" % (k, cfg[0], cfg[1], iv[0], iv[1], want))
        elif undecided:
            rep.ok(key + "|length", where, "not decided in %d evaluation(s) (return interval unknown); consistent elsewhere" % undecided)
        else:
            rep.ok(key + "|length", where, "the true RLP length lies in the returned interval for every configuration and boundary bit length")
    rep.analysed = {"build_config": config, "length_functions": n_fn, "evaluations": n_eval}
    rep.floor("rlp-length-functions", n_fn, 3)
    return rep


DER_LEN_CONV = "<der::length::Length as core::convert::TryFrom<usize>>::try_from"


def der_lengths(ctx, config="all"):
    """R-CODEC/der-length: the DER decoder's length bound admits every length the encoder can produce.

    Encoder: the interval of the usize that `value_len` converts into a `Length`.  Decoder: the usize `decode_value`
    converts into the `Length` it compares `header.length` with (content longer than that is rejected as non
    canonical).  Per configuration: decoder bound >= largest encoder length (a value with the top bit of a
    byte-aligned width set needs BYTES + 1 content bytes, the sign byte)."""
    from . import total_rule
    rep = Report("R-CODEC/der-length", "DER: in every configuration the length bound decode_value compares header.length with "
                 "is at least the largest content length value_len can report (intervals of the usize converted to "
                 "der::Length on either side)")
    prog = ctx.prog(config)
    T = total_rule.totality(ctx, config)
    enc = [k for k in prog.bodies if "support::der::" in k and k.endswith("::value_len") and "Uint<BITS, LIMBS>" in k]
    dec = [k for k in prog.bodies if "support::der::" in k and k.endswith("::decode_value") and "Uint<BITS, LIMBS>" in k]
    if len(enc) != 1 or len(dec) != 1:
        rep.violation("missing", "src/support/der.rs", "value_len / decode_value of the DER integration not found (feature der off?)")
        return rep

    def conv_arg(key, cfg):
        a = T.ai(key, cfg)
        out = []
        for bi, t in a.v.calls():
            if (ir.callee_name(t["fn"]) or "") == DER_LEN_CONV and t["args"]:
                st = a.state_before_term(bi)
                if st is not None:
                    out.append(a.eval_operand(st, t["args"][0])[0])
        return out
    n = 0
    bad = None
    undecided = False
    for cfg in ctx.cfgs():
        e, d = conv_arg(enc[0], cfg), conv_arg(dec[0], cfg)
        if len(e) != 1 or len(d) != 1 or e[0] is None or d[0] is None:
            undecided = True
            continue
        n += 1
        if d[0][0] < e[0][1]:
            bad = bad or (cfg, e[0], d[0])
    be, bd = prog.bodies[enc[0]], prog.bodies[dec[0]]
    where = "%s:%s" % (bd["file"], bd["line"])
    if bad:
        cfg, e, d = bad
        rep.violation("decode_value|length-bound", where, "in configuration (%d,%d) value_len can report up to %d content bytes "
                      "but decode_value rejects everything longer than %d: a canonical encoding (sign byte included) does "
                      "not decode" % (cfg[0], cfg[1], e[1], d[0]))
    elif n:
        rep.ok("decode_value|length-bound", where, "decoder bound >= largest encoder length in %d configurations" % n)
    else:
        rep.ok("decode_value|length-bound", where, "the two lengths are not converted through one Length::try_from each: not decided")
    rep.analysed = {"build_config": config, "configurations_compared": n, "some_undecided": undecided}
    return rep
