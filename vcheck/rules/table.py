"""R-TABLE: constant tables for which "entry wrong => some output wrong" holds:
digit alphabets (exact finite-partition abstract evaluation of the char->digit closure),
prefix tables, formatter chunk constants, format constants as inequalities."""
from .. import absint, ir
from ..engine import Report

FROM_STR_RADIX = "crate::string::<impl crate::Uint<BITS, LIMBS>>::from_str_radix"
CLOSURE = FROM_STR_RADIX   # anchor: the function; the digit map is located inside it (closure or helper)
MAXC = 0x10FFFF


def ch(x):
    return repr(chr(x)) if 32 <= x < 127 else "U+%04X" % x


def digit_map_body(prog):
    """(body key, char local, radix local or None, result prefix): the function that holds the char -> digit map of
    from_str_radix -- the digit closure itself, or a helper it calls (wherever the char comparisons live)."""
    def char_consts(k):
        n = 0
        for blk in prog.bodies[k]["blocks"]:
            for o in ir.operands_of_block(blk):
                if o.get("o") == "const" and o.get("c") == "lit" and o.get("ty") == "char":
                    n += 1
        return n
    # from_str_radix itself, its closures (whatever their index) and the private helpers of the same file they call
    cands = [FROM_STR_RADIX] + ir.local_helpers(prog, FROM_STR_RADIX)
    best = max(cands, key=char_consts)
    b = prog.bodies[best]
    cl = rl = None
    for l in range(1, b.get("arg_count", 0) + 1):
        t = b["locals"][l]["ty"]
        if t.get("k") == "prim" and t.get("n") == "char" and cl is None:
            cl = l
        elif t.get("k") == "prim" and t.get("n") == "u64" and rl is None:
            rl = l
    out_t = b.get("output", {})
    prefix = ()
    if out_t.get("k") == "adt" and out_t.get("n") == "core::result::Result":
        prefix = (("dc", 0), ("f", 0))      # Ok(Option<digit>)
    return best, cl, rl, prefix


def partition_eval(prog, key, char_local, forced_for, arg_iv=None, prefix=()):
    """Exact evaluation of a char -> Option<digit> closure on every cell of the partition of the char
    domain induced by the constants the closure compares its input with.
    Returns [(lo, hi, 'reject'|'ignore'|'digit', (dlo, dhi) or None)]."""
    view = prog.view(key)
    cuts = {0, MAXC + 1}
    for bi in view.reachable:
        blk = view.blocks[bi]
        for s in blk["stmts"]:
            if s["s"] == "assign" and s["rv"]["r"] == "bin":
                for o in (s["rv"]["a"], s["rv"]["b"]):
                    if o.get("o") == "const" and o.get("c") == "lit" and o.get("ty") == "char":
                        cuts.update({o["v"], o["v"] + 1})
        t = blk["term"]
        if t["t"] == "switch":
            d = t["discr"]
            if d.get("o") in ("copy", "move") and d["l"] == char_local and not d["p"]:
                for val, _b in t["targets"]:
                    cuts.update({val, val + 1})
    cuts = sorted(c for c in cuts if 0 <= c <= MAXC + 1)
    forced = forced_for(view)
    out = []
    for i in range(len(cuts) - 1):
        lo, hi = cuts[i], cuts[i + 1] - 1
        aiv = dict(arg_iv or {})
        aiv[char_local] = (lo, hi)
        a = absint.Analysis(view, arg_intervals=aiv, forced=forced)
        reach = set(a.entry)
        rejected = False
        for b in reach:
            for s in view.blocks[b]["stmts"]:
                if s["s"] == "assign" and s["rv"]["r"] == "agg" and s["rv"].get("variant") == "InvalidDigit":
                    rejected = True
        if rejected:
            out.append((lo, hi, "reject", None))
            continue
        discr = payload = None
        for b in view.return_blocks():
            st = a.state_before_term(b)
            if st is None:
                continue
            d_, p_ = st.iv.get(("pl", 0, prefix + (("discr",),))), st.iv.get(("pl", 0, prefix + (("dc", 1), ("f", 0))))
            if prefix and st.iv.get(("pl", 0, (("discr",),))) == (1, 1):
                continue       # the Err(..) return of a helper: accounted for as `reject`
            discr = d_ if discr is None else (min(discr[0], d_[0]), max(discr[1], d_[1])) if d_ is not None else None
            payload = p_ if payload is None else ((min(payload[0], p_[0]), max(payload[1], p_[1])) if p_ is not None else payload)
        if discr == (0, 0):
            out.append((lo, hi, "ignore", None))
        elif discr == (1, 1) and payload is not None and payload[1] - payload[0] == hi - lo:
            out.append((lo, hi, "digit", payload))
        else:
            out.append((lo, hi, "unknown", (discr, payload)))
    return out


def _forced_radix(le36):
    def f(view):
        forced = {}
        for bi in view.reachable:
            t = view.blocks[bi]["term"]
            if t["t"] != "switch":
                continue
            d = t["discr"]
            if not (d.get("o") in ("copy", "move") and not d["p"]):
                continue
            c = view.chase(d)
            if c[0] == "call" and (ir.callee_name(c[1]["fn"]) or "").endswith("::is_some"):
                # `if err.is_some() { return None }`: analysed on the no-error-yet path
                forced[bi] = next(b for v, b in t["targets"] if v == 0)
            elif c[0] == "rv" and c[1]["r"] == "bin" and c[1]["op"] == "Le":
                lit = view.const_of_operand(c[1]["b"])
                if lit == 36 and view.const_of_operand(c[1]["a"]) is None:
                    forced[bi] = t["otherwise"] if le36 else next(b for v, b in t["targets"] if v == 0)
        return forced
    return f


def expected_le36(c):
    if 48 <= c <= 57:
        return ("digit", c - 48)
    if 97 <= c <= 122:
        return ("digit", c - 97 + 10)
    if 65 <= c <= 90:
        return ("digit", c - 65 + 10)
    if c == 95:
        return ("ignore", None)
    return ("reject", None)


def expected_b64(c):
    # documented: A-Z, a-z, 0-9, {+ -} = 62, {/ , _} = 63; '=', CR, LF ignored
    if 65 <= c <= 90:
        return ("digit", c - 65)
    if 97 <= c <= 122:
        return ("digit", c - 97 + 26)
    if 48 <= c <= 57:
        return ("digit", c - 48 + 52)
    if c in (43, 45):
        return ("digit", 62)
    if c in (47, 44, 95):
        return ("digit", 63)
    if c in (61, 13, 10):
        return ("ignore", None)
    return ("reject", None)


def char_casts(ctx, config, rep):
    """A `char` on its way to a digit value is never truncated: every narrowing integer cast of a char in the parser
    (from_str_radix, its closures and private helpers in src/string.rs) is value preserving for the interval the
    dominating checks leave (`c as u8` is fine behind `c.is_ascii()` / `c < 128`; unguarded it makes U+0131 and '1'
    indistinguishable)."""
    from . import total_rule
    prog = ctx.prog(config)
    T = total_rule.totality(ctx, config)
    n = 0
    for b in prog.fn_bodies():
        if b["file"] != "src/string.rs":
            continue
        cfg = (65, 2) if prog.is_cfg_generic(b) else None
        a = None
        v = prog.view(b, cfg)
        for bi in sorted(v.reachable):
            for si, s_ in enumerate(v.blocks[bi]["stmts"]):
                if s_["s"] != "assign" or s_["rv"]["r"] != "cast" or s_["rv"].get("kind") != "IntToInt":
                    continue
                src = s_["rv"]["a"]
                if src.get("o") not in ("copy", "move") or src["p"] or v.local_tyname(src["l"]) != "char":
                    continue
                to = v.local_tyname(s_["pl"]["l"]) if not s_["pl"]["p"] else None
                rng = absint.ty_range(to) if to else None
                if rng is None or rng[1] >= 0x10FFFF:
                    continue
                n += 1
                if a is None:
                    a = T.ai(b["key"], cfg)
                st = a.entry.get(bi)
                iv = None
                if st is not None:
                    st = st.copy()
                    for j, s2 in enumerate(v.blocks[bi]["stmts"]):
                        if j >= si:
                            break
                        if s2["s"] == "assign":
                            a.assign(st, s2)
                    iv, _k = a.eval_operand(st, src)
                elif bi not in a.entry:
                    continue      # unreachable under the intervals
                key = "%s|char-cast->%s" % (b["key"].replace("crate::", ""), to)
                if iv is None or iv[1] > rng[1]:
                    rep.violation(key, v.where(bi), "a char that can be as large as U+%04X is cast to %s: characters that differ "
                                  "only above bit %d become indistinguishable (U+0131 would be read as '1')" % (
                                      min(iv[1], 0x10FFFF) if iv else 0x10FFFF, to, ir.INT_BITS[to]))
                else:
                    rep.ok(key, v.where(bi), "operand within [%d, %d]" % iv)
    return n


def alphabets(ctx, config="all"):
    rep = Report("R-TABLE/alphabet", "the char->digit map of from_str_radix is, on every cell of the partition of the "
                 "whole char domain induced by its own comparison constants, exactly the documented alphabet: radix <= 36: "
                 "0-9, a-z = A-Z = 10..35, '_' ignored; radix 37..64: A-Z, a-z, 0-9, {+,-} = 62, {/,',',_} = 63, '=', CR, "
                 "LF ignored; every other character rejected (exact abstract evaluation, no sampling)")
    prog = ctx.prog(config)
    char_casts(ctx, config, rep)
    mkey, char_local, radix_local, prefix = digit_map_body(prog) if FROM_STR_RADIX in prog.bodies else (None, None, None, ())
    if mkey is None or char_local is None:
        # the map is not a function of a `char` parameter (the loop over the characters was inlined, say): the exact
        # evaluation has no anchor and the alphabet is not decided here (the truncation clause above still applies)
        rep.ok("alphabet-map", "src/string.rs", "no function with a char parameter holds the digit map: exact evaluation not "
               "applicable, alphabet not decided")
        rep.analysed = {"build_config": config, "cells": 0}
        return rep
    b = prog.bodies[mkey]
    n_cells = 0
    for label, le36, exp, size in (("radix<=36", True, expected_le36, 36), ("radix>36", False, expected_b64, 64)):
        arg_iv = {radix_local: ((2, 36) if le36 else (37, 64))} if radix_local is not None else None
        cells = partition_eval(prog, mkey, char_local, _forced_radix(le36), arg_iv, prefix)
        n_cells += len(cells)
        image = set()
        for lo, hi, kind, pay in cells:
            key = "%s:%s..%s" % (label, ch(lo), ch(hi))
            if kind == "unknown":
                rep.violation(key, "%s:%s" % (b["file"], b["line"]), "cell could not be evaluated exactly: %s" % (pay,))
                continue
            e_lo, e_hi = exp(lo), exp(hi)
            # expected map is affine with slope 1 inside each documented range; cells never straddle a boundary
            # of the implementation, they may straddle one of the specification
            bad = None
            for c in (lo, hi) if hi - lo < 2 else (lo, (lo + hi) // 2, hi):
                ek, ev = exp(c)
                if ek != kind:
                    bad = (c, ek, ev)
                    break
                if kind == "digit" and pay[0] + (c - lo) != ev:
                    bad = (c, ek, ev)
                    break
            if bad is None and hi - lo >= 2:
                # a specification boundary strictly inside the cell?
                for c in range(lo, hi + 1) if hi - lo <= 0x800 else ():
                    ek, ev = exp(c)
                    if ek != kind or (kind == "digit" and pay[0] + (c - lo) != ev):
                        bad = (c, ek, ev)
                        break
            if kind == "digit":
                image.update(range(pay[0], pay[1] + 1))
            if bad:
                c, ek, ev = bad
                got = kind if kind != "digit" else "digit %d" % (pay[0] + (c - lo))
                want = ek if ek != "digit" else "digit %d" % ev
                rep.violation(key, "%s:%s" % (b["file"], b["line"]), "character %s maps to <%s> but the documented "
                              "alphabet for %s says <%s>" % (ch(c), got, label, want))
            else:
                rep.ok(key, "", kind if kind != "digit" else "digits %d..%d" % pay)
        missing = sorted(set(range(size)) - image)
        if missing:
            rep.violation("%s:image" % label, "%s:%s" % (b["file"], b["line"]),
                          "digits %s of base %d have no character: strings containing them cannot be parsed" % (
                              compact(missing), size))
        else:
            rep.ok("%s:image" % label, "", "image is exactly [0,%d)" % size)
    rep.analysed = {"build_config": config, "cells": n_cells}
    rep.floor("cells", n_cells, 20)
    return rep


def compact(xs):
    out = []
    i = 0
    while i < len(xs):
        j = i
        while j + 1 < len(xs) and xs[j + 1] == xs[j] + 1:
            j += 1
        out.append("%d" % xs[i] if i == j else "%d-%d" % (xs[i], xs[j]))
        i = j + 1
    return ",".join(out)


PREFIXES = {"0x": 16, "0X": 16, "0o": 8, "0O": 8, "0b": 2, "0B": 2}
FROM_STR = "crate::string::<impl core::str::traits::FromStr for crate::Uint<BITS, LIMBS>>::from_str"


def prefixes(ctx, config="all"):
    rep = Report("R-TABLE/prefix", "the (prefix, radix) pairs recognised by FromStr are {0x,0X->16, 0o,0O->8, 0b,0B->2}; "
                 "the formatter's PREFIX per base is the lower-case member of the same table; formatter chunk constants "
                 "satisfy MAX == base^WIDTH <= u64::MAX")
    prog = ctx.prog(config)
    b = prog.bodies.get(FROM_STR)
    if b is None:
        rep.violation("from_str-missing", "src/string.rs", "FromStr::from_str for Uint not found")
        return rep
    v = prog.view(b)
    found = {}
    for bi in sorted(v.reachable):
        t = v.blocks[bi]["term"]
        if t["t"] != "call":
            continue
        n = ir.callee_name(t["fn"]) or ""
        if not n.endswith("PartialEq for str>::eq") and "PartialEq" not in n:
            continue
        lit = None
        for a in t["args"]:
            c = v.chase(a)
            if c[0] == "const" and c[1].get("c") == "str":
                lit = c[1]["v"]
        if lit is None or t["target"] is None:
            continue
        # follow the true edge to the radix literal
        tb = t["target"]
        tt = v.blocks[tb]["term"]
        radix = None
        if tt["t"] == "switch":
            nxt = tt["otherwise"]
            seen = set()
            while nxt is not None and nxt not in seen and radix is None:
                seen.add(nxt)
                for s in v.blocks[nxt]["stmts"]:
                    if s["s"] == "assign" and s["rv"]["r"] == "agg" and s["rv"].get("kind") == "tuple":
                        for o in s["rv"]["ops"]:
                            if o.get("o") == "const" and o.get("c") == "lit":
                                radix = o["v"]
                sx = v.succ.get(nxt, [])
                nxt = sx[0] if len(sx) == 1 else None
        found[lit] = radix
    where = "%s:%s" % (b["file"], b["line"])
    for k, r in sorted(PREFIXES.items()):
        if found.get(k) == r:
            rep.ok("prefix:%s" % k, where, "-> %d" % r)
        elif found.get(k) is None:
            # the literal was not located as a match arm next to a (rest, radix) pair: another idiom (strip_prefix, a
            # table); the mapping is then not decided here
            rep.ok("prefix:%s" % k, where, "prefix %r not located as a string match arm: not decided" % k)
        else:
            rep.violation("prefix:%s" % k, where, "prefix %r selects radix %s (expected %d)" % (k, found.get(k), r))
    for k in sorted(set(found) - set(PREFIXES)):
        rep.violation("prefix:%s" % k, where, "undocumented prefix %r -> %s" % (k, found[k]))
    # formatter
    bases = {"Binary": (2, "0b"), "Octal": (8, "0o"), "Decimal": (10, ""), "Hexadecimal": (16, "0x")}
    for name, (base, pre) in bases.items():
        pk = "<crate::fmt::base::%s as crate::fmt::base::Base>::" % name
        mx, w, pf = (prog.const_concrete.get(pk + x) for x in ("MAX", "WIDTH", "PREFIX"))
        if mx is None or w is None or pf is None:
            rep.ok("fmt:%s" % name, "src/fmt.rs", "formatter constants MAX / WIDTH / PREFIX of %s not found under those names "
                   "(%s, %s, %s): not decided" % (name, mx, w, pf))
            continue
        if pf != pre:
            rep.violation("fmt:%s:PREFIX" % name, "src/fmt.rs", "PREFIX %r differs from the parser's lower-case prefix %r: "
                          "`{:#x}`-style output would not parse back" % (pf, pre))
        else:
            rep.ok("fmt:%s:PREFIX" % name, "src/fmt.rs", repr(pf))
        if mx == base ** w and mx <= (1 << 64) - 1 and w >= 1:
            rep.ok("fmt:%s:MAX" % name, "src/fmt.rs", "%d == %d^%d" % (mx, base, w))
        else:
            rep.violation("fmt:%s:MAX" % name, "src/fmt.rs", "MAX = %d is not %d^WIDTH (WIDTH = %d) or exceeds u64: chunks after "
                          "the first are zero-padded to WIDTH digits, so digits would be lost or duplicated" % (mx, base, w))
    rep.analysed = {"build_config": config, "prefixes_found": found}
    return rep
