"""R-FACADE: forwarding fidelity of every facade function (C20), and R-SIBLING for subtle."""
import re

from .. import ir
from ..engine import Report

UINT_T = "crate::Uint<BITS, LIMBS>"

# callees that only move / wrap / view a value
PLUMBING_SUFFIX = (
    "core::clone::Clone>::clone",
    "::as_uint", "::as_uint_mut", "::into_inner",
    "crate::Uint::<BITS, LIMBS>::as_limbs",
    "<crate::bit_arr::Bits<BITS, LIMBS> as core::convert::From<crate::Uint<BITS, LIMBS>>>::from",
    "crate::bit_arr::<impl core::convert::From<crate::bit_arr::Bits<BITS, LIMBS>> for crate::Uint<BITS, LIMBS>>::from",
)


AMOUNT_CONVERSION = re.compile(r"^crate::from::<impl core::convert::TryFrom<&?crate::Uint<BITS, LIMBS>> for usize>::try_from$")


_PROG = [None]


def is_plumbing(name):
    # the checked Uint -> usize conversion of a Uint-typed shift amount is argument plumbing
    if any(name.endswith(s) for s in PLUMBING_SUFFIX) or bool(AMOUNT_CONVERSION.match(name)):
        return True
    # a private helper that returns no Uint / Bits (an amount conversion, a predicate, an index computation) cannot be
    # the operation the facade stands for: argument / condition plumbing
    prog = _PROG[0]
    b = prog.bodies.get(name) if prog is not None else None
    if b is not None and b["kind"] in ("Fn", "AssocFn") and b.get("vis") != "pub" and not (prog.impl_of(b) or {}).get("trait") \
            and "output" in b and not ir.ty_contains(b["output"], lambda t: ir.is_uint_ty(t, True)):
        return True
    return False


# The oracle: facade `Trait::method` -> delegate method names accepted besides the same name.
# Read off the code once (DESIGN R-FACADE) and frozen; a facade sent anywhere else is a violation.
EXPLICIT = {
    # (an operator may also be written through its own in-place form: `a op= b; a`)
    "Add::add": ["wrapping_add", "add_assign"], "AddAssign::add_assign": ["wrapping_add"],
    "Sub::sub": ["wrapping_sub", "sub_assign"], "SubAssign::sub_assign": ["wrapping_sub"],
    "Mul::mul": ["wrapping_mul", "mul_assign"], "MulAssign::mul_assign": ["wrapping_mul"],
    "Div::div": ["wrapping_div", "div_assign"], "DivAssign::div_assign": ["wrapping_div"],
    "Rem::rem": ["wrapping_rem", "rem_assign"], "RemAssign::rem_assign": ["wrapping_rem"],
    "Neg::neg": ["wrapping_neg"],
    "Shl::shl": ["wrapping_shl"], "ShlAssign::shl_assign": ["shl"],
    "Shr::shr": ["wrapping_shr"], "ShrAssign::shr_assign": ["shr"],
    "BitAnd::bitand": ["bitand_assign"], "BitOr::bitor": ["bitor_assign"], "BitXor::bitxor": ["bitxor_assign"],
    "CheckedEuclid::checked_div_euclid": ["checked_div"], "CheckedEuclid::checked_rem_euclid": ["checked_rem"],
    "Euclid::div_euclid": ["wrapping_div"], "Euclid::rem_euclid": ["wrapping_rem"],
    "FromBytes::from_be_bytes": ["try_from_be_slice"], "FromBytes::from_le_bytes": ["try_from_le_slice"],
    "ToBytes::to_be_bytes": ["to_be_bytes_vec"], "ToBytes::to_le_bytes": ["to_le_bytes_vec"],
    "FromPrimitive::from_i64": ["try_from:TryFrom<i64> for"], "FromPrimitive::from_u64": ["try_from:TryFrom<u64> for"],
    "FromPrimitive::from_i128": ["try_from:TryFrom<i128> for"], "FromPrimitive::from_u128": ["try_from:TryFrom<u128> for"],
    "ToPrimitive::to_i64": ["try_from:for i64>"], "ToPrimitive::to_u64": ["try_from:for u64>"],
    "ToPrimitive::to_i128": ["try_from:for i128>"], "ToPrimitive::to_u128": ["try_from:for u128>"],
    "NumCast::from": ["try_from:TryFrom<u128> for"],
    "Index::index": ["bit"],
    "Integer::dec": ["sub_assign"], "Integer::inc": ["add_assign"],
    "Integer::div_floor": ["wrapping_div"], "Integer::mod_floor": ["wrapping_rem"],
    "Integer::div_mod_floor": ["div_rem"], "Integer::extended_gcd": ["gcd_extended"],
    "Integer::is_even": ["bit", "is_odd"], "Integer::is_odd": ["bit", "is_even"],
    "Inv::inv": ["inv_ring"],
    "PrimInt::from_be": ["swap_bytes"], "PrimInt::to_be": ["swap_bytes"],
    "PrimInt::signed_shl": ["shl"], "PrimInt::unsigned_shl": ["shl"],
    "PrimInt::signed_shr": ["arithmetic_shr"], "PrimInt::unsigned_shr": ["shr"],
}

# facades whose result is the delegate's result through exactly these value operations
RESULT_OPS = {
    "Integer::is_even": {"Not"},
}
# ... unless the delegate is the complementary sibling facade (`is_even = !is_odd`, `is_odd = !is_even`)
RESULT_OPS_BY_DELEGATE = {
    ("Integer::is_even", "is_odd"): {"Not"}, ("Integer::is_odd", "is_even"): {"Not"},
}
# constant second arguments
CONST_ARGS = {
    "Integer::inc": "ONE", "Integer::dec": "ONE", "Integer::is_even": 0, "Integer::is_odd": 0,
}

CONST_DELEGATES = {
    "Zero::zero": ["ZERO"], "One::one": ["ONE"], "Bounded::min_value": ["MIN", "ZERO"], "Bounded::max_value": ["MAX"],
}
FOLD_DELEGATES = {
    "Sum::sum": ("ZERO", ["wrapping_add", "add"]), "Product::product": ("ONE", ["wrapping_mul", "mul"]),
}
# composite facades: expected multiset of non-plumbing local callees (by method name)
# (names are normalised: the operator, its wrapping_ inherent and its _assign form are one operation in ruint, so
# a rewrite between them is not a deviation; each entry lists the accepted alternatives)
COMPOSITES = {
    "MulAdd::mul_add": [["add", "mul"]],
    "MulAddAssign::mul_add_assign": [["add", "mul"], ["mul_add"]],
    "Integer::is_multiple_of": [["eq", "is_zero", "is_zero", "rem"]],
    "PrimInt::pow": [["from", "pow"]],
    "Zeroize::zeroize@Bits": [["zeroize"]],
}


# composites whose inherent composition is total (wrapping operations only): a limb-level re-implementation is
# accepted when it is total and canonical
REIMPLEMENTABLE = {"MulAdd::mul_add", "MulAddAssign::mul_add_assign"}


OBSERVERS = {"eq", "ne", "is_zero", "const_is_zero", "cmp", "partial_cmp", "lt", "le", "gt", "ge", "bit", "bit_len"}


def norm_op(n):
    if n.startswith("wrapping_"):
        n = n[len("wrapping_"):]
    if n.endswith("_assign"):
        n = n[:-len("_assign")]
    return n
# not forwards at all: base implementations, views, identities, derives (R-CANON / other rules cover them)
BASE_IMPLS = {
    "BitOrAssign::bitor_assign@&Uint", "BitAndAssign::bitand_assign@&Uint", "BitXorAssign::bitxor_assign@&Uint",
    "Bits::into_inner", "Bits::as_uint", "Bits::as_uint_mut", "From::from", "Zeroize::zeroize@Uint",
    "PrimInt::from_le", "PrimInt::to_le", "Zero::is_zero", "Bits::as_limbs",
    # no inherent twin: the facade method is the implementation (its canonical result is R-CANON's business)
    "PrimInt::swap_bytes",
}
COMMUTATIVE = {"BitAnd::bitand", "BitOr::bitor", "BitXor::bitxor", "Add::add", "Mul::mul"}
# the delegate's boolean result selects the returned constant (Index<usize> for Bits returns &true / &false)
CONTROL_RESULT = {"Index::index"}
FACADE_CFG = (65, 2)   # facades are analysed on the CFG pruned for a non-zero, non-aligned configuration


def facade_bodies(prog):
    out = []
    for b in prog.fn_bodies():
        if b["kind"] == "Closure":
            continue
        f = b["file"]
        imp = prog.impl_of(b)
        tr = (imp or {}).get("trait")
        if imp and imp.get("derived"):
            continue
        if f in ("src/support/num_traits.rs", "src/support/num_integer.rs", "src/support/zeroize.rs"):
            if tr:
                out.append(b)
        elif f == "src/bit_arr.rs":
            out.append(b)
        elif tr and tr.startswith("core::ops::") and f in ("src/bits.rs", "src/add.rs", "src/mul.rs", "src/div.rs"):
            out.append(b)
        elif tr and ("accum::Sum" in tr or "accum::Product" in tr):
            out.append(b)
    return out


def fkey(prog, b):
    imp = prog.impl_of(b)
    tr = (imp or {}).get("trait")
    if tr:
        return tr.split("::")[-1] + "::" + b["name"]
    if imp and imp["self_s"].startswith("crate::bit_arr::Bits"):
        return "Bits::" + b["name"]
    return "inherent::" + b["name"]


class Slice:
    """Flow-insensitive backward slice of a body from a set of operands."""

    def __init__(self, view):
        self.v = view
        self.params = set()
        self.local_calls = []
        self.foreign_calls = []
        self.ops = set()
        self.consts = set()
        self.lits = set()
        self.index_locals = set()   # locals used as array / slice indices on the way
        self._seen = set()

    def operand(self, op):
        o = op.get("o")
        if o == "const":
            c = op.get("c")
            if c == "uneval":
                self.consts.add(op["def"].split("::")[-1])
            elif c == "lit":
                self.lits.add(op.get("sv", op["v"]))
            elif c == "fn":
                k = op.get("res") or op.get("def")
                if k in self.v.prog.bodies:
                    self.local_calls.append(k)
            return
        if o in ("copy", "move"):
            # field-sensitive through a tuple / struct literal: `(a, b).0` is `a`
            if op["p"] and isinstance(op["p"][0], list) and op["p"][0][0] == "f" and not self.v.is_arg(op["l"]):
                d = self.v.single_def(op["l"])
                if d is not None and d[1] != "term" and d[2]["rv"]["r"] == "agg" and d[2]["rv"].get("kind") in ("tuple", "adt") \
                        and op["p"][0][1] < len(d[2]["rv"]["ops"]):
                    inner = d[2]["rv"]["ops"][op["p"][0][1]]
                    if inner.get("o") in ("copy", "move"):
                        self.operand({"o": "copy", "l": inner["l"], "p": inner["p"] + op["p"][1:]})
                    else:
                        self.operand(inner)
                    return
            self.local(op["l"])
            for e in op["p"]:
                if isinstance(e, list) and e[0] == "idx":
                    self.index_locals.add(self._canon_local(e[1]))
                    self.local(e[1])

    def _canon_local(self, l, depth=8):
        """The variable a temporary is a plain copy of (index temporaries are re-copied before every use)."""
        while depth > 0:
            depth -= 1
            d = self.v.single_def(l)
            if d is None or d[1] == "term":
                return l
            rv = d[2]["rv"]
            if rv["r"] == "use" and rv["a"].get("o") in ("copy", "move") and not rv["a"]["p"]:
                l = rv["a"]["l"]
            else:
                return l
        return l

    def local(self, l):
        if l in self._seen:
            return
        self._seen.add(l)
        v = self.v
        if v.is_arg(l):
            self.params.add(l)
            return   # the value on entry; writes through `*self = ..` are results, not inputs
        for bi, si, s in v.defs.get(l, []):
            if bi not in v.reachable:
                continue
            if si == "term":
                name = ir.callee_name(s["fn"]) or "?"
                if name in v.prog.bodies:
                    self.local_calls.append(name)
                else:
                    self.foreign_calls.append(name)
                for a in s["args"]:
                    self.operand(a)
                # fn items passed as generic args (map(Self::from)); closures passed to combinators
                f = s["fn"]
                for a in f.get("args", []):
                    if a.get("k") == "fndef" and a["def"] in v.prog.bodies:
                        self.local_calls.append(a["def"])
                    elif a.get("k") == "closure" and a.get("def") in v.prog.bodies:
                        self.closure(a["def"])
            else:
                rv = s.get("rv")
                if rv is None:
                    continue
                k = rv["r"]
                if k in ("use", "repeat", "cast"):
                    self.operand(rv["a"])
                elif k == "bin":
                    self.ops.add(rv["op"])
                    self.operand(rv["a"])
                    self.operand(rv["b"])
                elif k == "un":
                    if rv["op"] != "PtrMetadata":
                        self.ops.add(rv["op"])
                    self.operand(rv["a"])
                elif k in ("ref", "rawptr", "discr"):
                    self.operand({"o": "copy", "l": rv["pl"]["l"], "p": rv["pl"]["p"]})
                elif k == "agg":
                    if rv.get("kind") == "closure" and rv.get("def") in v.prog.bodies:
                        self.closure(rv["def"])
                    for o in rv["ops"]:
                        self.operand(o)

    def closure(self, key, depth=0):
        """A closure handed to an iterator combinator (fold / map / for_each): the local functions it calls are part
        of what the facade computes with."""
        if ("closure", key) in self._seen or depth > 3:
            return
        self._seen.add(("closure", key))
        prog = self.v.prog
        cv = prog.view(key, self.v.cfg)
        for bi, t in cv.calls():
            name = ir.callee_name(t["fn"]) or "?"
            if name in prog.bodies:
                if prog.bodies[name]["kind"] == "Closure":
                    self.closure(name, depth + 1)
                else:
                    self.local_calls.append(name)
            else:
                self.foreign_calls.append(name)
            for a in t["fn"].get("args", []):
                if a.get("k") == "fndef" and a["def"] in prog.bodies:
                    self.local_calls.append(a["def"])
                elif a.get("k") == "closure" and a.get("def") in prog.bodies:
                    self.closure(a["def"], depth + 1)
        for bi in cv.reachable:
            for o in ir.operands_of_block(cv.blocks[bi]):
                if o.get("o") == "const" and o.get("c") == "uneval":
                    self.consts.add(o["def"].split("::")[-1])


def closure_calls(prog, v):
    """Non-plumbing local calls inside closures this body hands to a callee: [(closure key, closure view, block, call,
    callee, parent block)]."""
    out = []
    for bi, t in v.calls():
        cks = [a["def"] for a in t["fn"].get("args", []) if a.get("k") == "closure" and a.get("def") in prog.bodies]
        for ck in cks:
            cv = prog.view(ck, v.cfg)
            for cbi, ct in cv.calls():
                n = ir.callee_name(ct["fn"])
                if n in prog.bodies and not is_plumbing(n) and prog.bodies[n]["kind"] != "Closure":
                    out.append((ck, cv, cbi, ct, n, bi))
    return out


def upvar_of(cv, op, depth=8):
    """Index of the captured variable an operand of a closure body is a copy / reborrow of, or None."""
    while depth > 0:
        depth -= 1
        if op.get("o") not in ("copy", "move"):
            return None
        if op["l"] == 1:
            fs = [e for e in op["p"] if isinstance(e, list) and e[0] == "f"]
            return fs[0][1] if len(fs) == 1 else None
        if [e for e in op["p"] if e != "deref"]:
            return None
        d = cv.single_def(op["l"])
        if d is None or d[1] == "term":
            return None
        rv = d[2]["rv"]
        if rv["r"] == "use":
            op = rv["a"]
        elif rv["r"] == "ref":
            op = {"o": "copy", "l": rv["pl"]["l"], "p": rv["pl"]["p"]}
        else:
            return None
    return None


def captured_operand(v, ck, k):
    """The operand of the parent body captured as upvar k of closure ck."""
    for bi in v.reachable:
        for s in v.blocks[bi]["stmts"]:
            if s["s"] == "assign" and s["rv"]["r"] == "agg" and s["rv"].get("kind") == "closure" and s["rv"].get("def") == ck:
                ops = s["rv"]["ops"]
                return ops[k] if k < len(ops) else None
    return None


def run(ctx, config="all", traits=None, floor=None):
    """traits: restrict to the core::ops / Sum / Product impls on Uint of these traits (e.g. {"Sub", "SubAssign"}): the
    operator surface of one arithmetic property; floor: the number of such impls counted by hand."""
    rep = Report("R-FACADE" if traits is None else "R-FACADE/operators", "every facade function (operator impls in all by-value/by-ref/assign shapes, the Bits "
                 "wrapper, num-traits, num-integer, Sum/Product, Zeroize) forwards to the inherent method the oracle "
                 "table names: resolved delegate identity, argument provenance (parameter i -> argument i through "
                 "moves, borrows, casts and wrappers only), no self-recursion, result returned through wrappers only")
    prog = ctx.prog(config)
    _PROG[0] = prog
    bodies = facade_bodies(prog)
    deleg = {}
    if traits is not None:
        bodies = [b for b in bodies if b["file"] in ("src/bits.rs", "src/add.rs", "src/mul.rs", "src/div.rs")
                  and fkey(prog, b).split("::")[0] in traits]
    counts = {}
    for b in bodies:
        v = prog.view(b, FACADE_CFG)
        imp = prog.impl_of(b)
        fk = fkey(prog, b)
        key = b["key"].replace("crate::", "")
        where = "%s:%s" % (b["file"], b["line"])
        counts[b["file"]] = counts.get(b["file"], 0) + 1
        self_s = (imp or {}).get("self_s", "")
        targ = ""
        if imp and imp.get("trait_args"):
            ta = imp["trait_args"][0]
            if ta.get("k") == "ref" and ta["t"].get("n") == ir.UINT:
                targ = "@&Uint"
        variant = fk + targ
        if fk == "Zeroize::zeroize":
            variant = fk + ("@Bits" if "Bits" in self_s else "@Uint")
        # local non-plumbing calls on the pruned CFG
        calls = []
        for bi, t in v.calls():
            n = ir.callee_name(t["fn"])
            if n in prog.bodies and not is_plumbing(n):
                calls.append((bi, t, n))
        names = sorted(prog.bodies[n]["name"] for _bi, _t, n in calls)
        # self recursion
        if any(n == b["key"] for _bi, _t, n in calls):
            rep.violation(key + "|recursion", where, "%s calls itself: the trait method resolves to the facade, not to the "
                          "inherent method (unconditional recursion)" % fk)
            continue
        if variant in BASE_IMPLS or fk in BASE_IMPLS:
            rep.ok(key, where, "base implementation / view / identity (not a forward; covered by R-CANON and signatures)")
            continue
        if fk in CONST_DELEGATES:
            sl = Slice(v)
            sl.local(0)
            if sl.consts and sl.consts <= set(CONST_DELEGATES[fk]) and not sl.local_calls and not sl.ops:
                rep.ok(key, where, "returns %s" % sorted(sl.consts))
            else:
                rep.violation(key, where, "%s must return %s; body yields consts %s, calls %s" % (
                    fk, CONST_DELEGATES[fk], sorted(sl.consts), [short(c) for c in sl.local_calls]))
            continue
        if fk in FOLD_DELEGATES:
            init, fns = FOLD_DELEGATES[fk]
            sl = Slice(v)
            sl.local(0)
            # a private worker shared by the by-value and the by-reference impl is part of the facade
            for hk in [c for c in list(sl.local_calls) if prog.bodies[c].get("vis") != "pub"
                       and not (prog.impl_of(prog.bodies[c]) or {}).get("trait") and prog.bodies[c]["file"] == b["file"]][:2]:
                hv = prog.view(hk, FACADE_CFG)
                hs = Slice(hv)
                hs.local(0)
                sl.consts |= hs.consts
                sl.local_calls = [c for c in sl.local_calls if c != hk] + hs.local_calls
                sl.foreign_calls += hs.foreign_calls
            fn_items = sorted({norm_op(prog.bodies[c]["name"]) for c in sl.local_calls})
            # an accumulation -- Iterator::fold or an explicit loop -- that starts from the neutral element and
            # combines with the inherent operation only (how the iteration is written is not prescribed)
            via = [c for c in sl.foreign_calls if c in ("core::iter::traits::iterator::Iterator::sum",
                                                       "core::iter::traits::iterator::Iterator::product")]
            if sl.consts == {init} and len(fn_items) == 1 and fn_items[0] in [norm_op(f) for f in fns]:
                rep.ok(key, where, "accumulates from %s with %s" % (init, fn_items[0]))
            elif fn_items == [b["name"]] and not sl.consts and any(
                    prog.bodies[c]["key"] != b["key"] and fkey(prog, prog.bodies[c]) == fk for c in sl.local_calls):
                # `Product<&Self>` calling `<Self as Product<Self>>::product(iter.copied())`
                rep.ok(key, where, "forwards to the sibling impl of the same trait")
            elif via and not fn_items and (via[0].endswith("::sum")) == fk.startswith("Sum"):
                # `iter.copied().sum()`: the by-reference impl forwards to the by-value impl of the same trait
                rep.ok(key, where, "forwards to the sibling impl through %s" % via[0].split("::")[-1])
            else:
                rep.violation(key, where, "%s must accumulate from %s with %s; found initial constant(s) %s, function(s) %s" % (
                    fk, init, "|".join(fns), sorted(sl.consts), fn_items))
            continue
        if variant in COMPOSITES or fk in COMPOSITES:
            # compared as SETS of operations, observers (is_zero, ==, <, cmp ...) left out: how often a zero test is
            # made, and whether it is spelled is_zero() or == ZERO, is not part of what the facade computes
            # inside a composite the checked_ form of an operation is that operation with its failure case matched
            # explicitly (`match a.checked_rem(b) { Some(r) => .., None => .. }` for `if b.is_zero() {..} a % b`)
            def comp_op(n_):
                n_ = norm_op(n_)
                return n_[len("checked_"):] if n_.startswith("checked_") else n_
            want = [sorted({comp_op(x) for x in w} - OBSERVERS) for w in COMPOSITES.get(variant, COMPOSITES.get(fk))]
            got = sorted({comp_op(n) for n in names} - OBSERVERS)
            if got in want:
                rep.ok(key, where, "composite of %s" % got)
            elif fk in REIMPLEMENTABLE and any(prog.bodies[c[2]]["file"].startswith("src/algorithms") or
                                               prog.bodies[c[2]]["name"] in ("from_limbs", "as_limbs_mut", "into_limbs")
                                               for c in calls):
                # not a composition of inherent operations but an implementation on limbs (e.g. a fused mul-add):
                # the inherent composition is total and canonical, so the re-implementation must be; value agreement
                # of a re-implementation is arithmetic and is not decided
                from . import canon, total_rule
                T = total_rule.totality(ctx, config)
                bad = []
                for cfg in ctx.cfgs():
                    for r in T.residuals(b["key"], cfg):
                        bad.append("reaches %s `%s` at %s in (%d,%d)" % (r.origin_kind, short(r.origin_what), r.origin_where,
                                                                        cfg[0], cfg[1]))
                        break
                    if bad:
                        break
                if not bad:
                    ev = canon.function_events(ctx, config, b["key"])
                    if ev:
                        bad.append("%s at %s in (%d,%d)" % (ev[0][0], ev[0][1], ev[0][2][0], ev[0][2][1]))
                if bad:
                    rep.violation(key, where, "%s is re-implemented on limbs instead of composing %s, and the "
                                  "re-implementation %s, which the inherent composition never does" % (
                                      fk, " or ".join(str(w) for w in want), bad[0]))
                else:
                    rep.ok(key, where, "re-implemented on limbs; total and canonical in every configuration (value "
                                       "agreement of a re-implementation is not decided)")
            else:
                rep.violation(key, where, "%s is expected to be composed of %s; calls %s" % (
                    fk, " or ".join(str(w) for w in want), names))
            continue
        if len(calls) == 0:
            # the delegate call sits in a closure handed to a combinator: `try_from(rhs).map_or(ZERO, |r| self.op(r))`,
            # `n.to_u128().and_then(|n| Self::try_from(n).ok())`
            cc = closure_calls(prog, v)
            if len(cc) == 1:
                ck, cv, cbi, ct, dname, pbi = cc[0]
                d = prog.bodies[dname]
                allowed = [b["name"]] + EXPLICIT.get(fk, [])
                ok = any((d["name"] == a.split(":", 1)[0] and a.split(":", 1)[1] in dname) if ":" in a else
                         (d["name"] == a or norm_op(d["name"]) == norm_op(a)) for a in allowed)
                if not ok:
                    rep.violation(key, where, "%s forwards (inside a closure) to %s; the oracle table allows only %s" % (
                        fk, short(dname), allowed))
                    continue
                bad = None
                for j, a in enumerate(ct["args"]):
                    up = upvar_of(cv, a)
                    if up is None:
                        continue      # the value the combinator hands to the closure: not decided
                    cap = captured_operand(v, ck, up)
                    if cap is None:
                        continue
                    sl = Slice(v)
                    sl.operand(cap)
                    if sl.params and sl.params != {j + 1} and not (fk in COMMUTATIVE and len(sl.params) == 1):
                        bad = "argument %d of the delegate (captured by the closure) derives from parameter(s) %s of the " \
                              "facade (expected parameter %d): operands swapped" % (j, sorted(sl.params), j + 1)
                        break
                if bad:
                    rep.violation(key + "|args", where, "%s -> %s: %s" % (fk, short(dname), bad))
                else:
                    rep.ok(key, where, "%s -> %s (inside a closure handed to a combinator; the value the combinator passes "
                                       "on is not decided)" % (fk, short(dname)))
                continue
        if len(calls) != 1:
            # Shl<Uint>/Shr<Uint>: wrapping_sh*(self, amount read from rhs) -- the amount read is R-LOWLIMB's business
            if fk in ("Shl::shl", "Shr::shr") and len(calls) == 1:
                pass
            else:
                rep.violation(key, where, "%s matches no facade shape: %d non-plumbing local calls %s (expected exactly one "
                              "delegate)" % (fk, len(calls), names))
                continue
        bi, t, dname = calls[0]
        d = prog.bodies[dname]
        deleg[b["key"]] = dname
        allowed = [b["name"]] + EXPLICIT.get(fk, [])
        ok = False
        for a in allowed:
            if ":" in a:
                nm, frag = a.split(":", 1)
                if d["name"] == nm and frag in dname:
                    ok = True
            elif d["name"] == a or norm_op(d["name"]) == norm_op(a):
                ok = True     # op, wrapping_op and op_assign are one operation in ruint (the operators are wrapping)
        # a same-name delegate must be a *different* function computing the same operation:
        if not ok and d.get("vis") != "pub" and not (prog.impl_of(d) or {}).get("trait") and d["file"] == b["file"] \
                and fk.split("::")[0] in ("BitAnd", "BitOr", "BitXor", "BitAndAssign", "BitOrAssign", "BitXorAssign"):
            # the bit operators have no inherent twin: their impls ARE the implementation.  Written through a private
            # worker of the same file (`zip_limbs_with(self, rhs, |a, b| a | b)`), which operation the worker applies is
            # arithmetic and not decided; totality and canonical results are R-TOTAL's and R-CANON's
            rep.ok(key, where, "%s is implemented through the private worker %s: not decided" % (fk, short(dname)))
            continue
        if not ok:
            rep.violation(key, where, "%s forwards to %s; the oracle table allows only %s" % (fk, short(dname), allowed))
            continue
        # direction consistency for same-name forwards across traits (shl vs shr etc. are different names already)
        # argument provenance
        bad = None
        swapped_checked = False
        for j, a in enumerate(t["args"]):
            sl = Slice(v)
            sl.operand(a)
            non_pl = [c for c in sl.local_calls if not is_plumbing(c)]
            if non_pl:
                bad = "argument %d of the delegate passes through %s" % (j, [short(c) for c in non_pl])
                break
            if sl.ops - {"Not"} and fk not in ("Shl::shl", "Shr::shr"):
                bad = "argument %d of the delegate is computed with %s" % (j, sorted(sl.ops))
                break
            if not sl.params:
                want_c = CONST_ARGS.get(fk)
                got = (sl.consts | sl.lits)
                if want_c is not None and got == {want_c}:
                    continue
                if j >= v.nargs and not got:
                    continue
                if want_c is None and got and j >= v.nargs:
                    continue
                bad = "argument %d of the delegate is the constant %s (expected %s)" % (j, sorted(map(str, got)), want_c)
                break
            if fk in COMMUTATIVE and len(sl.params) == 1 and len(t["args"]) == 2 and not swapped_checked:
                # commutative bit operation: the two operands may be exchanged, but both must be used
                other = Slice(v)
                other.operand(t["args"][1 - j])
                if other.params and other.params != sl.params and (sl.params | other.params) == {1, 2}:
                    swapped_checked = True
                    break
            if sl.params != {j + 1}:
                bad = "argument %d of the delegate derives from parameter(s) %s of the facade (expected parameter %d): " \
                      "operands swapped or dropped" % (j, sorted(sl.params), j + 1)
                break
        if bad:
            rep.violation(key + "|args", where, "%s -> %s: %s" % (fk, short(dname), bad))
            continue
        # result provenance
        out_sl = Slice(v)
        out_sl.local(0)
        for l in range(1, v.nargs + 1):
            lt = v.local_ty(l)
            if lt.get("k") == "ref" and lt.get("m"):
                # assign forms write through &mut self
                for bi2, blk in enumerate(v.blocks):
                    if bi2 not in v.reachable:
                        continue
                    for s in blk["stmts"]:
                        if s["s"] == "assign" and s["pl"]["l"] == l and "deref" in s["pl"]["p"]:
                            for o in ir.operands_of_rvalue(s["rv"]):
                                out_sl.operand(o)
        # delegates that mutate their first argument in place (`self |= rhs; self`)
        mutates = d.get("inputs") and d["inputs"][0].get("k") == "ref" and d["inputs"][0].get("m")
        if mutates and dname not in out_sl.local_calls:
            a0 = Slice(v)
            a0.operand(t["args"][0])
            if out_sl.params and out_sl.params <= a0.params | {1} and not (out_sl.ops - {"PtrMetadata"}):
                rep.ok(key, where, "%s -> %s (in place)" % (fk, short(dname)))
                continue
        if fk in CONTROL_RESULT and dname not in out_sl.local_calls:
            used = False
            for bi2 in v.reachable:
                t2 = v.blocks[bi2]["term"]
                if t2["t"] == "switch":
                    cs = Slice(v)
                    cs.operand(t2["discr"])
                    if dname in cs.local_calls:
                        used = True
            if used:
                rep.ok(key, where, "%s -> %s (result selects the returned constant)" % (fk, short(dname)))
                continue
        extra = sorted({short(c) for c in out_sl.local_calls if not is_plumbing(c) and c != dname})
        want_ops = RESULT_OPS_BY_DELEGATE.get((fk, d["name"]), RESULT_OPS.get(fk, set()))
        got_ops = out_sl.ops - {"PtrMetadata"}
        if fk in ("Shl::shl", "Shr::shr"):
            got_ops = set()
        if extra:
            rep.violation(key + "|result", where, "%s: the returned value also depends on %s" % (fk, extra))
        elif got_ops != want_ops:
            rep.violation(key + "|result", where, "%s: the delegate's result is modified by %s before it is returned "
                          "(expected %s)" % (fk, sorted(got_ops), sorted(want_ops) or "no operation"))
        elif dname not in out_sl.local_calls and b["output"].get("k") != "tuple" or \
                (b["output"].get("k") == "tuple" and not b["output"]["ts"] and False):
            # unit-returning assign forms: handled above through the &mut write
            if b["output"].get("k") == "tuple" and not b["output"]["ts"]:
                rep.ok(key, where, "%s -> %s" % (fk, short(dname)))
            else:
                rep.violation(key + "|result", where, "%s: the delegate's result does not reach the return value" % fk)
        else:
            rep.ok(key, where, "%s -> %s" % (fk, short(dname)))
    for a_, d_ in sorted(deleg.items()):
        if deleg.get(d_) == a_ and a_ < d_:
            rep.violation(a_.replace("crate::", "") + "|mutual-recursion", "", "%s and %s forward to each other: unconditional "
                          "recursion" % (short(a_), short(d_)))
    rep.analysed = {"build_config": config, "facades": len(bodies), "per_file": counts}
    if traits is not None:
        rep.analysed["traits"] = sorted(traits)
        rep.floor("operator impls of %s" % "/".join(sorted(traits)), len(bodies), floor or 1)
    elif config.startswith("all"):
        rep.floor("facades", len(bodies), 290)
        rep.floor("bits.rs operator impls", counts.get("src/bits.rs", 0), 100)
        rep.floor("bit_arr.rs", counts.get("src/bit_arr.rs", 0), 60)
        rep.floor("num_traits.rs", counts.get("src/support/num_traits.rs", 0), 68)
        rep.floor("num_integer.rs", counts.get("src/support/num_integer.rs", 0), 13)
    return rep


def short(k):
    return k.replace("crate::", "").replace("<BITS, LIMBS>", "")
