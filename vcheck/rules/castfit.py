"""R-CASTFIT (C07): on the success path of a Uint -> primitive integer conversion every narrowing `as` cast and
every left shift applied to a limb of the source is value preserving.

The rule is decided on the interval abstract interpretation of the conversion's own body, per (BITS, LIMBS)
configuration: at the point where `Ok(x)` is built, the interval of each limb the result was computed from
(refined by the dominating checks the interpreter understands: comparisons of the limb itself, bit_len /
leading_zeros comparisons, unsigned cast round trips) must fit the target type of every cast / shift between
that limb and x.  It is a necessary condition of "succeeds exactly when the value fits and then yields the
value": a cast that may wrap on the success path returns a different number.  That the limbs the result does
NOT read are zero is R-LOWLIMB's clause, not this one.

Trusted: the meaning of bit_len / leading_zeros (bit_len(x) <= c  <=>  x < 2^c), which C06 states, and C04 for
the source value (its top limb is <= MASK), which R-CANON decides."""
from .. import absint, ir
from ..engine import Report

INT_PRIMS = set(ir.INT_BITS)


def conversion_bodies(prog):
    out = []
    for b in prog.fn_bodies():
        if b["kind"] == "Closure" or b["name"] != "try_from" or b["file"] != "src/from.rs":
            continue
        o = b.get("output", {})
        if not (o.get("k") == "adt" and o.get("n") == "core::result::Result" and o.get("a")):
            continue
        okt = o["a"][0]
        if not (okt.get("k") == "prim" and okt.get("n") in INT_PRIMS):
            continue
        ins = b.get("inputs", [])
        if len(ins) != 1:
            continue
        t = ins[0]
        if t.get("k") == "ref":
            t = t["t"]
        if ir.is_uint_ty(t, True):
            out.append(b)
    return out


def _state_at(ai, bi, si):
    st = ai.entry.get(bi)
    if st is None:
        return None
    st = st.copy()
    for j, s in enumerate(ai.v.blocks[bi]["stmts"]):
        if j >= si:
            break
        if s["s"] == "assign":
            ai.assign(st, s)
    return st


def _slice_ops(v, op, out, seen, depth=0):
    """Collect the cast / shl statements between limb reads and operand `op` (single-def chains only)."""
    if op.get("o") not in ("copy", "move") or depth > 24:
        return
    if op["p"]:
        return
    l = op["l"]
    if l in seen:
        return
    seen.add(l)
    for bi, si, s in v.defs.get(l, []):
        if si == "term":
            continue
        if bi not in v.reachable:
            continue
        rv = s.get("rv")
        if rv is None or s["pl"]["p"]:
            continue
        if rv["r"] == "cast" and rv["kind"] == "IntToInt":
            out.append(("cast", bi, si, rv["a"], v.local_tyname(l)))
            _slice_ops(v, rv["a"], out, seen, depth + 1)
        elif rv["r"] == "bin":
            if rv["op"] in ("Shl", "ShlUnchecked"):
                out.append(("shl", bi, si, rv["a"], v.local_tyname(l), rv["b"]))
            _slice_ops(v, rv["a"], out, seen, depth + 1)
            _slice_ops(v, rv["b"], out, seen, depth + 1)
        elif rv["r"] == "use":
            _slice_ops(v, rv["a"], out, seen, depth + 1)


def run(ctx, config="all"):
    rep = Report("R-CASTFIT", "Uint -> primitive integer conversions: where Ok(x) is built, every narrowing cast and "
                 "every left shift between a limb of the source and x is value preserving for the interval the "
                 "dominating checks leave for that limb (interval abstract interpretation per configuration; "
                 "bit_len / leading_zeros bounds and unsigned cast round trips are understood)")
    prog = ctx.prog(config)
    from . import total_rule
    T = total_rule.totality(ctx, config)     # contextual summaries of private helpers (`value.low_u128()`)
    bodies = conversion_bodies(prog)
    cfgs = [c for c in ctx.cfgs() if c[0] > 0]
    n_ops = 0
    for b in bodies:
        key = b["key"].replace("crate::", "")
        where = "%s:%s" % (b["file"], b["line"])
        bad = {}
        n_here = 0
        delegates = False
        for cfg in cfgs:
            v = prog.view(b, cfg)
            ai = None
            for bi in sorted(v.reachable):
                for si, s in enumerate(v.blocks[bi]["stmts"]):
                    if s["s"] != "assign" or s["pl"]["l"] != 0 or s["pl"]["p"]:
                        continue
                    rv = s["rv"]
                    if not (rv["r"] == "agg" and rv.get("variant") == "Ok" and rv["ops"]):
                        continue
                    ops = []
                    _slice_ops(v, rv["ops"][0], ops, set())
                    if not ops:
                        continue
                    if ai is None:
                        ai = absint.Analysis(v, canonical_args=True, ret_interval=T._ret_interval, ret_paths=T._ret_paths,
                                             ret_discr=T._ret_discr, ret_len=T._ret_len)
                    st = _state_at(ai, bi, si)
                    if st is None:
                        continue   # Ok construction not reachable on the interval-feasible CFG
                    for o in ops:
                        kind, cbi, csi, src, to_tn = o[:5]
                        rng = absint.ty_range(to_tn)
                        if rng is None:
                            continue
                        # evaluate the operand where Ok is built when it is a stable temporary, else at the cast
                        stable = src.get("o") in ("copy", "move") and not src["p"] and v.single_def(src["l"]) is not None
                        st_eval = st if stable else _state_at(ai, cbi, csi)
                        iv, _k = ai.eval_operand(st_eval, src) if st_eval is not None else (None, None)
                        if iv is None and src.get("o") in ("copy", "move") and not src["p"]:
                            iv = absint.ty_range(v.local_tyname(src["l"]))
                        n_here += 1
                        if iv is None:
                            continue
                        if kind == "shl":
                            sh, _ = ai.eval_operand(st_eval, o[5])
                            if sh is None or sh[0] != sh[1] or sh[0] >= 256:
                                continue
                            iv = (iv[0] << sh[0], iv[1] << sh[0])
                        if iv[0] < rng[0] or iv[1] > rng[1]:
                            d = bad.setdefault((kind, v.where(cbi), to_tn), [])
                            d.append((cfg, iv))
            # by-value forms delegate: nothing to decide here
        n_ops += n_here
        if not bad:
            if n_here:
                rep.ok(key, where, "%d cast/shift evaluations on success paths fit in %d configurations" % (n_here, len(cfgs)))
            else:
                rep.ok(key, where, "success value is built without casts or shifts (delegation or constant)")
            continue
        for (kind, w, to_tn), lst in sorted(bad.items()):
            cfg, iv = lst[0]
            rep.violation("%s|%s->%s" % (key, kind, to_tn), w,
                          "on the success path the %s to %s at %s may change the value: its operand can be anywhere in "
                          "[%d, %d] where Ok(..) is built (configuration (%d,%d)%s); no dominating check bounds the limb "
                          "to the target's range" % ("cast" if kind == "cast" else "left shift", to_tn, w, iv[0], iv[1],
                                                     cfg[0], cfg[1], ", +%d more" % (len(lst) - 1) if len(lst) > 1 else ""))
    rep.analysed = {"build_config": config, "conversions": len(bodies), "cast_shift_evaluations": n_ops,
                    "configurations": ["%d,%d" % c for c in cfgs]}
    rep.floor("uint-to-int-conversions", len(bodies), 24)
    rep.floor("cast-shift-evaluations", n_ops, 100)
    return rep


def payload_limbs(ctx, config="all"):
    """R-CASTFIT/payload: the wrapped value carried by FromUintError::Overflow is the source modulo 2^target_bits, so it
    depends on every limb the target type spans (limbs 0 and 1 for u128 / i128 when the source has them).  Backward
    slice from the payload operand of every Overflow aggregate in the Uint -> primitive conversions, in a three-limb
    configuration; a payload computed through a private helper is not decided."""
    from .canon import limb_proj
    rep = Report("R-CASTFIT/payload", "the wrapped payload of FromUintError::Overflow in each Uint -> primitive integer "
                 "conversion reads every limb the target type spans (backward slice from the payload operand; limb "
                 "indices by constant projection)")
    prog = ctx.prog(config)
    cfg = (129, 3)
    n = 0
    for b in conversion_bodies(prog):
        v = prog.view(b, cfg)
        tn = b["output"]["a"][0]["n"]
        want = set(range(min(cfg[1], (ir.INT_BITS[tn] + 63) // 64)))
        key = b["key"].replace("crate::", "")
        _reach = {}

        def reach_from(src, v=v, _reach=_reach):
            if src not in _reach:
                seen, stk = set(), list(v.succ.get(src, []))
                while stk:
                    x = stk.pop()
                    if x in seen:
                        continue
                    seen.add(x)
                    stk.extend(v.succ.get(x, []))
                _reach[src] = seen
            return _reach[src]
        for bi in sorted(v.reachable):
            for s in v.blocks[bi]["stmts"]:
                if not (s["s"] == "assign" and s["rv"]["r"] == "agg" and s["rv"].get("variant") == "Overflow"
                        and str(s["rv"].get("def", "")).endswith("FromUintError") and len(s["rv"]["ops"]) >= 2):
                    continue
                n += 1
                reads, opaque, seen, stack = set(), False, set(), [s["rv"]["ops"][1]]
                while stack:
                    o = stack.pop()
                    if o.get("o") not in ("copy", "move"):
                        continue
                    l = o["l"]
                    if v.is_arg(l):
                        lp = limb_proj(v, o)
                        idx = None
                        if lp is not None and len(lp[2]) == 1:
                            e = lp[2][0]
                            idx = e[1] if (e[0] == "cidx" and not e[2]) else (v.const_of_local(e[1]) if e[0] == "idx" else None)
                        if idx is not None:
                            reads.add(idx)
                        else:
                            opaque = True      # the whole value (or a run-time index) is read
                        continue
                    for e in o["p"]:
                        if isinstance(e, list) and e[0] == "idx":
                            stack.append({"o": "copy", "l": e[1], "p": []})
                    if l in seen:
                        continue
                    seen.add(l)
                    for dbi, dsi, d in v.defs.get(l, []):
                        if dbi not in v.reachable:
                            continue
                        if dbi != bi and bi not in reach_from(dbi):
                            continue       # a definition that cannot reach the Overflow aggregate (made after the branch)
                        if dsi == "term":
                            nm = ir.callee_name(d["fn"]) or ""
                            if nm in prog.bodies:
                                opaque = True  # a helper of the crate computes (part of) the payload
                            stack.extend(d["args"])
                        else:
                            rv = d.get("rv")
                            if rv is None:
                                continue
                            stack.extend(ir.operands_of_rvalue(rv))
                            if rv["r"] in ("ref", "discr", "len"):
                                stack.append({"o": "copy", "l": rv["pl"]["l"], "p": rv["pl"]["p"]})
                k = "%s|payload" % key
                if opaque:
                    rep.ok(k, v.where(bi), "payload computed from the whole value / through a helper: not decided")
                elif want <= reads:
                    rep.ok(k, v.where(bi), "payload reads limbs %s" % sorted(reads))
                else:
                    rep.violation(k, v.where(bi), "the wrapped payload of Overflow for %s reads only limb(s) %s of the source; "
                                  "the value modulo 2^%d also depends on limb(s) %s (wrapping_to and the error payload "
                                  "return a wrong value for wide sources)" % (tn, sorted(reads), ir.INT_BITS[tn],
                                                                              sorted(want - reads)))
    rep.analysed = {"build_config": config, "overflow_payloads": n}
    rep.floor("overflow_payloads", n, 4)
    return rep
