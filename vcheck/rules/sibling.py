"""R-SIBLING: direction agreement of the non-forwarding subtle impls (C20)."""
from .. import ir
from ..engine import Report
from .facade import Slice

P = "crate::support::subtle::<impl subtle::%s for crate::Uint<BITS, LIMBS>>::%s"


def pair_field_of(v, op, depth=8):
    """If the operand is (a reborrow of) field k of a zip item `(_x as Some).0.k`, return (item local, k)."""
    while depth > 0:
        depth -= 1
        if op.get("o") not in ("copy", "move"):
            return None
        p = [e for e in op["p"] if e != "deref"]
        if p and isinstance(p[-1], list) and p[-1][0] == "f" and any(isinstance(e, list) and e[0] == "dc" for e in p):
            return (op["l"], p[-1][1])
        if op["p"] and op["p"] != ["deref"]:
            return None
        d = v.single_def(op["l"])
        if d is None or d[1] == "term":
            return None
        rv = d[2]["rv"]
        if rv["r"] == "use":
            op = rv["a"]
        elif rv["r"] == "ref":
            op = {"o": "copy", "l": rv["pl"]["l"], "p": rv["pl"]["p"]}
        else:
            return None
    return None


def zip_sides(v):
    """[(block, paramsA, adaptorsA, paramsB, adaptorsB)] for every zip call."""
    out = []
    for bi, t in v.calls():
        n = ir.callee_name(t["fn"]) or ""
        if n.endswith("::zip") and len(t["args"]) == 2:
            sides = []
            for a in t["args"]:
                sl = Slice(v)
                sl.operand(a)
                ad = sorted(x.split("::")[-1] for x in sl.foreign_calls if x.split("::")[-1] in ("rev", "iter", "iter_mut", "skip", "take", "step_by"))
                sides.append((set(sl.params), ad, [x.split("::")[-1] for x in sl.local_calls]))
            out.append((bi, sides[0], sides[1]))
    return out


def _role(v, op, zips):
    """(params the operand derives from, adaptor chain or None, zip item or None)."""
    f = pair_field_of(v, op)
    if f is not None:
        cands = [z for z in zips if {frozenset(z[1][0]), frozenset(z[2][0])} == {frozenset({1}), frozenset({2})}]
        if len(cands) == 1 and f[1] in (0, 1):
            side = cands[0][1 + f[1]]
            return set(side[0]), (tuple(side[1]), tuple(side[2])), f[0]
    sl = Slice(v)
    sl.operand(op)
    return sl.params - sl.index_locals, None, None


def _negates(v):
    for bi in v.reachable:
        for s in v.blocks[bi]["stmts"]:
            if s["s"] == "assign" and s["rv"]["r"] == "un" and s["rv"]["op"] == "Not":
                return True
    for _bi, t in v.calls():
        n = (ir.callee_name(t["fn"]) or "").split("::")[-1]
        if n in ("not", "ct_ne", "conditional_select", "conditional_assign", "conditional_negate", "bitxor", "bitxor_assign"):
            return True
    return False


def _may_depend(v, seeds):
    """Generous forward taint: locals whose value may depend on the seed locals -- through assignments, references,
    call results, and calls that receive a `&mut` to a local together with a tainted argument (`x &= f(tainted)`)."""
    T = set(seeds)
    pointee = {}
    for bi in v.reachable:
        for s in v.blocks[bi]["stmts"]:
            if s["s"] == "assign" and s["rv"]["r"] == "ref" and not s["pl"]["p"]:
                pointee[s["pl"]["l"]] = s["rv"]["pl"]["l"]
    changed = True
    while changed:
        changed = False

        def add(x):
            nonlocal changed
            while x is not None and x not in T:
                T.add(x)
                changed = True
                x = pointee.get(x)
        for bi in v.reachable:
            blk = v.blocks[bi]
            for s in blk["stmts"]:
                if s["s"] != "assign":
                    continue
                rv = s["rv"]
                src = [o["l"] for o in ir.operands_of_rvalue(rv) if o.get("o") in ("copy", "move")]
                if rv["r"] in ("ref", "discr", "len"):
                    src.append(rv["pl"]["l"])
                if any(x in T for x in src):
                    add(s["pl"]["l"])
            t = blk["term"]
            if t["t"] == "call":
                al = [a["l"] for a in t["args"] if a.get("o") in ("copy", "move")]
                if any(x in T for x in al):
                    add(t["dest"]["l"])
                    for x in al:
                        if x in pointee:
                            add(pointee[x])
    return T


def run(ctx, config="all"):
    rep = Report("R-SIBLING", "subtle (necessary conditions; an unrecognised shape is not a finding): in ct_gt / ct_lt the "
                 "strict comparisons (per limb or delegated) are not ALL oriented the wrong way round with no negation in "
                 "the body, and limbs compared as the two fields of one zip item come from iterators built by the same "
                 "adaptor chain (same position); ct_eq's result depends on both operands; conditional_select's per-limb "
                 "select is not provably (b, a) nor over differently adapted iterators")
    prog = ctx.prog(config)
    n_strict = 0
    for trait, meth, other in (("ConstantTimeGreater", "ct_gt", "ct_lt"), ("ConstantTimeLess", "ct_lt", "ct_gt")):
        k = P % (trait, meth)
        b = prog.bodies.get(k)
        if b is None:
            rep.violation(meth + "|missing", "src/support/subtle.rs", "%s impl not found" % trait)
            continue
        v = prog.view(b, (129, 3))
        where = "%s:%s" % (b["file"], b["line"])
        zips = zip_sides(v)
        strict = []
        for bi, t in v.calls():
            n = ir.callee_name(t["fn"]) or ""
            last = n.split("::")[-1]
            if last in (meth, other) and len(t["args"]) == 2 and n != k:
                strict.append((bi, t, last == other))
        verdicts = []
        bad_pos = None
        for bi, t, flip in strict + [(bi, t, False) for bi, t in v.calls()
                                     if (ir.callee_name(t["fn"]) or "").endswith("ConstantTimeEq>::ct_eq") and len(t["args"]) == 2]:
            r0, r1 = _role(v, t["args"][0], zips), _role(v, t["args"][1], zips)
            if r0[2] is not None and r0[2] == r1[2] and r0[1] != r1[1]:
                bad_pos = bad_pos or (bi, r0, r1)
            if (bi, t, flip) not in strict:
                continue
            n_strict += 1
            if flip:
                r0, r1 = r1, r0
            if r0[0] == {1} and r1[0] == {2}:
                verdicts.append("right")
            elif r0[0] == {2} and r1[0] == {1}:
                verdicts.append("inverted")
            else:
                verdicts.append("unknown")
        if bad_pos:
            bi, r0, r1 = bad_pos
            rep.violation(meth + "|positions", v.where(bi), "the two limbs compared are the fields of one zip item whose sides "
                          "are built by different adaptor chains (%s vs %s): limbs are compared at different positions" % (
                              list(r0[1][0]) + list(r0[1][1]), list(r1[1][0]) + list(r1[1][1])))
        elif verdicts and all(x == "inverted" for x in verdicts) and not _negates(v):
            rep.violation(meth + "|direction", where, "every strict comparison in %s is oriented the wrong way round (normalised "
                          "to %s(rhs, self)) and nothing in the body negates a result: the answer is inverted for every "
                          "unequal pair" % (meth, meth))
        elif verdicts and "right" in verdicts:
            rep.ok(meth, where, "%d strict comparison(s), oriented %s" % (len(verdicts), "/".join(verdicts)))
        else:
            rep.ok(meth, where, "shape not recognised (%d strict comparisons: %s): not decided" % (len(verdicts), "/".join(verdicts) or "-"))
    # ct_eq: the result depends on both operands
    k = P % ("ConstantTimeEq", "ct_eq")
    b = prog.bodies.get(k)
    if b is not None:
        v = prog.view(b, (129, 3))
        where = "%s:%s" % (b["file"], b["line"])
        dep = [p_ for p_ in (1, 2) if 0 in _may_depend(v, {p_})]
        if dep == [1, 2]:
            rep.ok("ct_eq", where, "the result may depend on both self and rhs")
        else:
            rep.violation("ct_eq", where, "the result of ct_eq cannot depend on both operands (no data flow from parameter(s) %s "
                          "to the result)" % [p_ for p_ in (1, 2) if p_ not in dep])
    else:
        rep.violation("ct_eq|missing", "src/support/subtle.rs", "ConstantTimeEq impl not found")
    # conditional_select
    k = P % ("ConditionallySelectable", "conditional_select")
    b = prog.bodies.get(k)
    if b is not None:
        v = prog.view(b, (129, 3))
        where = "%s:%s" % (b["file"], b["line"])
        zips = zip_sides(v)
        sel = [(bi, t) for bi, t in v.calls() if (ir.callee_name(t["fn"]) or "").endswith("ConditionallySelectable>::conditional_select")
               and (ir.callee_name(t["fn"]) or "") != k and len(t["args"]) == 3]
        bad = None
        for bi, t in sel:
            r0, r1 = _role(v, t["args"][0], zips), _role(v, t["args"][1], zips)
            if r0[0] == {2} and r1[0] == {1}:
                bad = (bi, "the per-limb select is called as (b_limb, a_limb, choice): the selection is inverted")
            elif r0[2] is not None and r0[2] == r1[2] and r0[1] != r1[1]:
                bad = (bi, "the limbs of a and b selected between come from iterators built by different adaptor chains "
                           "(different positions)")
        if bad:
            rep.violation("conditional_select", v.where(bad[0]), bad[1])
        else:
            rep.ok("conditional_select", where, "%d per-limb select(s), none provably (b, a) or at different positions" % len(sel))
    else:
        rep.violation("conditional_select|missing", "src/support/subtle.rs", "ConditionallySelectable impl not found")
    rep.analysed = {"build_config": config, "strict_comparisons_classified": n_strict}
    # no floor: ct_gt / ct_lt written without a strict comparison of their own (a shared worker taking the per-limb
    # comparison as a closure) are "not decided", which each obligation says
    return rep
