"""R-SIBLING: direction agreement of the non-forwarding subtle impls (C20)."""
from .. import ir
from ..engine import Report
from .facade import Slice

P = "crate::support::subtle::<impl subtle::%s for crate::Uint<BITS, LIMBS>>::%s"


def pair_field_of(v, op, depth=8):
    """If the operand is (a reborrow of) field k of a zip item `(_x as Some).0.k`, return (item local, k)."""
    while depth > 0:
        depth -= 1
        if op.get("o") not in ("copy", "move"):
            return None
        p = [e for e in op["p"] if e != "deref"]
        if p and isinstance(p[-1], list) and p[-1][0] == "f" and any(isinstance(e, list) and e[0] == "dc" for e in p):
            return (op["l"], p[-1][1])
        if op["p"] and op["p"] != ["deref"]:
            return None
        d = v.single_def(op["l"])
        if d is None or d[1] == "term":
            return None
        rv = d[2]["rv"]
        if rv["r"] == "use":
            op = rv["a"]
        elif rv["r"] == "ref":
            op = {"o": "copy", "l": rv["pl"]["l"], "p": rv["pl"]["p"]}
        else:
            return None
    return None


def zip_sides(v):
    """[(block, paramsA, adaptorsA, paramsB, adaptorsB)] for every zip call."""
    out = []
    for bi, t in v.calls():
        n = ir.callee_name(t["fn"]) or ""
        if n.endswith("::zip") and len(t["args"]) == 2:
            sides = []
            for a in t["args"]:
                sl = Slice(v)
                sl.operand(a)
                ad = sorted(x.split("::")[-1] for x in sl.foreign_calls if x.split("::")[-1] in ("rev", "iter", "iter_mut", "skip", "take", "step_by"))
                sides.append((set(sl.params), ad, [x.split("::")[-1] for x in sl.local_calls]))
            out.append((bi, sides[0], sides[1]))
    return out


def run(ctx, config="all"):
    rep = Report("R-SIBLING", "subtle: ct_gt uses u64::ct_gt (ct_lt uses u64::ct_lt) combined with u64::ct_eq, per-limb "
                 "operands come from the same position of (self, rhs) in that order (zip of two iterators built by the "
                 "same adaptor chain over the full limb arrays); ct_eq consumes both full limb arrays; "
                 "conditional_select selects every limb from (a, b) in that order and builds through from_limbs")
    prog = ctx.prog(config)
    for trait, meth, prim, other in (("ConstantTimeGreater", "ct_gt", "<u64 as subtle::ConstantTimeGreater>::ct_gt", "ct_lt"),
                                     ("ConstantTimeLess", "ct_lt", "subtle::ConstantTimeLess::ct_lt", "ct_gt")):
        k = P % (trait, meth)
        b = prog.bodies.get(k)
        if b is None:
            rep.violation(meth + "|missing", "src/support/subtle.rs", "%s impl not found" % trait)
            continue
        v = prog.view(b, (129, 3))
        where = "%s:%s" % (b["file"], b["line"])
        prims = [(bi, t, ir.callee_name(t["fn"]) or "") for bi, t in v.calls()]
        dir_calls = [(bi, t) for bi, t, n in prims if n.endswith("::" + meth) and "u64" in n or n == prim]
        wrong = [n for _bi, _t, n in prims if n.endswith("::" + other)]
        eqs = [(bi, t) for bi, t, n in prims if n.endswith("ConstantTimeEq>::ct_eq")]
        if wrong or len(dir_calls) != 1 or len(eqs) != 1:
            rep.violation(meth + "|primitive", where, "%s must combine exactly one per-limb %s with one per-limb ct_eq; found "
                          "%d x %s, %d x ct_eq, %d x %s (a swapped primitive inverts the answer for every unequal pair)" % (
                              meth, meth, len(dir_calls), meth, len(eqs), len(wrong), other))
            continue
        zs = zip_sides(v)
        if len(zs) == 0:
            # index form: `for i in .. { self.limbs[i].ct_gt(&rhs.limbs[i]) }` -- same position = same index variable
            ok = True
            for label, (bi, t) in ((meth, dir_calls[0]), ("ct_eq", eqs[0])):
                s0, s1 = Slice(v), Slice(v)
                s0.operand(t["args"][0])
                s1.operand(t["args"][1])
                p0, p1 = s0.params - s0.index_locals, s1.params - s1.index_locals
                if not s0.index_locals or s0.index_locals != s1.index_locals:
                    rep.violation(meth + "|operands:" + label, v.where(bi), "operands of the per-limb %s are neither the two "
                                  "fields of one zip item nor limbs at one index variable (positions may differ)" % label)
                    ok = False
                elif label == meth and (p0, p1) == ({2}, {1}):
                    rep.violation(meth + "|operands:" + label, v.where(bi), "per-limb %s is called as (rhs_limb, self_limb): the "
                                  "direction is inverted" % label)
                    ok = False
                elif {frozenset(p0), frozenset(p1)} != {frozenset({1}), frozenset({2})}:
                    rep.violation(meth + "|operands:" + label, v.where(bi), "per-limb %s does not compare the self limb with the "
                                  "rhs limb (operands derive from parameters %s and %s)" % (label, sorted(p0), sorted(p1)))
                    ok = False
            if ok:
                rep.ok(meth, where, "%s over self.limbs[i], rhs.limbs[i] at one index variable" % prim.split("::")[-1])
            continue
        if len(zs) != 1:
            rep.violation(meth + "|zip", where, "expected one zip of the two limb iterators (shape not recognised): %d" % len(zs))
            continue
        _zb, A, Bs = zs[0]
        if A[0] != {1} or Bs[0] != {2} or A[1] != Bs[1] or A[2] != Bs[2]:
            rep.violation(meth + "|zip", where, "the zipped iterators are not (self, rhs) built by the same adaptor chain: "
                          "left from params %s via %s%s, right from params %s via %s%s -- limbs would be compared at "
                          "different positions or in swapped roles" % (sorted(A[0]), A[1], A[2], sorted(Bs[0]), Bs[1], Bs[2]))
            continue
        ok = True
        for label, (bi, t) in ((meth, dir_calls[0]), ("ct_eq", eqs[0])):
            f0, f1 = pair_field_of(v, t["args"][0]), pair_field_of(v, t["args"][1])
            if f0 is None or f1 is None or f0[0] != f1[0]:
                rep.violation(meth + "|operands:" + label, v.where(bi), "operands of the per-limb %s are not the two fields of one "
                              "zip item (shape not recognised)" % label)
                ok = False
            elif label == meth and (f0[1], f1[1]) != (0, 1):
                rep.violation(meth + "|operands:" + label, v.where(bi), "per-limb %s is called as (rhs_limb, self_limb): the "
                              "direction is inverted" % label)
                ok = False
            elif {f0[1], f1[1]} != {0, 1}:
                rep.violation(meth + "|operands:" + label, v.where(bi), "per-limb %s does not compare the self limb with the rhs limb" % label)
                ok = False
        if ok:
            rep.ok(meth, where, "%s over zip(self.limbs%s, rhs.limbs%s)" % (prim.split("::")[-1], A[1], Bs[1]))
    # ct_eq
    k = P % ("ConstantTimeEq", "ct_eq")
    b = prog.bodies.get(k)
    if b is not None:
        v = prog.view(b, (129, 3))
        where = "%s:%s" % (b["file"], b["line"])
        calls = [(bi, t) for bi, t in v.calls() if (ir.callee_name(t["fn"]) or "").endswith("ConstantTimeEq>::ct_eq")]
        good = False
        if len(calls) == 1:
            bi, t = calls[0]
            s0, s1 = Slice(v), Slice(v)
            s0.operand(t["args"][0])
            s1.operand(t["args"][1])
            ranged = [n for n in s0.foreign_calls + s1.foreign_calls if "index" in n or "split" in n or "get" in n.split("::")[-1]]
            if {frozenset(s0.params), frozenset(s1.params)} == {frozenset({1}), frozenset({2})} and not ranged:
                good = True
        if good:
            rep.ok("ct_eq", where, "<[u64]>::ct_eq(self.as_limbs(), rhs.as_limbs())")
        else:
            rep.violation("ct_eq", where, "ct_eq does not compare the two full limb arrays of self and rhs")
    else:
        rep.violation("ct_eq|missing", "src/support/subtle.rs", "ConstantTimeEq impl not found")
    # conditional_select
    k = P % ("ConditionallySelectable", "conditional_select")
    b = prog.bodies.get(k)
    if b is not None:
        v = prog.view(b, (129, 3))
        where = "%s:%s" % (b["file"], b["line"])
        sel = [(bi, t) for bi, t in v.calls() if (ir.callee_name(t["fn"]) or "").endswith("ConditionallySelectable>::conditional_select")]
        names = [ir.callee_name(t["fn"]) or "" for _bi, t in v.calls()]
        good = False
        why = "shape not recognised"
        if len(sel) == 1 and "crate::Uint::<BITS, LIMBS>::from_limbs" in names:
            bi, t = sel[0]
            s = [Slice(v) for _ in range(3)]
            for i in range(3):
                s[i].operand(t["args"][i])
            pa, pb, pc = (x.params for x in s)
            f0, f1 = pair_field_of(v, t["args"][0]), pair_field_of(v, t["args"][1])
            inner = [z for z in zip_sides(v) if z[1][0] == {1} and z[2][0] == {2} and z[1][1] == z[2][1]]
            if 3 in pc and f0 is not None and f1 is not None and f0[0] == f1[0] and (f0[1], f1[1]) == (0, 1) and len(inner) == 1:
                good = True
            elif f0 is not None and f1 is not None and (f0[1], f1[1]) == (1, 0):
                why = "u64::conditional_select(b_limb, a_limb, choice): the selection is inverted"
            elif not inner:
                why = "the limb iterators of a and b are not zipped in the order (a, b) with the same adaptors"
            else:
                why = "per-limb select operands derive from params %s, %s, %s" % (sorted(pa), sorted(pb), sorted(pc))
        if good:
            rep.ok("conditional_select", where, "u64::conditional_select(a_limb, b_limb, choice) -> from_limbs")
        else:
            rep.violation("conditional_select", where, why)
    else:
        rep.violation("conditional_select|missing", "src/support/subtle.rs", "ConditionallySelectable impl not found")
    rep.analysed = {"build_config": config}
    return rep
