"""R-EXTREMES (C06): the bit-counting functions can return both of their extreme values.

Every counting function has two values that some input realises in every width: 0 and BITS (BYTES for byte_len) --
ZERO and MAX between them realise both for each of leading/trailing zeros/ones, count_ones/zeros, bit_len, byte_len.
The interval abstract interpretation of the function body is an OVER-approximation of the values it can return in a
configuration; if that interval does not contain a value the specification requires for some input, the function
cannot return it: a violation (e.g. `BYTES - leading_zeros() / 8` can never be 0 when BITS % 8 != 0).  The converse
(an interval that is too wide) proves nothing and is not reported.

Trusted inside callers: bit_len() / leading_zeros() of a BITS-wide value lie in [0, BITS] (the callee's own range is
checked by this same rule on the callee)."""
from ..engine import Report
from . import total_rule

COUNTERS = {
    "leading_zeros": "BITS", "leading_ones": "BITS", "trailing_zeros": "BITS", "trailing_ones": "BITS",
    "count_ones": "BITS", "count_zeros": "BITS", "bit_len": "BITS", "byte_len": "BYTES",
}


def run(ctx, config="all"):
    rep = Report("R-EXTREMES", "each bit-counting function (leading/trailing zeros/ones, count_ones/zeros, bit_len, "
                 "byte_len) can return 0 and can return BITS (BYTES for byte_len) in every configuration: the interval "
                 "over-approximation of its return value contains both (ZERO and MAX realise them)")
    prog = ctx.prog(config)
    T = total_rule.totality(ctx, config)
    n = 0
    for nm, top in sorted(COUNTERS.items()):
        k = "crate::bits::<impl crate::Uint<BITS, LIMBS>>::" + nm
        b = prog.bodies.get(k)
        if b is None:
            rep.violation("missing:" + nm, "src/bits.rs", "Uint::%s not found" % nm)
            continue
        where = "%s:%s" % (b["file"], b["line"])
        bad = None
        for cfg in ctx.cfgs():
            want_top = cfg[0] if top == "BITS" else (cfg[0] + 7) // 8
            iv = T.ai(k, cfg).return_interval()
            n += 1
            if iv is None:
                continue
            for want in (0, want_top):
                if not (iv[0] <= want <= iv[1]):
                    bad = bad or (cfg, iv, want)
        if bad:
            cfg, iv, want = bad
            rep.violation(nm + "|extreme", where, "%s can only return values in [%d, %d] in configuration (%d,%d), but %s "
                          "requires %d there" % (nm, iv[0], iv[1], cfg[0], cfg[1],
                                                 "ZERO" if (want == 0) == (nm in ("leading_ones", "trailing_ones", "count_ones", "bit_len", "byte_len")) else "MAX",
                                                 want))
        else:
            rep.ok(nm + "|extreme", where, "return interval contains 0 and %s in every configuration" % top)
    rep.analysed = {"build_config": config, "function_configuration_pairs": n}
    rep.floor("function_configuration_pairs", n, len(COUNTERS) * len(ctx.cfgs()))
    return rep


KERNEL_RETURNS = {
    # kernel -> values some input makes it return (by its documented contract)
    "crate::algorithms::mul::addmul": (0, 1),            # overflow flag: false and true
    "crate::algorithms::mul::add_nx1": (0, 1),           # carry word
    "crate::algorithms::mul::mul_nx1": (0, 1),
    "crate::algorithms::mul::addmul_nx1": (0, 1),
    "crate::algorithms::mul::submul_nx1": (0, 1),
    "crate::algorithms::add::adc_n": (0, 1),
    "crate::algorithms::add::sbb_n": (0, 1),
    "crate::algorithms::shift::shift_left_small": (0, 1),
    "crate::algorithms::shift::shift_right_small": (0, 1 << 63),
}


def kernels(ctx, config="all"):
    """R-EXTREMES for the limb kernels (C15): the carry / borrow / overflow value a kernel returns can be zero and can be
    non-zero; `cmp` can return each of Less, Equal, Greater.  Same argument as for the counting functions: the
    interval interpretation over-approximates the return values, so a required value outside it cannot be returned."""
    rep = Report("R-EXTREMES/kernels", "each carry- / borrow- / overflow-returning limb kernel can return zero and a non-zero "
                 "value, and cmp can return Less, Equal and Greater (the interval / discriminant over-approximation of "
                 "the return value contains them)")
    prog = ctx.prog(config)
    T = total_rule.totality(ctx, config)
    n = 0
    for k, wants in sorted(KERNEL_RETURNS.items()):
        b = prog.bodies.get(k)
        nm = k.split("::")[-1]
        if b is None:
            rep.violation("missing:" + nm, "src/algorithms", "%s not found" % k)
            continue
        where = "%s:%s" % (b["file"], b["line"])
        iv = T.ai(k, None).return_interval()
        n += 1
        miss = [w for w in wants if iv is not None and not (iv[0] <= w <= iv[1])]
        if miss:
            rep.violation(nm + "|extreme", where, "%s can only return values in [%d, %d], but its contract requires %s for some "
                          "input" % (nm, iv[0], iv[1], miss[0]))
        else:
            rep.ok(nm + "|extreme", where, "return interval %s contains %s" % (iv, list(wants)))
    k = "crate::algorithms::cmp"
    b = prog.bodies.get(k)
    if b is None:
        rep.violation("missing:cmp", "src/algorithms/mod.rs", "algorithms::cmp not found")
    else:
        a = T.ai(k, None)
        n += 1
        ds = set()
        for rb in a.v.return_blocks():
            st = a.state_before_term(rb)
            if st is None:
                continue
            iv = st.iv.get(("pl", 0, (("discr",),)))
            if iv is None or iv[1] - iv[0] > 4:
                ds = None
                break
            ds |= set(range(iv[0], iv[1] + 1))
        where = "%s:%s" % (b["file"], b["line"])
        if ds is None:
            rep.ok("cmp|extreme", where, "returned discriminants not enumerable: not decided")
        else:
            norm = {(-1 if d_ in (255, (1 << 64) - 1, -1) else d_) for d_ in ds}
            missing = [nm_ for v_, nm_ in ((-1, "Less"), (0, "Equal"), (1, "Greater")) if v_ not in norm]
            if missing:
                rep.violation("cmp|extreme", where, "algorithms::cmp can never return %s (returned discriminants: %s)" % (
                    ", ".join(missing), sorted(norm)))
            else:
                rep.ok("cmp|extreme", where, "can return Less, Equal and Greater")
    rep.analysed = {"build_config": config, "kernels": n}
    rep.floor("kernels", n, len(KERNEL_RETURNS) + 1)
    return rep
