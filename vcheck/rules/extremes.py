"""R-EXTREMES (C06): the bit-counting functions can return both of their extreme values.

Every counting function has two values that some input realises in every width: 0 and BITS (BYTES for byte_len) --
ZERO and MAX between them realise both for each of leading/trailing zeros/ones, count_ones/zeros, bit_len, byte_len.
The interval abstract interpretation of the function body is an OVER-approximation of the values it can return in a
configuration; if that interval does not contain a value the specification requires for some input, the function
cannot return it: a violation (e.g. `BYTES - leading_zeros() / 8` can never be 0 when BITS % 8 != 0).  The converse
(an interval that is too wide) proves nothing and is not reported.

Trusted inside callers: bit_len() / leading_zeros() of a BITS-wide value lie in [0, BITS] (the callee's own range is
checked by this same rule on the callee)."""
from ..engine import Report
from . import total_rule

COUNTERS = {
    "leading_zeros": "BITS", "leading_ones": "BITS", "trailing_zeros": "BITS", "trailing_ones": "BITS",
    "count_ones": "BITS", "count_zeros": "BITS", "bit_len": "BITS", "byte_len": "BYTES",
}


def run(ctx, config="all"):
    rep = Report("R-EXTREMES", "each bit-counting function (leading/trailing zeros/ones, count_ones/zeros, bit_len, "
                 "byte_len) can return 0 and can return BITS (BYTES for byte_len) in every configuration: the interval "
                 "over-approximation of its return value contains both (ZERO and MAX realise them)")
    prog = ctx.prog(config)
    T = total_rule.totality(ctx, config)
    n = 0
    for nm, top in sorted(COUNTERS.items()):
        k = "crate::bits::<impl crate::Uint<BITS, LIMBS>>::" + nm
        b = prog.bodies.get(k)
        if b is None:
            rep.violation("missing:" + nm, "src/bits.rs", "Uint::%s not found" % nm)
            continue
        where = "%s:%s" % (b["file"], b["line"])
        bad = None
        for cfg in ctx.cfgs():
            want_top = cfg[0] if top == "BITS" else (cfg[0] + 7) // 8
            iv = T.ai(k, cfg).return_interval()
            n += 1
            if iv is None:
                continue
            for want in (0, want_top):
                if not (iv[0] <= want <= iv[1]):
                    bad = bad or (cfg, iv, want)
        if bad:
            cfg, iv, want = bad
            rep.violation(nm + "|extreme", where, "%s can only return values in [%d, %d] in configuration (%d,%d), but %s "
                          "requires %d there" % (nm, iv[0], iv[1], cfg[0], cfg[1],
                                                 "ZERO" if (want == 0) == (nm in ("leading_ones", "trailing_ones", "count_ones", "bit_len", "byte_len")) else "MAX",
                                                 want))
        else:
            rep.ok(nm + "|extreme", where, "return interval contains 0 and %s in every configuration" % top)
    rep.analysed = {"build_config": config, "function_configuration_pairs": n}
    rep.floor("function_configuration_pairs", n, len(COUNTERS) * len(ctx.cfgs()))
    return rep
