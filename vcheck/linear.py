"""D-lin: a small relational (linear-inequality) discharge for index sites whose bound is another run-time quantity.

The interval engine decides `idx < len` when both sides have constant bounds or one comparison relates them.  The
division and Montgomery kernels index with `j + n - 2` under `j <= m`, `m = len(numerator) - n`: a fact about three
run-time quantities.  This module proves such goals *syntactically over the MIR definitions* -- nothing is executed,
no path is enumerated and no external solver is called: it is an abstract domain of linear inequalities over

  * stable integer locals (one definition, never mutably borrowed, or never-reassigned arguments),
  * `len(r)` of stable slice references r (resolved through re-borrows), and
  * const generic parameters (`N`),

with facts taken from (a) the documented preconditions of the function (tables/linear_pre), (b) comparisons on branch
edges that dominate the site, (c) the definitions of the atoms themselves: a `for` variable lies in the range its
iterator was built from, `rposition` yields an index below the length, a sub-slice `&x[a..b]` is `b - a` long,
`split_at(mid)` halves are `mid` and `len - mid` long.  A goal `E >= 0` is proved by exhibiting `E = sum(l_i * F_i) + c`
with `l_i >= 0`, facts `F_i >= 0`, every atom `>= 0` (they are unsigned) and `c >= 0` (bounded search, exact rationals).

Soundness notes.  A single-definition local used at a site that its definition dominates has, at the site, the value
computed from the *current* values of the operands of that definition (SSA argument: were an operand redefined after
the definition and before the site, the path from that redefinition to the site would avoid the definition, which
contradicts dominance because the operand's definition dominates the local's).  `a - b` on unsigned integers is only
replaced by its mathematical value when `a - b >= 0` is itself proved (otherwise the local stays an opaque atom).
Additions are assumed not to wrap when the final goal bounds them by a slice length (lengths are <= isize::MAX).
"""
from fractions import Fraction

from . import ir

LEN_CALLS = ("core::slice::<impl [T]>::len", "alloc::vec::Vec::<T, A>::len")
ITER_IDENT = ("<I as core::iter::traits::collect::IntoIterator>::into_iter",)


class Form:
    """const + sum(coef * atom); `caps` = {(unstable local, block)}: the block in which the current value of a
    re-assigned local was read into the form (its validity is checked against the local's other definitions)."""
    __slots__ = ("c", "t", "caps")

    def __init__(self, c=0, t=None, caps=None):
        self.c = Fraction(c)
        self.t = dict(t or {})
        self.caps = frozenset(caps or ())

    def add(self, o, k=1):
        r = Form(self.c + k * o.c, self.t, self.caps | o.caps)
        for a, v in o.t.items():
            nv = r.t.get(a, 0) + k * v
            if nv == 0:
                r.t.pop(a, None)
            else:
                r.t[a] = nv
        return r

    def key(self):
        return (self.c, tuple(sorted(self.t.items(), key=str)))

    def trivially_nonneg(self):
        return self.c >= 0 and all(v >= 0 for v in self.t.values())

    def __repr__(self):
        s = " + ".join("%s*%s" % (v, a) for a, v in sorted(self.t.items(), key=str))
        return "%s + %s" % (self.c, s) if s else str(self.c)


def atom_form(a):
    return Form(0, {a: Fraction(1)})


class Prover:
    def __init__(self, view, pre=None, mut_borrowed=None):
        self.v = view
        self.pre = pre or []          # list of (Form >= 0) over ("arglen", i) / ("arg", i) atoms
        self._forms = {}
        self._atom_facts = {}         # atom -> [Form]
        self._diseq = {}              # site block -> [Form != 0]
        self.failed_subs = {}         # local -> description of an unsigned subtraction that could not be proved not to wrap
        self._unstable = {}
        self.type_bound = None        # when set by a caller for one proof: every atom is <= this value
        self._kill_memo = {}
        self._u_inprogress = set()
        self._u_init = {}
        self._mut = mut_borrowed if mut_borrowed is not None else self._mut_borrowed()
        self.assumed = []

    # -- stability ----------------------------------------------------------------------------------------------
    def _mut_borrowed(self):
        out = set()
        for blk in self.v.blocks:
            if blk.get("cleanup"):
                continue
            for s in blk["stmts"]:
                if s["s"] == "assign" and s["rv"]["r"] in ("ref", "rawptr") and s["rv"].get("m") == "mut":
                    pl = s["rv"]["pl"]
                    if "deref" not in pl["p"]:
                        out.add(pl["l"])   # `&mut local` (or a field of it): the local may change behind our back
        return out

    def own_defs(self, l):
        """Definitions of the local itself: writes *through* it (`(*_1)[i] = x`) do not change a reference."""
        out = []
        for d in self.v.defs.get(l, []):
            s = d[2]
            pl = s["dest"] if d[1] == "term" else s["pl"]
            if pl["p"][:1] == ["deref"]:
                continue
            out.append(d)
        return out

    def sdef(self, l):
        """single_def, ignoring writes through the local when it is a reference"""
        ds = self.own_defs(l)
        if len(ds) != 1:
            return None
        d = ds[0]
        s = d[2]
        pl = s["dest"] if d[1] == "term" else s["pl"]
        if pl["p"] or (d[1] != "term" and s["s"] != "assign"):
            return None
        return d

    def stable(self, l):
        v = self.v
        if l in self._mut:
            return False
        if v.is_arg(l):
            return not self.own_defs(l)
        return self.sdef(l) is not None

    # -- re-assigned integer locals (loop counters) -----------------------------------------------------------------
    def _unstable_ok(self, l):
        """An integer local with several plain whole-local assignments, never mutably borrowed."""
        v = self.v
        if l in self._unstable:
            return self._unstable[l]
        ok = False
        if not v.is_arg(l) and l not in self._mut and v.local_tyname(l) in ("usize", "u64", "u32", "u16", "u8"):
            ds = v.defs.get(l, [])
            ok = len(ds) >= 2 and all(d[1] != "term" and d[2]["s"] == "assign" and not d[2]["pl"]["p"] for d in ds)
        self._unstable[l] = ok
        return ok

    def _step_of(self, l, d):
        """('add'|'sub', c) when definition d of l is `l = l +/- c` (directly or through one temporary), else None."""
        v = self.v
        rv = d[2]["rv"]
        if rv["r"] == "use" and rv["a"].get("o") in ("copy", "move") and not rv["a"]["p"]:
            td = v.single_def(rv["a"]["l"])
            if td is None or td[1] == "term" or td[0] != d[0]:
                return None
            rv = td[2]["rv"]
        elif rv["r"] == "use" and rv["a"].get("o") in ("copy", "move") and rv["a"]["p"] == [["f", 0]]:
            # overflow-checked build: `_t = AddWithOverflow(copy l, c); assert(!_t.1); l = move (_t.0)`
            td = v.single_def(rv["a"]["l"])
            if td is None or td[1] == "term" or not td[2]["rv"].get("op", "").endswith("WithOverflow"):
                return None
            if td[0] != d[0] and (td[0] not in v.dom.get(d[0], ()) or any(
                    k in self._kills_raw(l) for k in self._between_blocks(td[0], d[0]))):
                return None
            rv = td[2]["rv"]
        if rv["r"] != "bin":
            return None
        op = rv["op"].replace("Unchecked", "").replace("WithOverflow", "")
        if op not in ("Add", "Sub"):
            return None
        a, b = rv["a"], rv["b"]
        if not (a.get("o") in ("copy", "move") and not a["p"] and a["l"] == l):
            return None
        c = v.const_of_operand(b)
        if c is None or c < 0:
            return None
        return ("add" if op == "Add" else "sub", c)

    def _kills_raw(self, l):
        return {k for k in self._kills(l) if not isinstance(k, tuple)}

    def _between_blocks(self, a, b):
        """Blocks strictly between a and b on the straight-line chain a -> ... -> b (single successors only)."""
        out, x, n = [], a, 0
        while n < 8:
            n += 1
            succ = self.v.succ.get(x, [])
            if len(succ) != 1:
                return [a]          # not a chain: report a itself so that the caller's kill test fails closed
            x = succ[0]
            if x == b:
                return out
            out.append(x)
        return [a]

    def _kills(self, l):
        if l not in self._kill_memo:
            from . import total
            self._kill_memo[l] = total.Totality._kill_blocks(self.v, l)
        return self._kill_memo[l]

    def _valid_between(self, l, gb, gs, site_block, ignore_block=None):
        """The value of l read in block gb (before its terminator's edge gb -> gs) is still its value on entry to
        site_block: no definition of l in gb, and none on a path from the edge to the site that does not re-take the edge."""
        from . import total
        kills = set(self._kills(l))
        if gb in kills:
            return False
        if ignore_block is not None:
            kills.discard(ignore_block)
        region = total.Totality._region(self.v, gb, gs, site_block)
        return not total.Totality._killed_between(kills, region, site_block)

    def _unstable_facts(self, l):
        """Loop invariants of a counter: one initialising definition `l = F` that dominates all others, every other
        definition a step `l = l - c` (then l <= F, each step proved not to wrap) or `l = l + c` (then l >= F; and
        l <= G when every step is `+ 1` taken under a dominating `l != G` test and F <= G holds at the
        initialisation: the invariant is inductive)."""
        a = ("u", l)
        if a in self._atom_facts:
            return self._atom_facts[a]
        if l in self._u_inprogress:
            return []
        self._u_inprogress.add(l)
        facts = []
        try:
            v = self.v
            ds = v.defs.get(l, [])
            init, steps = [], []
            for d in ds:
                st = self._step_of(l, d)
                if st is None:
                    init.append(d)
                else:
                    steps.append((d, st))
            if len(init) != 1 or not steps:
                return []
            idef = init[0]
            if any(idef[0] == d[0] or idef[0] not in v.dom.get(d[0], ()) for d, _ in steps):
                return []
            rv = idef[2]["rv"]
            F = self.form(rv["a"], at=idef[0]) if rv["r"] == "use" else None
            if F is None and rv["r"] == "bin" and rv["op"].replace("Unchecked", "") == "Add":
                fa, fb = self.form(rv["a"], at=idef[0]), self.form(rv["b"], at=idef[0])
                F = fa.add(fb) if fa is not None and fb is not None else None
            if F is None or F.caps:
                return []      # the initial value must be built from stable quantities only: the invariant outlives the loop
            x = Form(0, {a: Fraction(1)})
            kinds = {st[0] for _, st in steps}
            blocks = [d[0] for d, _ in steps]
            if len(set(blocks)) != len(blocks):
                return []
            if kinds == {"sub"}:
                ok = True
                for d, (_k, c) in steps:
                    g = Form(-c, {a: Fraction(1)}, [(l, d[0])])
                    if not self._prove_at(g, d[0], own_def_ok=True):
                        ok = False
                        break
                if ok:
                    facts.append(Form(F.c, F.t).add(x, -1))            # F - l >= 0
            elif kinds == {"add"}:
                facts.append(x.add(Form(F.c, F.t), -1))                 # l - F >= 0
                if all(c == 1 for _, (_k, c) in steps):
                    G = self._ne_guard_bound(l, steps)
                    if G is not None and self._prove_at(Form(G.c, G.t).add(Form(F.c, F.t), -1), idef[0]):
                        facts.append(Form(G.c, G.t).add(x, -1))         # G - l >= 0
            self._u_init[l] = idef[0]
        finally:
            self._u_inprogress.discard(l)
        self._atom_facts[a] = facts
        return facts

    def _cap_ok_at(self, x, b, site_block, own_def_ok=False):
        """The value of re-assigned local x read in block b is its value at the site (block site_block)."""
        if b == site_block:
            return own_def_ok or site_block not in self._kills(x)
        succ = self.v.succ.get(b, [])
        if len(succ) != 1 or b not in self.v.dom.get(site_block, ()):
            return False
        return self._valid_between(x, b, succ[0], site_block, ignore_block=site_block if own_def_ok else None)

    def _ne_guard_bound(self, l, steps):
        """G such that every `l += 1` is taken on the `l != G` edge of one switch with l unchanged in between."""
        v = self.v
        for gb in v.reachable:
            t = v.blocks[gb]["term"]
            if t["t"] != "switch":
                continue
            dsc = t["discr"]
            if dsc.get("o") not in ("copy", "move") or dsc["p"]:
                continue
            ch = v.chase(dsc)
            neg = False
            if ch[0] == "rv" and ch[1]["r"] == "un" and ch[1]["op"] == "Not":
                ch = v.chase(ch[1]["a"])
                neg = True
            if not (ch[0] == "rv" and ch[1]["r"] == "bin" and ch[1]["op"] in ("Eq", "Ne")) or ch[2] != gb:
                continue
            fa, fb = self.form(ch[1]["a"], at=gb), self.form(ch[1]["b"], at=gb)
            if fa is None or fb is None:
                continue
            if fa.t == {("u", l): 1} and fa.c == 0 and not fb.caps:
                G = fb
            elif fb.t == {("u", l): 1} and fb.c == 0 and not fa.caps:
                G = fa
            else:
                continue
            for gs in v.succ.get(gb, []):
                vals = [val for val, bb in t["targets"] if bb == gs]
                truths = {bool(val) for val in vals}
                if t["otherwise"] == gs:
                    truths |= ({True, False} - {bool(val) for val, _ in t["targets"]})
                if len(truths) != 1:
                    continue
                truth = truths.pop() != neg
                is_ne = (ch[1]["op"] == "Ne") == truth
                if not is_ne:
                    continue
                if all(v.edge_dominates(gb, gs, d[0]) and self._valid_between(l, gb, gs, d[0], ignore_block=d[0])
                       for d, _ in steps):
                    return G
        return None

    def _prove_at(self, goal, site_block, own_def_ok=False):
        return self.prove(goal, site_block, own_def_ok=own_def_ok)

    # -- slice roots ----------------------------------------------------------------------------------------------
    def root(self, l, depth=8):
        """Follow re-borrows / copies of a reference local back to the reference it was taken from."""
        v = self.v
        while depth > 0:
            depth -= 1
            if v.is_arg(l):
                return l
            d = self.sdef(l)
            if d is None or d[1] == "term":
                return l
            rv = d[2]["rv"]
            if rv["r"] in ("ref", "rawptr") and rv["pl"]["p"] == ["deref"]:
                l = rv["pl"]["l"]
                continue
            if rv["r"] == "use" and rv["a"].get("o") in ("copy", "move") and not rv["a"]["p"]:
                l = rv["a"]["l"]
                continue
            if rv["r"] == "cast" and rv["a"].get("o") in ("copy", "move") and not rv["a"]["p"] and rv.get("kind", "").startswith("PointerCoercion"):
                l = rv["a"]["l"]
                continue
            return l
        return l

    def len_form(self, l):
        """Form of the length of the slice / array that reference (or array) local l denotes."""
        r = self.root(l)
        ty = self.v.local_ty(r)
        t = ty
        while t.get("k") in ("ref", "ptr"):
            t = t["t"]
        if t.get("k") == "array":
            n = t.get("len")
            if isinstance(n, int):
                return Form(n)
            if isinstance(n, dict) and n.get("c") == "param":
                return self._param(n["n"])
            if isinstance(n, dict) and n.get("c") == "lit":
                return Form(n["v"])
            return None
        if not self.stable(r):
            return None
        a = ("len", r)
        self._len_def_facts(a, r)
        return atom_form(a)

    def _param(self, name):
        val = self.v.env.get(name)
        if val is not None:
            return Form(val)
        return atom_form(("param", name))

    # -- linear forms ---------------------------------------------------------------------------------------------
    def form(self, op, depth=12, at=None):
        """Linear form of an operand.  `at`: the block in which the operand is read (needed when it is a local that
        is assigned more than once: a loop counter)."""
        if op.get("o") in ("copy", "move") and not op["p"] and at is not None and self._unstable_ok(op["l"]):
            a = ("u", op["l"])
            return Form(0, {a: Fraction(1)}, [(op["l"], at)])
        if op.get("o") == "const":
            c = op.get("c")
            if c == "lit":
                return Form(op.get("sv", op["v"]))
            if c == "param":
                return self._param(op["n"])
            v = self.v.const_of_operand(op)
            return Form(v) if v is not None else None
        if op.get("o") not in ("copy", "move"):
            return None
        if op["p"]:
            if len(op["p"]) == 1 and op["p"][0][0] == "f" and self.v.local_ty(op["l"]).get("k") == "tuple":
                f = self._discr_form(op)
                if f is not None:
                    return f
            if op["p"] == [["f", 0]]:
                # value half of a checked-arithmetic pair (overflow-checked builds); its assert is a site of its own
                d = self.v.single_def(op["l"])
                if d is not None and d[1] != "term" and d[2]["rv"]["r"] == "bin" and d[2]["rv"]["op"] in ("AddWithOverflow", "SubWithOverflow"):
                    rv = d[2]["rv"]
                    fa, fb = self.form(rv["a"], depth - 1), self.form(rv["b"], depth - 1)
                    if fa is not None and fb is not None:
                        if rv["op"] == "AddWithOverflow":
                            return fa.add(fb)
                        diff = fa.add(fb, -1)
                        if self.prove(diff, need_dom=d[0]):
                            return diff
            return None
        return self.local_form(op["l"], depth)

    def local_form(self, l, depth=12):
        if l in self._forms:
            return self._forms[l]
        self._forms[l] = None
        f = self._local_form(l, depth)
        self._forms[l] = f
        return f

    def _opaque(self, l):
        tn = self.v.local_tyname(l)
        if tn not in ("usize", "u64", "u32", "u8", "u16", "u128") or not self.stable(l):
            return None
        a = ("l", l)
        self._local_def_facts(a, l)
        return atom_form(a)

    def _local_form(self, l, depth):
        v = self.v
        if depth <= 0:
            return self._opaque(l)
        cv = v.const_of_local(l) if not v.is_arg(l) else None
        if cv is not None:
            return Form(cv)
        d = v.single_def(l)
        if d is None or l in self._mut:
            return self._opaque(l)
        if d[1] == "term":
            t = d[2]
            name = ir.callee_name(t["fn"]) or ""
            if name in LEN_CALLS and t["args"] and t["args"][0].get("o") in ("copy", "move") and not t["args"][0]["p"]:
                f = self.len_form(t["args"][0]["l"])
                if f is not None:
                    return f
            return self._opaque(l)
        rv = d[2]["rv"]
        k = rv["r"]
        if k == "use":
            f = self.form(rv["a"], depth - 1, at=d[0])
            return f if f is not None else self._opaque(l)
        if k == "un" and rv.get("op") == "PtrMetadata":
            src = rv.get("a")
            if src and src.get("o") in ("copy", "move") and not src["p"]:
                f = self.len_form(src["l"])
                if f is not None:
                    return f
            return self._opaque(l)
        if k == "bin":
            op = rv["op"].replace("Unchecked", "")
            if op in ("Add", "Sub"):
                fa, fb = self.form(rv["a"], depth - 1, at=d[0]), self.form(rv["b"], depth - 1, at=d[0])
                if fa is not None and fb is not None:
                    if op == "Add":
                        return fa.add(fb)
                    diff = fa.add(fb, -1)
                    # unsigned subtraction: only its mathematical value when it provably does not wrap
                    if self.prove(diff, need_dom=d[0]):
                        return diff
                    from . import panics
                    self.failed_subs[l] = "Sub(%s,%s)" % (panics._named_local(self.v, rv["a"]), panics._named_local(self.v, rv["b"]))
                return self._opaque(l)
            if op == "Mul":
                fa, fb = self.form(rv["a"], depth - 1), self.form(rv["b"], depth - 1)
                if fa is not None and fb is not None:
                    if not fa.t:
                        return Form(0).add(fb, fa.c)
                    if not fb.t:
                        return Form(0).add(fa, fb.c)
            return self._opaque(l)
        return self._opaque(l)

    # -- facts that come with an atom's definition --------------------------------------------------------------
    def _fact(self, a, f):
        self._atom_facts.setdefault(a, [])
        if f is not None:
            self._atom_facts[a].append(f)

    def _range_bounds(self, iter_local, depth=8):
        """(lo Form, hi Form inclusive) of the values an integer range iterator held in iter_local can yield."""
        v = self.v
        l = iter_local
        while depth > 0:
            depth -= 1
            d = v.single_def(l)
            if d is None:
                return None
            if d[1] == "term":
                t = d[2]
                name = ir.callee_name(t["fn"]) or ""
                args = t["args"]
                if name in ITER_IDENT or name.endswith("::iter::traits::iterator::Iterator>::rev") or name.endswith("Iterator::rev") \
                        or name.endswith("IntoIterator>::into_iter"):
                    if args and args[0].get("o") in ("copy", "move") and not args[0]["p"]:
                        l = args[0]["l"]
                        continue
                    return None
                if name.startswith("core::ops::range::RangeInclusive::<") and name.endswith("::new") and len(args) == 2:
                    lo, hi = self.form(args[0]), self.form(args[1])
                    if lo is None or hi is None:
                        return None
                    return lo, hi
                return None
            rv = d[2]["rv"]
            if rv["r"] == "use" and rv["a"].get("o") in ("copy", "move") and not rv["a"]["p"]:
                l = rv["a"]["l"]
                continue
            if rv["r"] == "agg":
                ty = v.local_ty(l)
                if ty.get("k") == "adt" and ty.get("n") == "core::ops::range::Range" and len(rv["ops"]) == 2:
                    lo, hi = self.form(rv["ops"][0]), self.form(rv["ops"][1])
                    if lo is None or hi is None:
                        return None
                    return lo, hi.add(Form(1), -1)
            return None
        return None

    def _local_def_facts(self, a, l):
        """Facts implied by how opaque local l is defined: `for` variable, rposition / position index."""
        if a in self._atom_facts:
            return
        self._atom_facts[a] = []
        v = self.v
        d = v.single_def(l)
        if d is None:
            return
        opt = None
        enum_index = False
        if d[1] != "term":
            rv = d[2]["rv"]
            if rv["r"] == "use" and rv["a"].get("o") in ("copy", "move"):
                p = rv["a"]["p"]
                if len(p) == 2 and p[0][0] == "dc" and list(p[1]) == ["f", 0]:
                    opt = rv["a"]["l"]
                elif len(p) == 3 and p[0][0] == "dc" and list(p[1]) == ["f", 0] and list(p[2]) == ["f", 0]:
                    opt, enum_index = rv["a"]["l"], True          # `(i, x)` of Enumerate: ((_opt as Some).0).0
                elif len(p) == 1 and list(p[0]) == ["f", 0]:
                    pd = v.single_def(rv["a"]["l"])
                    if pd is not None and pd[1] != "term" and pd[2]["rv"]["r"] == "use" \
                            and pd[2]["rv"]["a"].get("o") in ("copy", "move"):
                        pp_ = pd[2]["rv"]["a"]["p"]
                        if len(pp_) == 2 and pp_[0][0] == "dc" and list(pp_[1]) == ["f", 0]:
                            opt, enum_index = pd[2]["rv"]["a"]["l"], True
        else:
            t = d[2]
            name = ir.callee_name(t["fn"]) or ""
            if (name.startswith("core::option::Option::<") and name.rsplit("::", 1)[-1] in ("expect", "unwrap")) and t["args"]:
                o = t["args"][0]
                if o.get("o") in ("copy", "move") and not o["p"]:
                    opt = o["l"]
        if opt is None:
            return
        od = v.single_def(opt)
        if od is None or od[1] != "term":
            return
        t = od[2]
        name = ir.callee_name(t["fn"]) or ""
        args = t["args"]
        if enum_index:
            # index yielded by `slice.iter().enumerate()` / `iter_mut().enumerate()`: 0 <= i <= len - 1
            if "enumerate::Enumerate" not in name or not name.endswith("::next"):
                return
            if not args or args[0].get("o") not in ("copy", "move") or args[0]["p"]:
                return
            it = args[0]["l"]
            seen_enum = False
            for _ in range(10):
                dd = v.single_def(it)
                if dd is None:
                    return
                if dd[1] == "term":
                    n2 = ir.callee_name(dd[2]["fn"]) or ""
                    a2 = dd[2]["args"]
                    if not a2 or a2[0].get("o") not in ("copy", "move") or a2[0]["p"]:
                        return
                    if n2 in ITER_IDENT or n2.endswith("IntoIterator>::into_iter"):
                        it = a2[0]["l"]
                        continue
                    if n2.endswith("Iterator::enumerate") or n2.endswith("::enumerate"):
                        seen_enum = True
                        it = a2[0]["l"]
                        continue
                    if seen_enum and n2 in ("core::slice::<impl [T]>::iter", "core::slice::<impl [T]>::iter_mut"):
                        lf = self.len_form(a2[0]["l"])
                        if lf is not None:
                            self._fact(a, lf.add(atom_form(a), -1).add(Form(1), -1))   # len - i - 1 >= 0
                    return
                rv2 = dd[2]["rv"]
                if rv2["r"] == "ref" and (rv2["pl"]["p"] == [] or rv2["pl"]["p"] == ["deref"]):
                    it = rv2["pl"]["l"]
                    continue
                if rv2["r"] == "use" and rv2["a"].get("o") in ("copy", "move") and not rv2["a"]["p"]:
                    it = rv2["a"]["l"]
                    continue
                return
            return
        if name in v.prog.bodies:
            # a private helper that returns the position (plus a constant) of an element of a slice it was given:
            # `fn significant_len(x: &[u64]) -> Option<usize> { x.iter().rposition(..).map(|i| i + 1) }`
            sm = helper_summary(v.prog, name)
            if sm is not None:
                k, c = sm
                if 0 <= k - 1 < len(args) and args[k - 1].get("o") in ("copy", "move") and not args[k - 1]["p"]:
                    lf = self.len_form(args[k - 1]["l"])
                    if lf is not None:
                        x = atom_form(a)
                        self._fact(a, x.add(Form(c), -1))                               # x - c >= 0
                        self._fact(a, lf.add(x, -1).add(Form(c)).add(Form(1), -1))      # len - (x - c) - 1 >= 0
            return
        if (name.endswith("::next") and ("Iterator" in name or "iter::range" in name)) or name.endswith("DoubleEndedIterator>::next_back"):
            # next(&mut iter): find the iterator local
            if not args or args[0].get("o") not in ("copy", "move") or args[0]["p"]:
                return
            it = args[0]["l"]
            for _ in range(4):
                dd = v.single_def(it)
                if dd is None or dd[1] == "term":
                    break
                rv = dd[2]["rv"]
                if rv["r"] == "ref" and (rv["pl"]["p"] == [] or rv["pl"]["p"] == ["deref"]):
                    it = rv["pl"]["l"]
                    continue
                break
            # `iter` is assigned once (`_53 = move _49`) and advanced only through &mut: values stay in the built range
            ds = v.defs.get(it, [])
            if len(ds) != 1:
                return
            b = self._range_bounds(it)
            if b is None:
                return
            lo, hi = b
            x = atom_form(a)
            self._fact(a, x.add(lo, -1))      # x - lo >= 0
            self._fact(a, hi.add(x, -1))      # hi - x >= 0
            return
        if name.endswith("::rposition") or name.endswith("::position"):
            # index into the slice the iterator was made from: 0 <= i <= len - 1
            if not args or args[0].get("o") not in ("copy", "move") or args[0]["p"]:
                return
            it = args[0]["l"]
            for _ in range(6):
                dd = v.single_def(it)
                if dd is None:
                    return
                if dd[1] == "term":
                    n2 = ir.callee_name(dd[2]["fn"]) or ""
                    if n2 in ("core::slice::<impl [T]>::iter", "core::slice::<impl [T]>::iter_mut") and dd[2]["args"]:
                        o = dd[2]["args"][0]
                        if o.get("o") in ("copy", "move") and not o["p"]:
                            lf = self.len_form(o["l"])
                            if lf is not None:
                                self._fact(a, lf.add(atom_form(a), -1).add(Form(1), -1))   # len - i - 1 >= 0
                    return
                rv = dd[2]["rv"]
                if rv["r"] == "ref" and (rv["pl"]["p"] == [] or rv["pl"]["p"] == ["deref"]):
                    it = rv["pl"]["l"]
                    continue
                if rv["r"] == "use" and rv["a"].get("o") in ("copy", "move") and not rv["a"]["p"]:
                    it = rv["a"]["l"]
                    continue
                return

    def _range_parts(self, op):
        """(kind, start operand, end operand) of a Range* aggregate operand."""
        if op.get("o") not in ("copy", "move") or op["p"]:
            return None
        l = op["l"]
        ty = self.v.local_ty(l)
        if ty.get("k") != "adt":
            return None
        n = ty["n"]
        d = self.v.single_def(l)
        if d is None:
            return None
        if d[1] == "term":
            name = ir.callee_name(d[2]["fn"]) or ""
            if name.startswith("core::ops::range::RangeInclusive::<") and name.endswith("::new") and len(d[2]["args"]) == 2:
                return ("incl", d[2]["args"][0], d[2]["args"][1])
            return None
        rv = d[2]["rv"]
        if rv["r"] != "agg":
            return None
        ops = rv["ops"]
        short = n.rsplit("::", 1)[-1]
        if short == "Range" and len(ops) == 2:
            return ("range", ops[0], ops[1])
        if short == "RangeTo" and len(ops) == 1:
            return ("to", None, ops[0])
        if short == "RangeFrom" and len(ops) == 1:
            return ("from", ops[0], None)
        if short == "RangeToInclusive" and len(ops) == 1:
            return ("toincl", None, ops[0])
        if short == "RangeFull":
            return ("full", None, None)
        return None

    def _len_def_facts(self, a, r):
        """len(r) where r is itself a sub-slice: `&x[range]`, a half of `split_at`."""
        if a in self._atom_facts:
            return
        self._atom_facts[a] = []
        v = self.v
        d = self.sdef(r) if not v.is_arg(r) else None
        x = atom_form(a)
        if d is None:
            return
        if d[1] == "term":
            t = d[2]
            name = ir.callee_name(t["fn"]) or ""
            args = t["args"]
            if "::index::Index" in name and len(args) == 2 and args[0].get("o") in ("copy", "move") and not args[0]["p"]:
                rp = self._range_parts(args[1])
                base = self.len_form(args[0]["l"])
                if rp is None:
                    return
                kind, s, e = rp
                fs = self.form(s) if s is not None else Form(0)
                fe = self.form(e) if e is not None else base
                if kind in ("toincl", "incl") and fe is not None:
                    fe = fe.add(Form(1))
                if fs is None or fe is None:
                    return
                eq = fe.add(fs, -1)            # len == end - start (the call returned, so it did not panic)
                self._fact(a, x.add(eq, -1))
                self._fact(a, eq.add(x, -1))
            return
        rv = d[2]["rv"]
        if rv["r"] == "use" and rv["a"].get("o") in ("copy", "move") and len(rv["a"]["p"]) == 1 and rv["a"]["p"][0][0] == "f":
            tl = rv["a"]["l"]
            td = v.single_def(tl)
            if td is not None and td[1] == "term":
                name = ir.callee_name(td[2]["fn"]) or ""
                args = td[2]["args"]
                if (name.endswith("::split_at") or name.endswith("::split_at_mut")) and "str" not in name and len(args) == 2 \
                        and args[0].get("o") in ("copy", "move") and not args[0]["p"]:
                    mid = self.form(args[1])
                    base = self.len_form(args[0]["l"])
                    if mid is None:
                        return
                    which = rv["a"]["p"][0][1]
                    eq = mid if which == 0 else (base.add(mid, -1) if base is not None else None)
                    if eq is not None:
                        self._fact(a, x.add(eq, -1))
                        self._fact(a, eq.add(x, -1))

    # -- facts from dominating branch edges -----------------------------------------------------------------------
    def branch_facts(self, site_block, own_def_ok=False):
        v = self.v
        out = []
        self._diseq[site_block] = []
        for b in v.dom.get(site_block, ()):
            t = v.blocks[b]["term"]
            if t["t"] != "switch":
                continue
            dsc = t["discr"]
            if dsc.get("o") not in ("copy", "move"):
                continue
            if dsc["p"]:
                self._int_switch_facts(b, t, dsc, site_block, out)     # `match (a.len(), b.len())`: field of a tuple
                continue
            ch = v.chase(dsc)
            neg = False
            if ch[0] == "rv" and ch[1]["r"] == "un" and ch[1]["op"] == "Not":
                ch = v.chase(ch[1]["a"])
                neg = True
            if not (ch[0] == "rv" and ch[1]["r"] == "bin" and ch[1]["op"] in ("Lt", "Le", "Gt", "Ge", "Eq", "Ne")):
                # `match x.len() { 1 => .., 2 => .., _ => .. }`: a switch on the integer itself
                if not neg:
                    self._int_switch_facts(b, t, dsc, site_block, out)
                continue
            for s in v.succ.get(b, []):
                vals = [val for val, bb in t["targets"] if bb == s]
                truths = {bool(val) for val in vals}
                if t["otherwise"] == s:
                    truths |= ({True, False} - {bool(val) for val, _ in t["targets"]})
                if len(truths) != 1 or not v.edge_dominates(b, s, site_block):
                    continue
                truth = truths.pop() != neg
                fa, fb = self.form(ch[1]["a"], at=ch[2]), self.form(ch[1]["b"], at=ch[2])
                if fa is None or fb is None:
                    continue
                caps = fa.caps | fb.caps
                if caps and not all((cb == b and self._valid_between(x, b, s, site_block,
                                                                     ignore_block=site_block if own_def_ok else None))
                                    or (cb != b and self._cap_ok_at(x, cb, site_block, own_def_ok))
                                    for x, cb in caps):
                    continue      # a re-assigned local may have changed between the test and the site
                op = ch[1]["op"]
                if not truth:
                    op = {"Lt": "Ge", "Le": "Gt", "Gt": "Le", "Ge": "Lt", "Eq": "Ne", "Ne": "Eq"}[op]
                if op == "Lt":
                    out.append(fb.add(fa, -1).add(Form(1), -1))
                elif op == "Le":
                    out.append(fb.add(fa, -1))
                elif op == "Gt":
                    out.append(fa.add(fb, -1).add(Form(1), -1))
                elif op == "Ge":
                    out.append(fa.add(fb, -1))
                elif op == "Eq":
                    out.append(fa.add(fb, -1))
                    out.append(fb.add(fa, -1))
                elif op == "Ne":
                    self._diseq.setdefault(site_block, []).append(fa.add(fb, -1))
        return out

    def _discr_form(self, dsc):
        """Linear form of an integer switch discriminant: a plain local, or field i of a tuple literal
        (`match (a.len(), b.len())`)."""
        v = self.v
        if dsc.get("o") not in ("copy", "move"):
            return None
        if not dsc["p"]:
            if v.local_tyname(dsc["l"]) not in ("usize", "u64", "u32", "u16", "u8", "u128"):
                return None
            return self.form(dsc)
        if len(dsc["p"]) == 1 and dsc["p"][0][0] == "f":
            d = v.single_def(dsc["l"])
            if d is not None and d[1] != "term" and d[2]["rv"]["r"] == "agg" and v.local_ty(dsc["l"]).get("k") == "tuple":
                ops = d[2]["rv"]["ops"]
                i = dsc["p"][0][1]
                if i < len(ops) and dsc["l"] not in self._mut:
                    o = ops[i]
                    if o.get("o") == "const" or (not o["p"] and v.local_tyname(o["l"]) in ("usize", "u64", "u32", "u16", "u8", "u128")):
                        return self.form(o)
        return None

    def _int_switch_facts(self, b, t, dsc, site_block, out):
        v = self.v
        f = self._discr_form(dsc)
        if f is None:
            return
        for s in v.succ.get(b, []):
            if not v.edge_dominates(b, s, site_block):
                continue
            vals = [val for val, bb in t["targets"] if bb == s]
            if t["otherwise"] == s and not vals:
                for val, _bb in t["targets"]:
                    self._diseq.setdefault(site_block, []).append(f.add(Form(val), -1))
            elif len(vals) == 1 and t["otherwise"] != s:
                out.append(f.add(Form(vals[0]), -1))
                out.append(Form(vals[0]).add(f, -1))

    # -- proving ----------------------------------------------------------------------------------------------------
    def _pre_facts(self):
        out = []
        for f in self.pre:
            g = Form(f.c)
            ok = True
            for a, k in f.t.items():
                if a[0] == "arglen":
                    lf = self.len_form(a[1])
                elif a[0] == "arg":
                    lf = self.local_form(a[1])
                elif a[0] == "param":
                    lf = self._param(a[1])
                else:
                    lf = None
                if lf is None:
                    ok = False
                    break
                g = g.add(lf, k)
            if ok:
                out.append(g)
        return out

    def facts_for(self, goal, site_block, own_def_ok=False):
        facts = list(self._pre_facts())
        if site_block is not None:
            facts.extend(self.branch_facts(site_block, own_def_ok))
        # close over the atoms mentioned
        seen = set()
        work = list(goal.t) + [a for f in facts for a in f.t]
        n = 0
        while work and n < 200:
            n += 1
            a = work.pop()
            if a in seen:
                continue
            seen.add(a)
            if a[0] == "u":
                fs = self._unstable_facts(a[1])
                ib = self._u_init.get(a[1])
                if not fs or ib is None or site_block is None or ib == site_block or ib not in self.v.dom.get(site_block, ()):
                    continue
                for f in fs:
                    facts.append(f)
                    work.extend(f.t)
                continue
            for f in self._atom_facts.get(a, []):
                facts.append(f)
                work.extend(f.t)
        if self.type_bound is not None:
            atoms = set(goal.t)
            for f in facts:
                atoms |= set(f.t)
            for a in atoms:
                if a[0] in ("l", "u") and self.v.local_tyname(a[1]) == "u128":
                    continue
                facts.append(Form(self.type_bound).add(atom_form(a), -1))
        uniq = {}
        for f in facts:
            if not f.trivially_nonneg():
                uniq[f.key()] = f
        return list(uniq.values())

    def prove(self, goal, site_block=None, need_dom=None, own_def_ok=False):
        """goal >= 0 ?"""
        if site_block is None:
            site_block = need_dom
        if goal.trivially_nonneg():
            return True
        for x, cb in goal.caps:
            # the goal speaks about the value a re-assigned local has where it was read: that must be the site's block,
            # with no other definition of the local in it (own_def_ok: the block's definition is the step being proved)
            if not self._cap_ok_at(x, cb, site_block, own_def_ok):
                return False
        facts = self.facts_for(goal, site_block, own_def_ok)
        # integer disequalities on dominating edges: d != 0 and d >= 0 give d - 1 >= 0
        pending = list(self._diseq.get(site_block, []))
        for _round in range(4):     # x != 1 and x >= 1 give x >= 2, which with x != 2 gives x >= 3, ...
            rest = []
            for d in pending:
                if self._search(d, facts):
                    facts.append(d.add(Form(1), -1))
                elif self._search(Form(0).add(d, -1), facts):
                    facts.append(Form(0).add(d, -1).add(Form(1), -1))
                else:
                    rest.append(d)
            if len(rest) == len(pending):
                break
            pending = rest
        return self._search(goal, facts)

    @staticmethod
    def _search(goal, facts):
        if goal.trivially_nonneg():
            return True
        seen = set()

        def rec(e, depth):
            if e.trivially_nonneg():
                return True
            if depth == 0:
                return False
            k = e.key()
            if k in seen:
                return False
            seen.add(k)
            for f in facts:
                for a, fv in f.t.items():
                    ev = e.t.get(a)
                    if ev is None or (ev > 0) != (fv > 0):
                        continue
                    if ev > 0 and e.c >= 0 and all(x >= 0 for x in e.t.values()):
                        continue
                    lam = ev / fv
                    if rec(e.add(f, -lam), depth - 1):
                        return True
            return False
        return rec(goal, 5)

    def blame(self, forms):
        """Descriptions of the unsigned subtractions that could not be proved not to wrap and that the given forms
        depend on (directly, or through the facts of their atoms: `j <= m` with `m = len - n - 1`)."""
        seen, work, out = set(), [a for f in forms if f is not None for a in f.t], []
        n = 0
        while work and n < 200:
            n += 1
            a = work.pop()
            if a in seen:
                continue
            seen.add(a)
            if a[0] == "l" and a[1] in self.failed_subs and self.failed_subs[a[1]] not in out:
                out.append(self.failed_subs[a[1]])
            for f in self._atom_facts.get(a, []):
                work.extend(f.t)
        return sorted(out)

    # -- goals of the site kinds -------------------------------------------------------------------------------------
    def lt(self, a_form, b_form, site_block):
        return self.prove(b_form.add(a_form, -1).add(Form(1), -1), site_block)

    def le(self, a_form, b_form, site_block):
        return self.prove(b_form.add(a_form, -1), site_block)


_HELPER_MEMO = {}


def helper_summary(prog, key):
    """(k, c) when the local function `key` returns -- as a usize or as the payload of an Option<usize> -- `i + c`
    with i an index into the slice parameter k that `position` / `rposition` found (0 <= i < len(param k)); else None.
    Decided on the helper's own MIR: the returned local is the result of rposition/position on `param.iter()`,
    optionally passed through `Option::map` with a closure whose body is `arg + const`."""
    if key in _HELPER_MEMO:
        return _HELPER_MEMO[key]
    _HELPER_MEMO[key] = None
    b = prog.bodies.get(key)
    if b is None or b["kind"] not in ("Fn", "AssocFn") or len(b["blocks"]) > 30:
        return None
    v = prog.view(key, None)
    P = Prover(v)
    d = v.single_def(0)
    c = 0
    hops = 0
    while d is not None and hops < 4:
        hops += 1
        if d[1] != "term":
            rv = d[2]["rv"]
            if rv["r"] == "use" and rv["a"].get("o") in ("copy", "move") and not rv["a"]["p"]:
                d = v.single_def(rv["a"]["l"])
                continue
            return None
        t = d[2]
        name = ir.callee_name(t["fn"]) or ""
        args = t["args"]
        if name.startswith("core::option::Option::<") and name.endswith("::map") and len(args) == 2:
            clo = args[1]
            ck = None
            if clo.get("o") == "const" and clo.get("c") in ("closure", "fn"):
                ck = clo.get("res") or clo.get("def")
            elif clo.get("o") in ("copy", "move") and not clo["p"]:
                cd = v.single_def(clo["l"])
                if cd is not None and cd[1] != "term" and cd[2]["rv"]["r"] == "agg" and cd[2]["rv"].get("kind") == "closure" \
                        and not cd[2]["rv"]["ops"]:
                    ck = cd[2]["rv"]["def"]
            if ck is None or ck not in prog.bodies:
                return None
            cv = prog.view(ck, None)
            CP = Prover(cv)
            cd0 = cv.single_def(0)
            if cd0 is None or cd0[1] == "term":
                return None
            f = CP.form({"o": "copy", "l": 0, "p": []})
            # the closure's value parameter is local 2 (local 1 is the closure environment)
            if f is None or set(f.t) != {("l", 2)} or f.t[("l", 2)] != 1 or f.c < 0 or f.c.denominator != 1:
                return None
            c += int(f.c)
            if not (args[0].get("o") in ("copy", "move") and not args[0]["p"]):
                return None
            d = v.single_def(args[0]["l"])
            continue
        if name.endswith("::rposition") or name.endswith("::position"):
            if not args or args[0].get("o") not in ("copy", "move") or args[0]["p"]:
                return None
            it = args[0]["l"]
            for _ in range(6):
                dd = v.single_def(it)
                if dd is None:
                    return None
                if dd[1] == "term":
                    n2 = ir.callee_name(dd[2]["fn"]) or ""
                    if n2 in ("core::slice::<impl [T]>::iter", "core::slice::<impl [T]>::iter_mut") and dd[2]["args"]:
                        o = dd[2]["args"][0]
                        if o.get("o") in ("copy", "move") and not o["p"]:
                            r = P.root(o["l"])
                            if v.is_arg(r) and P.stable(r):
                                _HELPER_MEMO[key] = (r, c)
                                return _HELPER_MEMO[key]
                    return None
                rv = dd[2]["rv"]
                if rv["r"] == "ref" and (rv["pl"]["p"] == [] or rv["pl"]["p"] == ["deref"]):
                    it = rv["pl"]["l"]
                    continue
                if rv["r"] == "use" and rv["a"].get("o") in ("copy", "move") and not rv["a"]["p"]:
                    it = rv["a"]["l"]
                    continue
                return None
            return None
        return None
    return None


def parse_pre(view, specs):
    """specs: list of strings like 'len(2) >= 3', 'len(1) >= len(2)', 'N >= 1' -> Forms (>= 0)."""
    import re
    out = []

    def term(s):
        s = s.strip()
        m = re.fullmatch(r"len\((\d+)\)", s)
        if m:
            return atom_form(("arglen", int(m.group(1))))
        m = re.fullmatch(r"arg\((\d+)\)", s)
        if m:
            return atom_form(("arg", int(m.group(1))))
        if re.fullmatch(r"\d+", s):
            return Form(int(s))
        if re.fullmatch(r"[A-Z]+", s):
            return atom_form(("param", s))
        raise ValueError(s)

    def side(s):
        f = Form(0)
        for i, part in enumerate(re.split(r"\s*\+\s*", s.strip())):
            f = f.add(term(part))
        return f
    for sp in specs:
        l, r = sp.split(">=")
        out.append(side(l).add(side(r), -1))
    return out
