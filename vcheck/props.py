"""Property -> rules mapping, level texts, assumptions."""
from .rules import limbs

COMMON_ASSUMPTIONS = [
    "rustc's type checker, trait resolution, MIR construction and constant evaluation are correct "
    "(facts come from nightly 1.97; shipped code is compiled by stable 1.95: same front-end semantics assumed)",
    "analysed target is x86_64 little-endian; cfg(target_endian=\"big\"), cfg(test) and cfg(doc) code is not analysed",
    "foreign crates are leaves: assumed to meet their documented post-conditions and unable to touch limb storage "
    "(private field)",
]


def rules_C04(ctx):
    reps = []
    for cfg in ctx.build_configs(quick=("all", "all-norand09")):
        r = limbs.run(ctx, cfg)
        if cfg != "all":
            r.rule = r.rule  # same rule, other build configuration; keys are identical and de-duplicated below
        reps.append(r)
    return merge_same_rule(reps)


def merge_same_rule(reps):
    """Merge reports of the same rule run on several build configurations:
    an obligation key is ok only if it is ok wherever it occurs."""
    out = {}
    order = []
    for r in reps:
        if r.rule not in out:
            out[r.rule] = r
            order.append(r.rule)
            r._seen = {o.key: o for o in r.obligations}
            r.analysed = {"per_build_config": [r.analysed]}
            continue
        base = out[r.rule]
        base.analysed["per_build_config"].append(r.analysed)
        for o in r.obligations:
            prev = base._seen.get(o.key)
            if prev is None:
                base.obligations.append(o)
                base._seen[o.key] = o
            elif prev.status != "violation" and o.status == "violation":
                base.obligations[base.obligations.index(prev)] = o
                base._seen[o.key] = o
        for f in r.floors:
            base.floors.append((f[0] + "@" + str(len(base.analysed["per_build_config"])), f[1], f[2]))
        base.notes.extend(r.notes)
    return [out[k] for k in order]


PROPS = {
    "C04": {
        "level": "other",
        "rules": rules_C04,
        "text": "Structural clauses of C04 decided for all paths, all enabled integrations and the evaluated "
                "(BITS, LIMBS) configurations: every producer of a Uint forces the LIMBS assertion (R-LIMBS). "
                "The numerical behaviour (that cmp scans most-significant first, that kernels return in-range "
                "values) is NOT decided.",
        "not_decided": ["that algorithms::cmp orders limbs most-significant first",
                        "value claims of the arithmetic kernels (quotient <= numerator, remainder < divisor)"],
    },
}

# properties not yet claimed in this round, with the reason shown in MANIFEST.not_applicable
PENDING = {}
