"""Property -> rules mapping, level texts, assumptions."""
from . import entries
from .rules import (canon, castfit, codec, extremes, facade, flag, floatrule, guard, limbs, macro, sibling, structural, table, total_rule, unimpl,
                    variant, witness)

COMMON_ASSUMPTIONS = [
    "rustc's type checker, trait resolution, MIR construction and constant evaluation are correct "
    "(facts come from nightly 1.97; shipped code is compiled by stable 1.95: same front-end semantics assumed)",
    "analysed target is x86_64 little-endian; cfg(target_endian=\"big\"), cfg(test) and cfg(doc) code is not analysed",
    "release semantics (-Cdebug-assertions=off): debug_assert! bodies and arithmetic-overflow checks are not panic sites",
    "foreign crates are leaves: assumed to meet their documented post-conditions and unable to touch limb storage "
    "(private field); value-range summaries of core functions (leading_zeros in [0,64], Range::next < end, "
    "slice::len) are trusted",
    "implicit panic sites (bounds checks, slice ranges) inside src/algorithms/div and src/algorithms/gcd are inventoried "
    "by the properties that own those kernels (C03, C11, C12, C14) and are trusted leaves for the others; explicit "
    "sites there are inventoried by all; arithmetic-overflow assertions inside those two directories are trusted leaves "
    "in the overflow-checks clause",
    "D-lin (vcheck/linear.py): unsigned additions bounded by a slice length do not wrap; the documented length "
    "preconditions of tables/linear_pre.json are assumed inside the named kernels and proved at their call sites",
]

TOTAL_FLOORS = {"C11": 4, "C12": 14, "C14": 14, "C15": 15, "C01": 28, "C02": 13, "C03": 7, "C05": 98, "C06": 36, "C07": 54, "C08": 11, "C09": 12, "C10": 5,
                "C13": 8, "C16": 30, "C17": 48, "C18": 6, "C20": 150}


KERNEL_PROPS = ("C03", "C11", "C12", "C14")    # properties that own the division / GCD / Montgomery kernels


def merge_same_rule(reps):
    """Merge reports of one rule run on several build configurations: an obligation key
    is ok only if it is ok wherever it occurs."""
    out = {}
    order = []
    for r in reps:
        if r.rule not in out:
            out[r.rule] = r
            order.append(r.rule)
            r._seen = {o.key: o for o in r.obligations}
            r.analysed = {"per_build_config": [r.analysed]}
            continue
        base = out[r.rule]
        base.analysed["per_build_config"].append(r.analysed)
        for o in r.obligations:
            prev = base._seen.get(o.key)
            if prev is None:
                base.obligations.append(o)
                base._seen[o.key] = o
            elif prev.status != "violation" and o.status == "violation":
                base.obligations[base.obligations.index(prev)] = o
                base._seen[o.key] = o
        for f in r.floors:
            base.floors.append((f[0] + "@" + str(len(base.analysed["per_build_config"])), f[1], f[2]))
        base.notes.extend(r.notes)
    return [out[k] for k in order]


def total_for(pid, ctx, own_only=False):
    reps = []
    for cfg in ctx.build_configs(quick=("all",), thorough=("all", "all-norand09", "default", "nodefault")):
        floor = TOTAL_FLOORS[pid] if cfg.startswith("all") else 0
        reps.append(total_rule.run(ctx, entries.TOTAL_ENTRIES[pid], floor, cfg, label=pid, own_only=own_only,
                                   kernels=pid in KERNEL_PROPS))
    return merge_same_rule(reps)


def rules_C04(ctx):
    reps = []
    for cfg in ctx.build_configs(quick=("all", "all-norand09"), thorough=("all", "all-norand09", "default", "nodefault")):
        reps.append(limbs.run(ctx, cfg) if cfg.startswith("all") else limbs.run(ctx, cfg, floors=False))
    out = merge_same_rule(reps)
    out.append(canon_for(ctx))
    out.append(structural.mutref(ctx))
    out.append(structural.wf(ctx))
    out.append(structural.eqord(ctx))
    out.append(structural.maskkind(ctx))
    out.append(witness.run(ctx, "C04"))
    return out


def rules_C19(ctx):
    return [witness.run(ctx, "C19"), macro.run(ctx)]


def canon_for(ctx, files=None):
    scope = None
    if files:
        scope = (lambda b: b["file"] in files)
    return canon.run(ctx, "all", scope=scope)


def rules_with_canon(pid, files, extra=None):
    def f(ctx):
        reps = total_for(pid, ctx) + overflow_for(pid, ctx) + [canon_for(ctx, files)]
        if extra:
            reps += extra(ctx)
        return reps
    return f


def rules_C07(ctx):
    return total_for("C07", ctx) + overflow_for("C07", ctx) + [structural.maskkind(ctx), flag.lowlimb(ctx), variant.run(ctx, "all", ["conv"]),
                                    guard.try_from_u64_model(ctx), castfit.run(ctx), castfit.payload_limbs(ctx),
                                    flag.feasible_failure(ctx, "all", {"crate::Uint::<BITS, LIMBS>::overflowing_from_limbs_slice"})]


OPERATOR_TRAITS = {
    "C01": ({"Add", "AddAssign", "Sub", "SubAssign", "Neg", "Sum"}, 16),
    "C02": ({"Mul", "MulAssign", "Product"}, 8),
    "C03": ({"Div", "DivAssign", "Rem", "RemAssign"}, 12),
    "C05": ({"Shl", "ShlAssign", "Shr", "ShrAssign"}, 88),
    "C06": ({"BitAnd", "BitAndAssign", "BitOr", "BitOrAssign", "BitXor", "BitXorAssign", "Not"}, 20),
}


def operators_for(pid):
    """The operator surface of one arithmetic property: the core::ops impls forward to the inherent method with the
    operands in order (R-FACADE restricted to those traits)."""
    tr, fl = OPERATOR_TRAITS[pid]
    return lambda ctx: [facade.run(ctx, "all", traits=tr, floor=fl)]


def flag_for(files, ops=None):
    return lambda ctx: [flag.flag(ctx, "all", files)] + ([variant.run(ctx, "all", ops), flag.flag_range(ctx, "all", ops)]
                                                        if ops else [])


def rules_C05(ctx):
    return total_for("C05", ctx) + overflow_for("C05", ctx) + [canon_for(ctx, {"src/bits.rs"}), flag.flag(ctx, "all", {"src/bits.rs"}),
                                    flag.lowlimb(ctx), variant.run(ctx, "all", ["shl", "shr"]),
                                    flag.flag_range(ctx, "all", ["shl", "shr"])] + operators_for("C05")(ctx)


def rules_C09(ctx):
    return total_for("C09", ctx) + overflow_for("C09", ctx) + [flag.flag(ctx, "all", {"src/base_convert.rs"}), table.alphabets(ctx),
                                    table.prefixes(ctx), canon_for(ctx, {"src/base_convert.rs", "src/string.rs"}),
                                    flag.feasible_failure(ctx, "all", {"crate::base_convert::<impl crate::Uint<BITS, LIMBS>>::from_base_be",
                                                                       "crate::base_convert::<impl crate::Uint<BITS, LIMBS>>::from_base_le"})]


def rules_C13(ctx):
    return total_for("C13", ctx) + overflow_for("C13", ctx) + [flag.flag(ctx, "all", {"src/pow.rs"}), variant.run(ctx, "all", ["pow"]),
                                    flag.flag_range(ctx, "all", ["pow"])]


def rules_C20(ctx):
    reps = []
    for cfg in ctx.build_configs(quick=("all",), thorough=("all", "all-norand09", "default")):
        reps.append(facade.run(ctx, cfg))
    return merge_same_rule(reps) + [sibling.run(ctx)] + total_for("C20", ctx, own_only=True)


def rules_C18(ctx):
    return total_for("C18", ctx) + [floatrule.run(ctx)]


def rules_total_only(pid, own_only=False):
    def f(ctx):
        return total_for(pid, ctx, own_only)
    return f


def rules_C03(ctx):
    return total_for("C03", ctx) + overflow_for("C03", ctx) + [unimpl.run(ctx, "all"), guard.zero_divisor(ctx)] + operators_for("C03")(ctx)


KERNEL_FILES = ("src/algorithms/mul.rs", "src/algorithms/add.rs", "src/algorithms/ops.rs", "src/algorithms/shift.rs",
                "src/algorithms/mod.rs")


def rules_C11(ctx):
    return total_for("C11", ctx) + [total_rule.run_overflow(ctx, entries.TOTAL_ENTRIES["C11"], TOTAL_FLOORS["C11"], label="C11",
                                                            discharged_floor=3)]


def rules_C12(ctx):
    return total_for("C12", ctx)


def rules_C14(ctx):
    return total_for("C14", ctx)


def rules_C15(ctx):
    return total_for("C15", ctx) + overflow_for("C15", ctx) + [
        flag.carry_liveness(ctx, "all", files=KERNEL_FILES, label="C15", floor=4),
        flag.flag(ctx, "all", {"src/algorithms/mul.rs"}),
        extremes.kernels(ctx)]


def rules_C16(ctx):
    return total_for("C16", ctx) + overflow_for("C16", ctx) + [codec.run(ctx), codec.compact_modes(ctx), codec.rlp_headers(ctx), codec.rlp_lengths(ctx), codec.der_lengths(ctx),
                                                               structural.wf(ctx, marker_generic=False)]


def overflow_for(pid, ctx):
    return [total_rule.run_overflow(ctx, entries.TOTAL_ENTRIES[pid], TOTAL_FLOORS[pid], label=pid)]


def rules_C17(ctx):
    return total_for("C17", ctx) + overflow_for("C17", ctx) + [guard.c17(ctx), guard.fixed_length(ctx)]


def rules_C08(ctx):
    return total_for("C08", ctx) + overflow_for("C08", ctx) + [canon_for(ctx, {"src/bytes.rs"}), guard.buffers(ctx), guard.slice_length(ctx), guard.write_extent(ctx),
                                    flag.feasible_failure(ctx, "all", {"crate::bytes::<impl crate::Uint<BITS, LIMBS>>::try_from_be_slice",
                                                                       "crate::bytes::<impl crate::Uint<BITS, LIMBS>>::try_from_le_slice"})]


def rules_C10(ctx):
    return total_for("C10", ctx) + overflow_for("C10", ctx) + [canon_for(ctx, {"src/modular.rs"}), flag.flag(ctx, "all", {"src/modular.rs"}),
                                    guard.zero_divisor(ctx)]


PARTIAL = ("Structural clauses of %s decided for all paths, all enabled integrations and the evaluated (BITS, LIMBS) "
           "configurations: %s. The numerical behaviour (%s) is NOT decided.")


def P(pid, clauses, not_decided_short, rules, not_decided):
    return {"level": "other", "rules": rules, "text": PARTIAL % (pid, clauses, not_decided_short),
            "not_decided": not_decided}


PROPS = {
    "C01": P("C01", "(a) no panic site reachable from any add/sub/neg form, operator shape or Sum (R-TOTAL); (b) every "
             "returned value is canonical on every path in every non-aligned configuration (R-CANON typestate); (c) the "
             "carry/borrow of each carrying_add/borrowing_sub and the `> MASK` comparison both reach the returned flag, no "
             "overflow indicator is dropped (R-FLAG); the indicator of overflowing_add/sub/neg can be false for BITS == 0 "
             "and is not provably constant for BITS > 0 (R-FLAG/flag-range, interval interpretation with summaries of the "
             "pairs callees return); (d) each checked_/saturating_/wrapping_ variant delegates to the overflowing_ root of "
             "its family or shares an arithmetic kernel with it, and saturates to the right bound (R-VARIANT); (e) in overflow-"
             "checked (debug) builds no add/sub/neg entry reaches an undischarged arithmetic-overflow assertion (R-TOTAL/"
             "overflow-checks); (f) each of the 16 + - Neg Sum operator impls forwards to its inherent method with the "
             "operands in order (R-FACADE/operators)",
             "that the limb-wise carry chain computes the sum (e.g. seeded C01-carrying_add-compare is missed)",
             rules_with_canon("C01", {"src/add.rs"}, lambda ctx: flag_for({"src/add.rs"}, ["add", "sub", "neg"])(ctx) + operators_for("C01")(ctx) + [
                 flag.carry_liveness(ctx, "all", files=("src/add.rs", "src/algorithms/mod.rs"), label="C01", floor=2)]),
             ["that the limb-wise carry chain computes the sum/difference", "abs_diff's value"]),
    "C02": P("C02", "(a) no undischarged panic site under any mul form, inv_ring, Product (R-TOTAL; widening_mul's two "
             "assert_eq! are documented); (b) results canonical on every path, incl. inv_ring for single-limb widths "
             "(R-CANON); (c) addmul's return and the `> MASK` comparison reach overflowing_mul's flag, addmul's own "
             "carries reach its overflow (R-FLAG), the indicator is not constant where it must vary (R-FLAG/flag-range); (d) "
             "variants delegate to overflowing_mul or share its kernels (R-VARIANT); (e) bounds checks and slice ranges "
             "inside the multiplication kernels (addmul, addmul_n, addmul_nx1, cmp) are in scope and all discharged, and no "
             "entry reaches an undischarged overflow assertion in overflow-checked builds (R-TOTAL/overflow-checks); (f) the 8 "
             "* / Product operator impls forward to the inherent method (R-FACADE/operators)",
             "products, addmul's truncation bookkeeping (seeded C02-addmul-truncated-row-flag is missed), Hensel lifting",
             rules_with_canon("C02", {"src/mul.rs"}, lambda ctx: flag_for({"src/mul.rs", "src/algorithms/mul.rs"}, ["mul"])(ctx) + operators_for("C02")(ctx) + [
                 flag.carry_liveness(ctx, "all", files=("src/mul.rs", "src/algorithms/mul.rs", "src/algorithms/ops.rs"),
                                     label="C02", floor=2)]),
             ["products", "trimming / truncation bookkeeping in addmul", "Hensel lifting"]),
    "C03": P("C03", "(a) checked_div/checked_rem/checked_next_multiple_of and their num-traits facades reach the 'Divisor "
             "is zero' site only behind a dominating non-zero test of that call's divisor (R-TOTAL, D-zero predicate "
             "propagated through div_rem/wrapping_div/Div); (b) div_rem, wrapping_div/rem, div_ceil call the kernel on every "
             "path to every return, so a zero divisor reaches the documented panic (R-GUARD/zero-divisor); (c) no todo!/"
             "unimplemented! is reachable from any public item of the crate (R-UNIMPL); (d) no overflow assertion outside "
             "the division kernels is undischarged in overflow-checked builds (R-TOTAL/overflow-checks, 1 reviewed row); (e) the "
             "12 / % operator impls forward to the inherent method with dividend and divisor in order (R-FACADE/operators); "
             "(f) with a non-zero divisor the checked forms reach no panic site inside the division kernels either: every "
             "bounds check, slice range, copy_from_slice and copy_within of src/algorithms/div is inventoried and "
             "discharged -- intervals, or D-lin, a linear-inequality domain over slice lengths, loop ranges / counters and "
             "the kernels' documented length preconditions, which are proved at their call sites (R-TOTAL with kernel "
             "scope; the 1x1 native division is a reviewed row)",
             "the Euclidean contract (quotient and remainder values); arithmetic-overflow assertions inside the kernels in "
             "overflow-checked builds",
             rules_C03, ["the Euclidean contract", "values of div_ceil / next_multiple_of",
                         "overflow assertions inside src/algorithms/div in overflow-checked builds"]),
    "C04": P("C04", "(i) every public constant/function that can bring a Uint/Bits into existence reaches a body that "
             "evaluates Uint::LIMBS for its own (BITS, LIMBS), with delegation through generic dispatch discharged by "
             "induction over local candidate impls (R-LIMBS, both rand configurations) and confirmed by 76 compile-fail "
             "witnesses with compiling twins (R-WITNESS); (ii) every function that writes limb storage re-establishes "
             "limbs[LIMBS-1] <= MASK on every path to every exit in 11 non-aligned configurations, and no non-canonical "
             "value is passed on except to a verified sanitiser (R-CANON; 11 reviewed rows, 7 with machine-checked side "
             "conditions); (iii) the limb field is private and only unsafe fns hand out mutable storage (R-MUTREF); concrete "
             "pairs in aliases/impl headers are well-formed, Pod impls only for BITS = 64*LIMBS, no generic constructor-"
             "providing marker impl (R-WF; open known finding: bytemuck::Zeroable); Eq/Hash derived, Ord::cmp = "
             "algorithms::cmp(self, rhs), partial_cmp = Some(cmp) (R-EQORD); MASK used as a bit mask only (R-MASKKIND). "
             "(i)-(iii) are an inductive argument for closure of the canonical set under every operation",
             "that cmp scans most-significant first, kernel value claims (q <= n, r < d, shr monotone: trusted rows)",
             rules_C04,
             ["that algorithms::cmp orders limbs most-significant first",
              "value claims of the arithmetic kernels behind the trusted R-CANON rows"]),
    "C05": P("C05", "(a) no shift/rotate form or operator overload (88 integer-typed + 8 Uint-typed shapes) reaches a "
             "panic site; every limb index in overflowing_shl/shr is in range by the `limbs >= LIMBS` guard (R-TOTAL with "
             "relational interval facts); (b) results canonical (R-CANON); (c) the flag of overflowing_shl depends on a "
             "comparison with MASK and, for both directions, on reads of self outside the shifted window (R-FLAG mask-/"
             "window-discard); (d) a Uint-typed shift amount is never used through its low limb without a whole-value "
             "check (R-LOWLIMB); (e) variants delegate to overflowing_shl resp. overflowing_shr (R-VARIANT), whose "
             "indicators can be false for BITS == 0 and are not constant otherwise (R-FLAG/flag-range); (f) no shift / "
             "rotate entry reaches an undischarged overflow assertion in overflow-checked builds (R-TOTAL/overflow-checks); "
             "(g) the 88 << >> operator impls forward to the inherent shift of their own direction with value and amount "
             "in order (R-FACADE/operators)",
             "bit positions, rotation arithmetic, sign fill; exactness of the flag beyond the structural clauses (seeded "
             "C05-shr-flag-trailing_zeros is missed)", rules_C05,
             ["bit positions", "rotation arithmetic", "sign fill", "exactness of the lost-bit flag"]),
    "C06": P("C06", "(a) bit/set_bit/checked_byte/counting functions reach no undischarged panic site, index guards "
             "dominate the limb accesses (R-TOTAL); (b) not/bit-ops/set_bit keep values canonical (R-CANON rows with "
             "guard / callee-identity side conditions); (c) Uint::byte panics exactly for index >= BYTES in every "
             "configuration (R-GUARD/byte); (d) overflow assertions of the counting functions in overflow-checked builds: "
             "discharged or one of 7 reviewed arithmetic rows (R-TOTAL/overflow-checks); (e) each of the 8 counting functions "
             "can return 0 and can return BITS (BYTES for byte_len) in every configuration: the interval over-approximation "
             "of its return value contains both extremes (R-EXTREMES); (f) the 20 ! & | ^ operator impls forward to the "
             "inherent operation (R-FACADE/operators)", "every counting function's value between the extremes, "
             "most_significant_bits",
             rules_with_canon("C06", {"src/bits.rs"}, lambda ctx: [guard.byte_panics(ctx), extremes.run(ctx)] + operators_for("C06")(ctx)),
             ["values of the counting functions", "most_significant_bits", "reverse_bits"]),
    "C07": P("C07", "(a) every TryFrom/wrapping/saturating conversion in either direction and the *_from_limbs_slice "
             "constructors reach no undischarged panic site: each asserting from_limbs is behind a top-limb bound "
             "(R-TOTAL, callee-guard refutation); (b) MASK is never an operand of % / + - * (R-MASKKIND); (c) low-limb "
             "reads of a Uint that reach a success value are dominated by a whole-value observer (R-LOWLIMB), and on every "
             "success path of the 26 Uint->primitive conversions each narrowing cast / left shift is value preserving for "
             "the limb interval the dominating checks leave -- bit_len / leading_zeros bounds, direct limb comparisons and "
             "exact cast round-trip fixed points are understood (R-CASTFIT), and the wrapped payload of FromUintError::Overflow "
             "reads every limb the target type spans (R-CASTFIT/payload); (d) wrapping_to/saturating_to project the "
             "wrapped resp. maximum payload, saturating_from maps error kinds to MAX/ZERO (R-VARIANT); (e) TryFrom<u64> "
             "builds an error only where the argument's interval lies above 2^BITS - 1 and Ok only where it lies within, in "
             "every configuration (however the test is written), signed conversions produce ValueNegative exactly on "
             "is_negative (R-GUARD); (f) the slice constructor can report overflow in every configuration incl. BITS = 0 "
             "(R-FLAG/feasible-failure); (g) no conversion entry reaches an undischarged overflow assertion in overflow-"
             "checked builds (R-TOTAL/overflow-checks)", "that wrapped payloads equal v mod 2^BITS", rules_C07,
             ["wrapped payload values"]),
    "C08": P("C08", "(a) try_from_{be,le}_slice, checked_copy_* and the slice/vec byte forms reach no undischarged panic "
             "site in any configuration, the asserting from_limbs only behind a top-limb check (R-TOTAL); (b) byte-form "
             "writers keep values canonical (R-CANON); (c) checked_copy_* touch the buffer only behind the length guard "
             "(R-GUARD/buffers), and the slice parsers build a non-None result only where the slice is at most BYTES long "
             "(R-GUARD/slice-length, interval of the slice length), and copy_{le,be}_bytes_to hand at most BYTES bytes of the "
             "caller's buffer to any writing callee (R-GUARD/write-extent); (d) the slice parsers can fail in every configuration (R-FLAG/feasible-failure); (e) in a "
             "build with arithmetic overflow checks (debug) no byte-form entry reaches an undischarged overflow assertion "
             "(R-TOTAL/overflow-checks on the -C overflow-checks=on MIR, 5 reviewed rows)",
             "digit order inside the loops, trimmed lengths (seeded C08-trimmed-length-arithmetic is reported only "
             "incidentally), round trip", rules_C08, ["digit order inside the loops", "trimmed lengths", "round trip"]),
    "C09": P("C09", "(a) the char->digit map of from_str_radix equals the documented alphabets on every cell of the "
             "partition of the whole char domain (exact abstract evaluation, 56 cells) and its image is exactly [0,36) "
             "resp. [0,64) (when the map is a function of a char parameter; otherwise not decided); no char is truncated by a "
             "narrowing cast on its way to a digit (`c as u8` only behind an ASCII test; intervals); prefix table "
             "{0x,0X,0o,0O,0b,0B} and formatter PREFIX/MAX/WIDTH constants agree where located (R-TABLE); "
             "(b) parsers and formatters reach no undischarged panic site (R-TOTAL); (c) from_base_* keep the carry and the "
             "`> MASK` test in the Overflow path and return canonical values (R-FLAG, R-CANON), and can fail in every "
             "configuration; (d) no parser/formatter entry reaches an arithmetic-overflow assertion in overflow-checked "
             "builds (R-TOTAL/overflow-checks, all discharged by intervals)", "Horner/spigot arithmetic, padding and alignment output", rules_C09,
             ["Horner/spigot arithmetic", "padding and alignment output"]),
    "C10": P("C10", "(a) reduce_mod/mul_mod/pow_mod return ZERO on the zero-modulus edge and reach the division kernel "
             "only behind it (R-GUARD/zero-divisor, R-TOTAL D-zero: the non-zero test must dominate the use with no write "
             "to the divisor in between); (b) add_mod uses the overflow indicator (R-FLAG); "
             "(c) results canonical with reviewed rows for the kernel post-conditions (R-CANON); (d) overflow assertions "
             "outside the division / GCD kernels in overflow-checked builds (R-TOTAL/overflow-checks, reviewed rows)",
             "residues, pow_mod's exponent loop (seeded C10-pow_mod-skips-zero-limbs is missed), inv_mod cofactor sign",
             rules_C10, ["residues", "pow_mod", "inv_mod cofactor sign"]),
    "C11": P("C11", "(a) mul_redc and square_redc -- the const-generic kernels for every limb count N >= 1 and the Uint "
             "methods in every evaluated (BITS, LIMBS) configuration -- reach no panic site for any operands: every array "
             "index (`a[i]`, `result[i - 1]`, `result[N - 1]`, `result[j]` for j in i+1..N) is proved in range by linear "
             "facts over the loop variables and the symbolic parameter N (D-lin), the Uint wrappers return ZERO for "
             "BITS == 0 before reaching the kernel and instantiate N = LIMBS >= 1 (precondition proved at the call); the "
             "from_limbs assertion behind the wrappers is a reviewed row (result < modulus) (R-TOTAL); (b) in builds with "
             "arithmetic overflow checks no overflow assertion is reachable: `N - 1`, `i - 1`, `j - 1` do not wrap by the same "
             "linear facts, the limb arithmetic is wrapping_* / widening by construction (R-TOTAL/overflow-checks). R-CARRY "
             "is deliberately not applied: the kernels drop provably-zero carries below their modulus thresholds",
             "the Montgomery identity a*b*R^-1 mod m itself, the carry thresholds, that the final subtraction fires exactly "
             "when value >= m", rules_C11,
             ["the value a*b*2^(-64N) mod m", "full reduction into [0, m)", "carry thresholds"]),
    "C12": P("C12", "(a) gcd, lcm, gcd_extended, inv_mod (Uint methods and algorithms::gcd functions) and the Lehmer matrix "
             "constructors / appliers reach no undischarged panic site for any operands in any evaluated configuration, "
             "through the whole call-graph closure including the division kernels they fall back to (implicit sites "
             "of src/algorithms/div and src/algorithms/gcd are inventoried: bounds checks, slice ranges, copy_from_slice, "
             "copy_within -- discharged by intervals and by linear facts over slice lengths, D-lin; the non-zero divisor "
             "of each fallback division must be established by a dominating non-zero test with no write in between, "
             "D-zero); the Lehmer loop's `assert!(a >= b)` and the narrowing try_into's of Matrix::from are reviewed rows "
             "(loop invariants, trusted) (R-TOTAL)",
             "that the result is the greatest common divisor, Bezout cofactors and their sign, lcm's overflow decision, "
             "exactness of the Lehmer matrices", rules_C12,
             ["gcd / lcm values", "Bezout identity and sign", "Lehmer matrix exactness conditions"]),
    "C14": P("C14", "(a) for every combination of slice lengths that meets the documented 'Conditions of use' "
             "(tables/linear_pre.json, assumed inside the kernel and proved at every call site in the crate) the 14 "
             "division kernels reach no panic site: every bounds check, slice range, split_at, copy_from_slice and "
             "copy_within in div/mod.rs, knuth.rs, small.rs, reciprocal.rs is discharged -- by the interval engine or by "
             "D-lin, a linear-inequality domain over slice lengths, loop variables and their defining ranges "
             "(`j <= m`, `m = len(numerator) - n`, `n >= 3` give `j + n - 3 < len(numerator)`; `&x[..=i]` is `i + 1` long; "
             "rposition yields an index below the length; unsigned subtractions are only linearised when proved not to "
             "wrap; re-assigned loop counters carry inductive invariants) -- the dispatcher `div` for numerators longer, equal and shorter than the divisor and any zero "
             "padding; its zero-divisor panic is the documented one; the 1x1 path's native division is a reviewed row "
             "(R-TOTAL)",
             "quotient and remainder values, agreement between the specialised kernels, reciprocal values (the seed table is "
             "measured not to be a necessary condition)", rules_C14,
             ["quotient / remainder values", "agreement of the specialised kernels", "reciprocal values"]),
    "C13": P("C13", "(a) checked_log/checked_log2/checked_log10/checked_pow and the pow family reach no undischarged "
             "panic site at any width, including BITS < 4 where the constants 2 and 10 do not fit (R-TOTAL with D-lit and "
             "return-discriminant summaries; log's documented preconditions are exported as predicates and verified at "
             "checked_log's call); (b) both overflowing_mul indicators of overflowing_pow reach its flag (R-FLAG), which is "
             "not constant where it must vary (R-FLAG/flag-range); (c) pow variants delegate to overflowing_pow or share "
             "its kernels, saturating_pow -> MAX (R-VARIANT); (d) overflow assertions in overflow-checked builds (R-TOTAL/"
             "overflow-checks, reviewed rows for bit_len - 1 and most_significant_bits)",
             "values, the square-and-multiply loop (seeded C13-pow-limbwise-exponent is missed), termination of root, float "
             "estimates inside log (trusted rows)", rules_C13, ["values", "termination of root", "float estimates inside log"]),
    "C15": P("C15", "(a) the 15 limb kernels named by the property and the DoubleWord primitives (23 functions) reach no "
             "panic site for any slice lengths and contents: every bounds check, slice range, split_at and length "
             "assumption in mul.rs / add.rs / ops.rs / shift.rs / mod.rs is discharged by the interval interpretation "
             "(equal-length unification through assume! / assert_eq!, min(), Rev<Range>, slice patterns), the remaining "
             "sites being the documented preconditions -- equal lengths for addmul_n / addmul_nx1 / submul_nx1, rhs at "
             "least as long as lhs for adc_n / sbb_n (R-TOTAL, reviewed rows); (b) in builds with arithmetic overflow "
             "checks no kernel reaches an undischarged overflow assertion except under the shift helpers' documented "
             "amount precondition amount < 64 and one reviewed arithmetic row (R-TOTAL/overflow-checks); (c) a carry / "
             "borrow word returned by carrying_add, borrowing_sub, adc, sbb, DoubleWord::split or u64::overflowing_* is "
             "read on every path before it is overwritten or the kernel returns -- no carry between limbs is dropped "
             "(R-CARRY, flow-sensitive liveness; 12 call sites); (d) in addmul no indicator returned by addmul_nx1 / "
             "add_nx1 is dropped on a path that does not already report overflow (R-FLAG); (e) each carry-returning "
             "kernel can return zero and non-zero (R-EXTREMES/kernels)",
             "every returned limb and carry value: products, sums, trimming and truncation bookkeeping of addmul, shifted "
             "bits, the order cmp computes",
             rules_C15,
             ["result limbs and carry values of every kernel", "addmul's trimming / truncation bookkeeping",
              "that cmp orders most-significant first"]),
    "C16": P("C16", "(a) per integration (13 encoder/decoder pairs) both sides use Uint byte-form functions of the byte "
             "order the format defines and agree; SSZ length reporters evaluate to BYTES in every configuration; postgres "
             "accepts/to_sql/from_sql handle the same 17 column types (R-CODEC); in each of the six SCALE compact modes "
             "the value range the encoder emits is contained in the range the decoder accepts (R-CODEC/compact-modes: "
             "intervals of bit_len per encoder arm vs intervals of the decoded integer per decoder arm); a header byte the "
             "RLP encoders build by hand as 0x80 + n has n <= 55 in every configuration up to 512 bits (R-CODEC/rlp-header, "
             "interval of n where the byte is computed); the interval Encodable::length() can return for a value of bit "
             "length k contains the RLP length of such a value, for every configuration and a boundary set of k "
             "(R-CODEC/rlp-length: abstract interpretation with bit_len() == k substituted); (b) concrete pairs in Pod/ark/primitive-"
             "types impls are well-formed (R-WF); (c) encoders and length/size-hint functions reach no undischarged panic "
             "site (R-TOTAL) and, in overflow-checked builds, no undischarged arithmetic-overflow assertion in any "
             "configuration incl. widths above 256 bits (R-TOTAL/overflow-checks: this is what decides defect F16, the "
             "`32 - leading_zeros/8` size hint)", "round trip, byte-exact reference encodings (seeded C16-postgres-"
             "numeric-weight is missed), the value of size hints beyond not overflowing", rules_C16,
             ["round trip", "reference encodings", "exact value of length / size-hint functions"]),
    "C17": P("C17", "(a) every decoder entry point (serde, rlp, alloy-rlp, fastrlp 0.3/0.4, SCALE fixed+compact, SSZ, "
             "borsh, DER incl. 9 TryFrom impls, postgres, num-bigint, sqlx, diesel, pyo3, bn-rs, byte-slice and string "
             "parsers: 50 entries) reaches no undischarged panic site in any of 18 (quick) / 70 (thorough) configurations: "
             "panic-site inventory of the call-graph closure, discharge by interval abstract interpretation, guard "
             "refutation across calls and 25 reviewed rows (R-TOTAL); (b) each canonical decoder constructs its documented "
             "error kinds, and in the three RLP decoders every path to try_from_be_slice passes the leading-zero test "
             "(R-GUARD/decoders); the fixed-width decoders (SSZ, serde binary) hand the byte-form parser a slice of exactly "
             "BYTES bytes in every configuration, so truncated input is an error (R-GUARD/fixed-length, interval of the "
             "slice length at the call); (c) in a build with arithmetic overflow checks (every debug build) no decoder entry "
             "reaches an undischarged `attempt to <op> with overflow` assertion outside the kernels (R-TOTAL/overflow-"
             "checks on the -C overflow-checks=on MIR: ~880 assertions discharged by intervals, 5 reviewed rows)",
             "that the returned value is the one the input denotes; termination", rules_C17,
             ["that the returned value is the one the input denotes", "termination",
              "overflow assertions inside src/algorithms (kernel value contracts)"]),
    "C18": P("C18", "(a) float->Uint: the value reaches to_bits through no rounding float operation; NotANumber is not built "
             "on the is_nan() == false edge and ValueNegative not on a negated `>= 0.0` edge without a NaN test in front "
             "(how the classification is written is otherwise not prescribed: NaN fails every comparison); f32 "
             "forwards through the exact widening cast (R-FLOAT); (b) Uint->float has at most one inexact step on the path "
             "to its result (rounding int->float cast, narrowing float cast, float + - /, * by anything but an exponent-"
             "only factor, nested conversion): no double rounding; (c) no undischarged panic site (R-TOTAL)",
             "rounding direction, the value of the power-of-two factor (seeded C18-exp2-bit-pattern is missed), neighbour/"
             "monotonicity", rules_C18, ["rounding direction", "neighbour/monotonicity of Uint->float"]),
    "C19": P("C19", "(a) a generated grid of uint! witness programs builds or is rejected as the property demands: 2^bits "
             "rejected / 2^bits-1 accepted for nine widths and both suffixes and on the multi-limb boundary for every "
             "base, invalid digits incl. a digit equal to the base, pass-through of ordinary literals and of a 36-literal "
             "0x<pre>B<digits> grid (type ascription + const value assertion), "
             "nesting, and compile-time limb assertions for 4 bases x 8 widths x ~9 values, each failing witness with a "
             "compiling twin (R-WITNESS); (b) on the macro's MIR: the digit range check rejects digit == base, every Err "
             "reaches compile_error!, Ok(None) returns the literal, groups recurse, pad_limbs keeps the length and mask "
             "tests, the constructor emitted is the asserting from_limbs (R-MACRO)",
             "all programs (finite witness grid, not a proof over all literals)", rules_C19,
             ["value equality with run-time parsing outside the witness grid", "all programs"]),
    "C20": P("C20", "(a) each of 291 facade functions (operator impls in all shapes, Bits wrapper, num-traits, "
             "num-integer, Sum/Product, Zeroize) forwards to the delegate the oracle table names: resolved delegate "
             "identity, argument provenance parameter i -> argument i (commutative swaps allowed only for commutative "
             "operations), no self-recursion, result returned through wrappers only; a composite facade re-implemented on "
             "limbs must be total and canonical like the composition it replaces (R-FACADE); (b) subtle: the strict comparisons inside "
             "ct_gt/ct_lt are not all oriented the wrong way round, limbs compared or selected as the fields of one zip item "
             "come from identically adapted iterators, ct_eq depends on both operands, conditional_select is not provably "
             "(b, a) -- necessary conditions only; an unrecognised shape (e.g. a borrow chain) is not decided (R-SIBLING); (c) no facade has a panic source of its own beyond reviewed rows where its signature "
             "cannot express the failure (R-TOTAL, own sites)", "that the inherent method is right; the value of a re-implemented constant-time comparison; constant-time-ness",
             rules_C20, ["that the inherent methods are right", "constant-time-ness"]),
}

# properties not yet claimed in this round, with the reason shown in MANIFEST.not_applicable
PENDING = {}
