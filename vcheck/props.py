"""Property -> rules mapping, level texts, assumptions."""
from . import entries
from .rules import (canon, codec, facade, flag, floatrule, guard, limbs, macro, sibling, structural, table, total_rule, unimpl,
                    variant, witness)

COMMON_ASSUMPTIONS = [
    "rustc's type checker, trait resolution, MIR construction and constant evaluation are correct "
    "(facts come from nightly 1.97; shipped code is compiled by stable 1.95: same front-end semantics assumed)",
    "analysed target is x86_64 little-endian; cfg(target_endian=\"big\"), cfg(test) and cfg(doc) code is not analysed",
    "release semantics (-Cdebug-assertions=off): debug_assert! bodies and arithmetic-overflow checks are not panic sites",
    "foreign crates are leaves: assumed to meet their documented post-conditions and unable to touch limb storage "
    "(private field); value-range summaries of core functions (leading_zeros in [0,64], Range::next < end, "
    "slice::len) are trusted",
    "implicit panic sites (bounds checks, slice ranges) inside algorithms:: are the value contract of C14/C15 (not "
    "applicable) and are trusted leaves; explicit sites there are inventoried",
]

TOTAL_FLOORS = {"C01": 28, "C02": 13, "C03": 7, "C05": 98, "C06": 36, "C07": 54, "C08": 11, "C09": 12, "C10": 5,
                "C13": 8, "C16": 30, "C17": 48, "C18": 6, "C20": 150}


def merge_same_rule(reps):
    """Merge reports of one rule run on several build configurations: an obligation key
    is ok only if it is ok wherever it occurs."""
    out = {}
    order = []
    for r in reps:
        if r.rule not in out:
            out[r.rule] = r
            order.append(r.rule)
            r._seen = {o.key: o for o in r.obligations}
            r.analysed = {"per_build_config": [r.analysed]}
            continue
        base = out[r.rule]
        base.analysed["per_build_config"].append(r.analysed)
        for o in r.obligations:
            prev = base._seen.get(o.key)
            if prev is None:
                base.obligations.append(o)
                base._seen[o.key] = o
            elif prev.status != "violation" and o.status == "violation":
                base.obligations[base.obligations.index(prev)] = o
                base._seen[o.key] = o
        for f in r.floors:
            base.floors.append((f[0] + "@" + str(len(base.analysed["per_build_config"])), f[1], f[2]))
        base.notes.extend(r.notes)
    return [out[k] for k in order]


def total_for(pid, ctx, own_only=False):
    reps = []
    for cfg in ctx.build_configs(quick=("all",), thorough=("all", "all-norand09", "default", "nodefault")):
        floor = TOTAL_FLOORS[pid] if cfg.startswith("all") else 0
        reps.append(total_rule.run(ctx, entries.TOTAL_ENTRIES[pid], floor, cfg, label=pid, own_only=own_only))
    return merge_same_rule(reps)


def rules_C04(ctx):
    reps = []
    for cfg in ctx.build_configs(quick=("all", "all-norand09"), thorough=("all", "all-norand09", "default", "nodefault")):
        reps.append(limbs.run(ctx, cfg) if cfg.startswith("all") else limbs.run(ctx, cfg, floors=False))
    out = merge_same_rule(reps)
    out.append(canon_for(ctx))
    out.append(structural.mutref(ctx))
    out.append(structural.wf(ctx))
    out.append(structural.eqord(ctx))
    out.append(structural.maskkind(ctx))
    out.append(witness.run(ctx, "C04"))
    return out


def rules_C19(ctx):
    return [witness.run(ctx, "C19"), macro.run(ctx)]


def canon_for(ctx, files=None):
    scope = None
    if files:
        scope = (lambda b: b["file"] in files)
    return canon.run(ctx, "all", scope=scope)


def rules_with_canon(pid, files, extra=None):
    def f(ctx):
        reps = total_for(pid, ctx) + [canon_for(ctx, files)]
        if extra:
            reps += extra(ctx)
        return reps
    return f


def rules_C07(ctx):
    return total_for("C07", ctx) + [structural.maskkind(ctx), flag.lowlimb(ctx), variant.run(ctx, "all", ["conv"]),
                                    guard.try_from_u64_model(ctx),
                                    flag.feasible_failure(ctx, "all", {"crate::Uint::<BITS, LIMBS>::overflowing_from_limbs_slice"})]


def flag_for(files, ops=None):
    return lambda ctx: [flag.flag(ctx, "all", files)] + ([variant.run(ctx, "all", ops)] if ops else [])


def rules_C05(ctx):
    return total_for("C05", ctx) + [canon_for(ctx, {"src/bits.rs"}), flag.flag(ctx, "all", {"src/bits.rs"}),
                                    flag.lowlimb(ctx), variant.run(ctx, "all", ["shl", "shr"])]


def rules_C09(ctx):
    return total_for("C09", ctx) + [flag.flag(ctx, "all", {"src/base_convert.rs"}), table.alphabets(ctx),
                                    table.prefixes(ctx), canon_for(ctx, {"src/base_convert.rs", "src/string.rs"}),
                                    flag.feasible_failure(ctx, "all", {"crate::base_convert::<impl crate::Uint<BITS, LIMBS>>::from_base_be",
                                                                       "crate::base_convert::<impl crate::Uint<BITS, LIMBS>>::from_base_le"})]


def rules_C13(ctx):
    return total_for("C13", ctx) + [flag.flag(ctx, "all", {"src/pow.rs"}), variant.run(ctx, "all", ["pow"])]


def rules_C20(ctx):
    reps = []
    for cfg in ctx.build_configs(quick=("all",), thorough=("all", "all-norand09", "default")):
        reps.append(facade.run(ctx, cfg))
    return merge_same_rule(reps) + [sibling.run(ctx)] + total_for("C20", ctx, own_only=True)


def rules_C18(ctx):
    return total_for("C18", ctx) + [floatrule.run(ctx)]


def rules_total_only(pid, own_only=False):
    def f(ctx):
        return total_for(pid, ctx, own_only)
    return f


def rules_C03(ctx):
    return total_for("C03", ctx) + [unimpl.run(ctx, "all"), guard.zero_divisor(ctx)]


def rules_C16(ctx):
    return total_for("C16", ctx) + [codec.run(ctx), structural.wf(ctx, marker_generic=False)]


def rules_C17(ctx):
    return total_for("C17", ctx) + [guard.c17(ctx)]


def rules_C08(ctx):
    return total_for("C08", ctx) + [canon_for(ctx, {"src/bytes.rs"}), guard.buffers(ctx),
                                    flag.feasible_failure(ctx, "all", {"crate::bytes::<impl crate::Uint<BITS, LIMBS>>::try_from_be_slice",
                                                                       "crate::bytes::<impl crate::Uint<BITS, LIMBS>>::try_from_le_slice"})]


def rules_C10(ctx):
    return total_for("C10", ctx) + [canon_for(ctx, {"src/modular.rs"}), flag.flag(ctx, "all", {"src/modular.rs"}),
                                    guard.zero_divisor(ctx)]


PARTIAL = ("Structural clauses of %s decided for all paths, all enabled integrations and the evaluated (BITS, LIMBS) "
           "configurations: %s. The numerical behaviour (%s) is NOT decided.")


def P(pid, clauses, not_decided_short, rules, not_decided):
    return {"level": "other", "rules": rules, "text": PARTIAL % (pid, clauses, not_decided_short),
            "not_decided": not_decided}


PROPS = {
    "C01": P("C01", "no panic site is reachable from any add/sub/neg form or operator (R-TOTAL)",
             "that the carry chain computes the sum", rules_with_canon("C01", {"src/add.rs"}, flag_for({"src/add.rs"}, ["add", "sub", "neg"])),
             ["that the limb-wise carry chain computes the sum/difference", "abs_diff's value"]),
    "C02": P("C02", "no panic site is reachable from any mul form, inv_ring, Product (R-TOTAL)",
             "products, Hensel lifting", rules_with_canon("C02", {"src/mul.rs"}, flag_for({"src/mul.rs", "src/algorithms/mul.rs"}, ["mul"])), ["products", "trimming bookkeeping in addmul"]),
    "C03": P("C03", "checked_div/checked_rem/checked_next_multiple_of reach the zero-divisor panic only behind a "
             "dominating non-zero test (R-TOTAL, D-zero); no todo!/unimplemented! is reachable from a public item "
             "(R-UNIMPL)", "the Euclidean contract; that no non-zero divisor panics inside the Knuth kernels",
             rules_C03, ["the Euclidean contract", "no non-zero divisor panics (kernel indices are run-time values)"]),
    "C04": P("C04", "every producer of a Uint forces the LIMBS assertion (R-LIMBS)",
             "that cmp scans most-significant first, kernel value claims", rules_C04,
             ["that algorithms::cmp orders limbs most-significant first",
              "value claims of the arithmetic kernels (quotient <= numerator, remainder < divisor)"]),
    "C05": P("C05", "no shift/rotate form or operator overload reaches a panic site; every limb index in "
             "overflowing_shl/shr is in range by the `limbs >= LIMBS` guard (R-TOTAL)",
             "bit positions, rotation arithmetic, sign fill", rules_C05,
             ["bit positions", "rotation arithmetic", "sign fill"]),
    "C06": P("C06", "bit/set_bit/checked_byte/count functions reach no panic site; index guards dominate the limb "
             "accesses (R-TOTAL)", "every counting function's value", rules_with_canon("C06", {"src/bits.rs"}, lambda ctx: [guard.byte_panics(ctx)]),
             ["values of the counting functions", "most_significant_bits"]),
    "C07": P("C07", "every TryFrom/wrapping/saturating conversion in either direction and the *_from_limbs_slice "
             "constructors reach no undischarged panic site: each asserting from_limbs is behind a top-limb bound "
             "(R-TOTAL, D-mask)", "that wrapped payloads equal v mod 2^BITS", rules_C07,
             ["wrapped payload values"]),
    "C08": P("C08", "try_from_{be,le}_slice, checked_copy_* and the slice/vec byte forms reach no undischarged panic "
             "site in any configuration, in particular the asserting from_limbs only behind a top-limb check (R-TOTAL)",
             "digit order, round trip", rules_C08, ["digit order inside the loops", "round trip"]),
    "C09": P("C09", "from_str/from_str_radix/from_base_* and the formatters reach no undischarged panic site (R-TOTAL)",
             "Horner/spigot arithmetic, padding output", rules_C09,
             ["Horner/spigot arithmetic", "padding and alignment output"]),
    "C10": P("C10", "reduce_mod/add_mod/mul_mod/pow_mod/inv_mod reach the zero-divisor panic only behind a dominating "
             "non-zero test of the modulus (R-TOTAL, D-zero)", "residues, pow_mod, inv_mod cofactor sign",
             rules_C10, ["residues", "pow_mod", "inv_mod cofactor sign"]),
    "C13": P("C13", "checked_log*/checked_pow and the pow family reach no undischarged panic site at any width, "
             "including BITS < 4 where the constants 2 and 10 do not fit (R-TOTAL, D-lit, return-discriminant "
             "summaries)", "values, termination of root, float estimates", rules_C13,
             ["values", "termination of root", "float estimates inside log"]),
    "C16": P("C16", "encoders, length and size-hint functions reach no undischarged panic site (R-TOTAL)",
             "round trip, byte-exact reference encodings, size-hint arithmetic", rules_C16,
             ["round trip", "reference encodings", "size-hint arithmetic (F16: scale CompactRefUint::size_hint)"]),
    "C17": P("C17", "every decoder entry point (serde, rlp, alloy-rlp, fastrlp, SCALE, SSZ, borsh, DER, postgres, "
             "num-bigint, sqlx, diesel, pyo3, bn-rs, byte-slice and string parsers) reaches no undischarged panic site "
             "in any configuration: panic-site inventory of the call-graph closure with guard-dominance discharge "
             "(R-TOTAL)", "that the returned value is the one the input denotes; termination",
             rules_C17, ["that the returned value is the one the input denotes", "termination"]),
    "C18": P("C18", "float<->Uint conversions reach no undischarged panic site (R-TOTAL)",
             "rounding, neighbour and monotonicity claims", rules_C18,
             ["rounding direction", "neighbour/monotonicity of Uint->float"]),
    "C19": P("C19", "a grid of uint! witness programs builds or is rejected as the property demands (value 2^bits "
             "rejected and 2^bits-1 accepted for nine widths and both suffixes, invalid digits incl. a digit equal to the "
             "base, pass-through of ordinary and hex-ending-in-B literals, nesting, compile-time value assertions), each "
             "failing witness with a compiling twin (R-WITNESS); on the macro's MIR: the digit range check rejects "
             "digit == base, every Err reaches compile_error!, Ok(None) returns the literal, groups recurse, the "
             "constructor emitted is the asserting from_limbs (R-MACRO)",
             "that the constant's value equals run-time parsing for all literals (finite witness set, not a proof over "
             "all programs)", rules_C19,
             ["value equality with run-time parsing beyond the const-assert witnesses", "all programs (finite grid)"]),
    "C20": P("C20", "no facade function (Bits wrapper, num-traits, num-integer, subtle, zeroize) contains a panic "
             "source of its own beyond the reviewed rows where its signature cannot express the failure (R-TOTAL, "
             "own sites only)", "that the inherent method is right; constant-time-ness",
             rules_C20, ["that the inherent methods are right", "constant-time-ness"]),
}

# properties not yet claimed in this round, with the reason shown in MANIFEST.not_applicable
PENDING = {}
