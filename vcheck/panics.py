"""Panic-site inventory on configuration-pruned CFGs."""
from . import ir

# foreign callees that panic on some inputs: name -> short reason
FOREIGN_PANICKY = {
    "core::option::Option::<T>::unwrap": "unwrap on None",
    "core::option::Option::<T>::expect": "expect on None",
    "core::result::Result::<T, E>::unwrap": "unwrap on Err",
    "core::result::Result::<T, E>::expect": "expect on Err",
    "core::result::Result::<T, E>::unwrap_err": "unwrap_err on Ok",
    "core::result::Result::<T, E>::expect_err": "expect_err on Ok",
    "core::slice::index::<impl core::ops::index::Index<I> for [T]>::index": "slice index/range out of bounds",
    "core::slice::index::<impl core::ops::index::IndexMut<I> for [T]>::index_mut": "slice index/range out of bounds",
    "core::array::<impl core::ops::index::Index<I> for [T; N]>::index": "array index/range out of bounds",
    "core::array::<impl core::ops::index::IndexMut<I> for [T; N]>::index_mut": "array index/range out of bounds",
    "<alloc::vec::Vec<T, A> as core::ops::index::Index<I>>::index": "Vec index/range out of bounds",
    "<alloc::vec::Vec<T, A> as core::ops::index::IndexMut<I>>::index_mut": "Vec index/range out of bounds",
    "core::str::traits::<impl core::ops::index::Index<I> for str>::index": "str range out of bounds / not on char boundary",
    "core::str::<impl str>::split_at": "str::split_at out of bounds / not on char boundary",
    "core::slice::<impl [T]>::split_at": "split_at mid > len",
    "core::slice::<impl [T]>::split_at_mut": "split_at_mut mid > len",
    "core::slice::<impl [T]>::copy_from_slice": "copy_from_slice length mismatch",
    "core::slice::<impl [T]>::clone_from_slice": "clone_from_slice length mismatch",
    "core::slice::<impl [T]>::copy_within": "copy_within out of bounds",
    "core::slice::<impl [T]>::chunks_exact": "chunk size 0",
    "core::slice::<impl [T]>::chunks": "chunk size 0",
    "core::slice::<impl [T]>::rchunks_mut": "chunk size 0",
    "core::slice::<impl [T]>::swap": "swap index out of bounds",
    "alloc::vec::Vec::<T, A>::insert": "Vec::insert index > len",
    "alloc::vec::Vec::<T, A>::remove": "Vec::remove index >= len",
    "alloc::vec::Vec::<T, A>::swap_remove": "Vec::swap_remove index >= len",
    "alloc::vec::Vec::<T, A>::split_off": "Vec::split_off at > len",
    "alloc::vec::Vec::<T, A>::drain": "Vec::drain range out of bounds",
    "core::hint::unreachable_unchecked": "unreachable_unchecked (undefined behaviour if reached)",
    "core::iter::traits::iterator::Iterator::step_by": "step 0",
    "core::mem::maybe_uninit::MaybeUninit::<T>::assume_init": "assume_init (UB if uninitialised)",
}

DIVERGING = {
    "core::panicking::panic", "core::panicking::panic_fmt", "core::panicking::assert_failed",
    "core::panicking::panic_explicit", "core::panicking::unreachable_display", "core::panicking::panic_display",
    "core::panicking::panic_nounwind", "core::option::unwrap_failed", "core::option::expect_failed",
    "core::result::unwrap_failed", "std::process::abort", "core::panicking::panic_bounds_check",
}

MACRO_OF_INTEREST = ("todo!", "unimplemented!", "unreachable!", "assert!", "assert_eq!", "assert_ne!", "panic!",
                     "assume!", "debug_unreachable!", "debug_assert!", "debug_assert_eq!")


class Site:
    __slots__ = ("fn", "block", "kind", "what", "where", "macro", "term", "callee")

    def __init__(self, fn, block, kind, what, where, macro, term, callee=None):
        self.fn = fn
        self.block = block
        self.kind = kind      # assert:<Kind> | diverge | foreign | local-call
        self.what = what
        self.where = where
        self.macro = macro
        self.term = term
        self.callee = callee

    def __repr__(self):
        return "Site(%s bb%d %s %s @%s%s)" % (self.fn, self.block, self.kind, self.what, self.where,
                                              " !" + self.macro if self.macro else "")


def macro_of(term):
    macs = term.get("mac") or []
    for m in macs:
        if m in MACRO_OF_INTEREST:
            return m
    return macs[-1] if macs else ""


def _named_local(view, op, depth=8):
    """Debug name (or constant value) an operand derives from by copies."""
    while depth > 0:
        depth -= 1
        if op.get("o") == "const":
            c = op.get("c")
            if c == "lit":
                if "fv" in op:
                    return "%g" % float(op["fv"])
                return str(op.get("sv", op["v"]))
            if c == "param":
                return op["n"]
            if c == "uneval":
                return op["def"].split("::")[-1]
            return "const"
        if op.get("o") not in ("copy", "move"):
            return "?"
        if op["p"] == [["f", 0]] and not view.local_name(op["l"]):
            d = view.single_def(op["l"])
            if d is not None and d[1] != "term" and d[2]["rv"]["r"] == "bin" and d[2]["rv"]["op"].endswith("WithOverflow"):
                rv = d[2]["rv"]
                return "%s(%s,%s)" % (rv["op"][:-len("WithOverflow")], _named_local(view, rv["a"], depth),
                                      _named_local(view, rv["b"], depth))
        if op["p"]:
            base = view.local_name(op["l"]) or "_"
            for e in op["p"]:
                if e == "deref":
                    base = "*" + base
                elif e[0] == "f":
                    base += ".%d" % e[1]
                elif e[0] == "idx":
                    base += "[%s]" % _named_local(view, {"o": "copy", "l": e[1], "p": []}, depth)
                elif e[0] == "cidx":
                    base += "[%s%d]" % ("-" if e[2] else "", e[1])
                elif e[0] == "dc":
                    base += " as %s" % e[2]
                else:
                    base += ".?"
            return base
        n = view.local_name(op["l"])
        if n:
            return n
        d = view.single_def(op["l"])
        if d is None:
            return "?"
        if d[1] == "term":
            nm = ir.callee_name(d[2]["fn"]) or "call"
            if nm.startswith("core::convert::num::<impl core::convert::From<") and len(d[2]["args"]) == 1:
                op = d[2]["args"][0]       # lossless integer conversion: name of what is converted
                continue
            return nm.split("::")[-1] + "()"
        rv = d[2]["rv"]
        if rv["r"] == "use":
            op = rv["a"]
            continue
        if rv["r"] == "bin":
            return "%s(%s,%s)" % (rv["op"], _named_local(view, rv["a"], depth), _named_local(view, rv["b"], depth))
        if rv["r"] == "cast":
            op = rv["a"]
            continue
        return rv["r"]
    return "?"


def _cond_descr(view, block):
    """Short structural description of the branch condition that leads into `block`."""
    preds = view.preds.get(block, [])
    for _ in range(3):
        if len(preds) != 1:
            return ""
        p = preds[0]
        t = view.blocks[p]["term"]
        if t["t"] == "switch":
            d = t["discr"]
            if d.get("o") in ("copy", "move") and not d["p"]:
                ch = view.chase(d)
                if ch[0] == "rv" and ch[1]["r"] == "un":
                    ch = view.chase(ch[1]["a"])
                if ch[0] == "call":
                    return (ir.callee_name(ch[1]["fn"]) or "?").split("::")[-1]
                if ch[0] == "rv" and ch[1]["r"] == "bin":
                    return "%s(%s,%s)" % (ch[1]["op"], _named_local(view, ch[1]["a"]), _named_local(view, ch[1]["b"]))
                if ch[0] == "rv" and ch[1]["r"] == "discr":
                    return "match"
                if ch[0] == "arg":
                    return view.local_name(ch[1]) or "arg"
            return "switch"
        if t["t"] in ("goto", "call", "assert", "drop"):
            preds = view.preds.get(p, [])
            continue
        return ""
    return ""


def local_sites(view):
    out = _local_sites(view)
    # stable discriminators: structural description + ordinal among equal descriptions
    seen = {}
    for s in out:
        if s.kind == "assert:BoundsCheck":
            d = "[%s]" % _named_local(view, s.term["index"])
        elif s.kind in ("assert:Overflow", "assert:OverflowNeg"):
            d = "(%s:%s%s)" % (s.term.get("op", "Neg"), _named_local(view, s.term["a"]),
                               ("," + _named_local(view, s.term["b"])) if "b" in s.term else "")
        elif s.kind.startswith("assert:"):
            d = ""
        elif s.kind == "diverge":
            d = "#" + _cond_descr(view, s.block)
        else:
            d = ""
        base = (s.kind, (s.macro if s.kind == "diverge" and s.macro else s.what) + d)
        n = seen.get(base, 0) + 1
        seen[base] = n
        s.what = base[1] + ("" if n == 1 else "~%d" % n)
    return out


def _local_sites(view):
    """Panic sites of one body on its pruned CFG, not counting calls to local
    may-panic functions (those are added by the interprocedural summary)."""
    out = []
    key = view.body["key"]
    for b in sorted(view.reachable):
        t = view.blocks[b]["term"]
        k = t["t"]
        where = view.where(b)
        if k == "assert":
            c = view.const_of_operand(t["cond"])
            if c is not None and bool(c) == t["expected"]:
                continue
            out.append(Site(key, b, "assert:" + t["kind"], t["kind"], where, macro_of(t), t))
        elif k == "call":
            f = t["fn"]
            name = ir.callee_name(f)
            if name in DIVERGING or (t["target"] is None and name not in view.prog.bodies):
                out.append(Site(key, b, "diverge", name or "?", where, macro_of(t), t, name))
            elif name in FOREIGN_PANICKY:
                out.append(Site(key, b, "foreign", name, where, macro_of(t), t, name))
    return out
