"""Pretty-printer for fact bodies (debugging aid and report text)."""
import sys


def place(p):
    s = "_%d" % p["l"]
    for e in p["p"]:
        if e == "deref":
            s = "(*%s)" % s
        elif e[0] == "f":
            s += ".f%d" % e[1]
        elif e[0] == "idx":
            s += "[_%d]" % e[1]
        elif e[0] == "cidx":
            s += "[%sc%d]" % ("-" if e[2] else "", e[1])
        elif e[0] == "sub":
            s += "[%d..%s%d]" % (e[1], "-" if e[3] else "", e[2])
        elif e[0] == "dc":
            s = "(%s as %s)" % (s, e[2] or e[1])
        else:
            s += ".?%s" % (e,)
    return s


def const(c):
    k = c.get("c")
    if k == "lit":
        if "sv" in c:
            return "%d_%s" % (c["sv"], c["ty"])
        if "fv" in c:
            return "%s_%s" % (c["fv"], c["ty"])
        return "%d_%s" % (c["v"], c.get("ty", ""))
    if k == "param":
        return "PARAM(%s)" % c["n"]
    if k == "uneval":
        return "CONST(%s)" % c["def"]
    if k == "fn":
        return "fn(%s)" % (c.get("res_inst") or c["inst"])
    if k == "closure":
        return "closure(%s)" % c["def"]
    if k == "str":
        return repr(c["v"])
    if k == "bytes":
        return "b%r" % bytes(c["v"])
    if k == "promoted":
        return "promoted[%d]" % c["i"]
    if k == "zst":
        return "zst(%s)" % c["ty"]
    return "?%s" % (c.get("s") or c.get("ty"))


def operand(o):
    if o["o"] in ("copy", "move"):
        return ("move " if o["o"] == "move" else "") + place(o)
    if o["o"] == "const":
        return const(o)
    return "?"


def rvalue(r):
    k = r["r"]
    if k == "use":
        return operand(r["a"])
    if k == "repeat":
        return "[%s; %s]" % (operand(r["a"]), const(r["n"]))
    if k == "ref":
        return "&%s%s" % ("mut " if r["m"] == "mut" else "", place(r["pl"]))
    if k == "rawptr":
        return "&raw %s %s" % (r["m"], place(r["pl"]))
    if k == "cast":
        return "%s as %s [%s]" % (operand(r["a"]), ty(r["ty"]), r["kind"])
    if k == "bin":
        return "%s(%s, %s)" % (r["op"], operand(r["a"]), operand(r["b"]))
    if k == "un":
        return "%s(%s)" % (r["op"], operand(r["a"]))
    if k == "discr":
        return "discr(%s)" % place(r["pl"])
    if k == "agg":
        ops = ", ".join(operand(o) for o in r["ops"])
        if r["kind"] == "adt":
            return "%s::%s{%s}" % (r["def"], r["variant"], ops)
        return "%s(%s)" % (r["kind"], ops)
    return "?%s" % r.get("s")


def ty(t):
    k = t["k"]
    if k == "prim":
        return t["n"]
    if k == "adt":
        a = ", ".join(targ(x) for x in t["a"])
        return t["n"] + ("<%s>" % a if a else "")
    if k == "ref":
        return "&%s%s" % ("mut " if t["m"] else "", ty(t["t"]))
    if k == "ptr":
        return "*%s %s" % ("mut" if t["m"] else "const", ty(t["t"]))
    if k == "array":
        return "[%s; %s]" % (ty(t["t"]), const(t["len"]))
    if k == "slice":
        return "[%s]" % ty(t["t"])
    if k == "tuple":
        return "(%s)" % ", ".join(ty(x) for x in t["ts"])
    if k == "param":
        return t["n"]
    if k == "fndef":
        return "fn{%s}" % t["def"]
    if k == "closure":
        return "closure{%s}" % t["def"]
    return t.get("s", "?")


def targ(x):
    if "k" in x:
        return ty(x)
    return const(x)


def term(t):
    k = t["t"]
    mac = (" !%s" % ",".join(t["mac"])) if t.get("mac") else ""
    if k == "goto":
        return "goto bb%d" % t["target"]
    if k == "switch":
        return "switch %s [%s, else bb%d]" % (
            operand(t["discr"]), ", ".join("%d->bb%d" % (v, b) for v, b in t["targets"]), t["otherwise"])
    if k == "call":
        f = t["fn"]
        fs = const(f) if f["o"] == "const" else operand(f)
        return "%s = call %s(%s) -> %s%s" % (
            place(t["dest"]), fs, ", ".join(operand(a) for a in t["args"]),
            "bb%d" % t["target"] if t["target"] is not None else "!", mac)
    if k == "assert":
        extra = ""
        if t["kind"] == "BoundsCheck":
            extra = " len=%s index=%s" % (operand(t["len"]), operand(t["index"]))
        return "assert %s==%s %s%s -> bb%d%s" % (operand(t["cond"]), t["expected"], t["kind"], extra, t["target"], mac)
    if k == "drop":
        return "drop %s -> bb%d" % (place(t["pl"]), t["target"])
    return k + mac


def body(b, out=sys.stdout):
    out.write("fn %s  [%s:%s] kind=%s\n" % (b["key"], b["file"], b["line"], b["kind"]))
    if "sig_s" in b:
        out.write("  sig: %s\n" % b["sig_s"])
    for i, l in enumerate(b["locals"]):
        out.write("  let _%d: %s%s\n" % (i, l["s"], "  // " + l["name"] if "name" in l else ""))
    for i, blk in enumerate(b["blocks"]):
        if blk.get("cleanup"):
            continue
        out.write("  bb%d:\n" % i)
        for s in blk["stmts"]:
            if s["s"] == "assign":
                out.write("    %s = %s\n" % (place(s["pl"]), rvalue(s["rv"])))
            elif s["s"] == "assume":
                out.write("    assume(%s)\n" % operand(s["a"]))
            else:
                out.write("    %s\n" % s["s"])
        out.write("    %s   @%s\n" % (term(blk["term"]), blk["term"].get("line")))
    if b.get("required_consts"):
        out.write("  required_consts: %s\n" % ", ".join(r["def"] for r in b["required_consts"]))


if __name__ == "__main__":
    from . import facts
    cfg = "all"
    args = sys.argv[1:]
    if args and args[0] in facts.BUILD_CONFIGS:
        cfg = args.pop(0)
    f = facts.load(cfg)
    pats = args
    for crate in ("ruint", "ruint_macro"):
        for b in f[crate]["bodies"]:
            if any(p in b["key"] for p in pats):
                body(b)
                print()
