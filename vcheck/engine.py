"""Rule-engine plumbing: context, rule reports, known findings, evidence."""
import json
import os
import sys
import time

from . import facts, ir

VERIF = facts.VERIF


class Obligation:
    """One decided instance of a rule."""
    __slots__ = ("rule", "key", "status", "where", "msg", "detail")

    def __init__(self, rule, key, status, where="", msg="", detail=None):
        self.rule = rule
        self.key = key          # stable key: no line numbers
        self.status = status    # ok | table | violation
        self.where = where      # file:line (report only)
        self.msg = msg
        self.detail = detail

    def full_key(self):
        return "%s:%s" % (self.rule, self.key)

    def to_json(self):
        d = {"rule": self.rule, "key": self.key, "status": self.status}
        if self.where:
            d["where"] = self.where
        if self.msg:
            d["msg"] = self.msg
        if self.detail is not None:
            d["detail"] = self.detail
        return d


class Report:
    def __init__(self, rule, description):
        self.rule = rule
        self.description = description
        self.obligations = []
        self.floors = []      # (label, count, floor)
        self.notes = []
        self.analysed = {}    # free-form counters

    def ok(self, key, where="", msg="", detail=None):
        self.obligations.append(Obligation(self.rule, key, "ok", where, msg, detail))

    def table(self, key, where="", msg="", detail=None):
        self.obligations.append(Obligation(self.rule, key, "table", where, msg, detail))

    def violation(self, key, where="", msg="", detail=None):
        self.obligations.append(Obligation(self.rule, key, "violation", where, msg, detail))

    def floor(self, label, count, floor):
        self.floors.append((label, count, floor))
        if count < floor:
            self.violation("floor:%s" % label, "", "instance count %d fell below the confirmed floor %d "
                           "(rule would pass vacuously)" % (count, floor))

    def note(self, s):
        self.notes.append(s)


class Ctx:
    def __init__(self, tier="quick", seed=0):
        self.tier = tier
        self.seed = seed
        self._facts = {}
        self._progs = {}
        self._cgs = {}
        self._tables = {}
        self.fact_info = {}

    def facts(self, config="all"):
        if config not in self._facts:
            f = facts.load(config)
            self._facts[config] = f
            self.fact_info[config] = dict(f["_info"], bodies={k: len(f[k]["bodies"]) for k in f if not k.startswith("_")})
        return self._facts[config]

    def prog(self, config="all", crate="ruint"):
        k = (config, crate)
        if k not in self._progs:
            self._progs[k] = ir.Program(self.facts(config)[crate])
        return self._progs[k]

    def cg(self, config="all", crate="ruint"):
        k = (config, crate)
        if k not in self._cgs:
            self._cgs[k] = ir.CallGraph(self.prog(config, crate))
        return self._cgs[k]

    def cfgs(self):
        return list(facts.Q_QUICK) if self.tier == "quick" else list(facts.Q_THOROUGH)

    def build_configs(self, quick=("all",), thorough=("all", "all-norand09", "nodefault", "default", "all-nightly")):
        return list(quick) if self.tier == "quick" else list(thorough)

    def table(self, name):
        if name not in self._tables:
            p = os.path.join(VERIF, "tables", name + ".json")
            with open(p) as fh:
                self._tables[name] = json.load(fh)
        return self._tables[name]


def load_known():
    p = os.path.join(VERIF, "known_findings.jsonl")
    rows = []
    if os.path.exists(p):
        with open(p) as fh:
            for line in fh:
                line = line.strip()
                if line and not line.startswith("#"):
                    rows.append(json.loads(line))
    return rows


def finish(prop_id, level, level_text, reports, ctx, t0, assumptions, not_decided, checker_cmd):
    """Print the verdict, write evidence, return exit code."""
    known = [r for r in load_known() if r.get("property") == prop_id]
    open_known = {r["key"]: r for r in known if r.get("status") == "open"}
    viol, known_hit = [], []
    n_obl = n_ok = n_table = 0
    for rep in reports:
        for o in rep.obligations:
            n_obl += 1
            if o.status == "ok":
                n_ok += 1
            elif o.status == "table":
                n_table += 1
            elif o.status == "violation":
                if o.full_key() in open_known:
                    known_hit.append(o)
                else:
                    viol.append(o)
    evdir = os.environ.get("VERIF_EVIDENCE_DIR") or os.path.join(VERIF, "evidence")
    os.makedirs(os.path.join(evdir, "replay"), exist_ok=True)
    for rep in reports:
        fl = "; ".join("%s=%d (floor %d)" % f for f in rep.floors)
        print("[%s] %s: %d obligations, %d ok, %d table, %d violations%s" % (
            prop_id, rep.rule, len(rep.obligations),
            sum(o.status == "ok" for o in rep.obligations),
            sum(o.status == "table" for o in rep.obligations),
            sum(o.status == "violation" for o in rep.obligations),
            (" | " + fl) if fl else ""))
    for o in known_hit:
        print("KNOWN-FINDING: property=%s %s %s -- %s" % (prop_id, o.full_key(), o.where, o.msg))
    for i, o in enumerate(viol):
        rp = os.path.join(evdir, "replay", "%s-%d.json" % (prop_id, i))
        with open(rp, "w") as fh:
            json.dump({"property": prop_id, "violation": o.to_json(),
                       "replay_cmd": "./check %s --tier %s --only %s" % (prop_id, ctx.tier, o.rule)}, fh, indent=1)
        print("  %s at %s: %s" % (o.full_key(), o.where, o.msg))
        print("VIOLATION property=%s replay=%s" % (prop_id, rp))
    wall = time.time() - t0
    samples = []
    for rep in reports:
        for o in rep.obligations[:4]:
            samples.append(o.to_json())
    distinct = len({o.full_key() for rep in reports for o in rep.obligations})
    cov = {
        "obligations": n_obl,
        "discharged": n_ok + n_table + len(known_hit) if not viol else n_ok + n_table,
        "discharged_by_rule": n_ok,
        "accepted_by_reviewed_table_row": n_table,
        "known_findings_matched": [o.full_key() for o in known_hit],
        "checker_cmd": checker_cmd,
        "trusted_base": [
            "rustc nightly 1.97 type checker, trait resolution, MIR construction, const evaluation",
            "mirfacts exporter (/verif/mirfacts) and the Python analyses in /verif/vcheck",
            "reviewed table rows in /verif/tables (each listed under rules[].table_rows)",
        ],
        "explanation": level_text,
        "evaluations": n_obl,
        "distinct_nontrivial": distinct,
        "rule": "one obligation per (rule, function/site[, configuration]) instance found in the facts of the "
                "current tree; distinct = distinct obligation keys; every instance is non-trivial in the sense "
                "that the rule had a concrete construct to decide (vacuous rules are failed by floors)",
        "samples": samples[:12],
        "not_decided": not_decided,
        "facts": ctx.fact_info,
        "bits_limbs_configurations": ["%d,%d" % c for c in ctx.cfgs()],
        "rules": [{
            "rule": rep.rule,
            "description": rep.description,
            "analysed": rep.analysed,
            "floors": [{"label": f[0], "count": f[1], "floor": f[2]} for f in rep.floors],
            "obligations": len(rep.obligations),
            "violations": [o.to_json() for o in rep.obligations if o.status == "violation"],
            "table_rows": [o.to_json() for o in rep.obligations if o.status == "table"],
            "instances": [o.key for o in rep.obligations][:400],
            "notes": rep.notes,
        } for rep in reports],
    }
    ev = {
        "property_id": prop_id,
        "tier": ctx.tier,
        "seed": ctx.seed,
        "level": level,
        "coverage": cov,
        "assumptions": assumptions,
        "wall_s": round(wall, 2),
        "violations": len(viol),
    }
    with open(os.path.join(evdir, "%s.json" % prop_id), "w") as fh:
        json.dump(ev, fh, indent=1)
    print("[%s] tier=%s obligations=%d ok=%d table=%d known=%d violations=%d wall=%.1fs" % (
        prop_id, ctx.tier, n_obl, n_ok, n_table, len(known_hit), len(viol), wall))
    return 1 if viol else 0
