"""Interval abstract interpretation of one MIR body under one (BITS, LIMBS)
configuration.  No path enumeration, no solver: a classic forward dataflow
analysis over the pruned CFG with widening at loop heads.

Tracked (keys of State.iv):
  * integer locals                        l
  * integer fields of tuples / structs    ("pl", l, path)   path of ("f",i)/("dc",v)
  * slice / str lengths                   ("len", root local)
Separately: small fixed integer arrays (one interval per element).
Copies are tracked (temp -> key) so that a branch on a temporary refines the
variable it was copied from, and boolean locals remember the comparison they
hold (bool local -> (op, key, key)) so that a later branch refines it.
Locals whose address is taken mutably are never tracked.
"""
import re
from . import ir

TOP_LEN = (0, (1 << 63) - 1)
MAX_ARRAY = 64
WIDEN_AFTER = 3
NEG = {"Lt": "Ge", "Le": "Gt", "Gt": "Le", "Ge": "Lt", "Eq": "Ne", "Ne": "Eq"}
CMP = ("Eq", "Ne", "Lt", "Le", "Gt", "Ge")


# From between integer types is lossless by definition
_IS_NEG = re.compile(r"core::num::<impl (i8|i16|i32|i64|i128|isize)>::(is_negative|is_positive)")
_ORD_CMP = re.compile(r"core::cmp::impls::<impl core::cmp::Ord for (u8|u16|u32|u64|u128|usize|i8|i16|i32|i64|i128|isize)>::cmp")
_TRY_FROM_INT = re.compile(r"core::convert::num::(?:ptr_try_from_impls::)?<impl core::convert::TryFrom<(u8|u16|u32|u64|u128|usize|i8|i16|i32|i64|i128|isize)> for "
                           r"(u8|u16|u32|u64|u128|usize|i8|i16|i32|i64|i128|isize)>::try_from")
_FROM_INT = re.compile(r"core::convert::num::<impl core::convert::From<(u8|u16|u32|u64|usize|bool|i8|i16|i32|i64|isize)> for "
                       r"(u16|u32|u64|u128|usize|i16|i32|i64|i128|isize)>::from")


def ty_range(tn):
    bits = ir.INT_BITS.get(tn)
    if bits is None:
        return None
    if tn in ir.SIGNED:
        return (-(1 << (bits - 1)), (1 << (bits - 1)) - 1)
    return (0, (1 << bits) - 1)


def join(a, b):
    if a is None or b is None:
        return None
    return (min(a[0], b[0]), max(a[1], b[1]))


def meet(a, b):
    return (max(a[0], b[0]), min(a[1], b[1]))


def clamp(iv, rng):
    """Interval after wrapping into the type range: top of the type if it may wrap."""
    if iv is None or rng is None:
        return rng
    if iv[0] < rng[0] or iv[1] > rng[1]:
        return rng
    return iv


def is_c(k):
    return isinstance(k, tuple) and k[0] == "c"


def key_root(k):
    if isinstance(k, int):
        return k
    if isinstance(k, tuple) and k[0] in ("elem", "pl", "len"):
        return k[1]
    return None


class State:
    __slots__ = ("iv", "arr", "alias", "bf", "ub", "sym", "shadow", "rel", "le")

    def __init__(self):
        self.iv = {}
        self.arr = {}     # local -> list of intervals
        self.alias = {}   # local -> key it is a copy of
        self.bf = {}      # bool local -> (op, akey, bkey); keys may be ("c", value)
        self.ub = {}      # key -> frozenset of keys known to be strictly greater (relational upper bounds)
        self.sym = {}     # key -> ("sub", C, K): value == C - value(K), no wrap-around
        self.shadow = {}  # ref local -> (array local, element intervals before `&mut array` was taken)
        self.rel = {}     # local -> ("bitlen"|"lz", uint arg) | ("cast", source key, from type, to type)
        self.le = {}      # key -> frozenset of keys known to be greater or equal (non-strict upper bounds)

    def copy(self):
        s = State()
        s.iv = dict(self.iv)
        s.arr = {k: list(v) for k, v in self.arr.items()}
        s.alias = dict(self.alias)
        s.bf = dict(self.bf)
        s.ub = dict(self.ub)
        s.sym = dict(self.sym)
        s.shadow = dict(self.shadow)
        s.rel = dict(self.rel)
        s.le = dict(self.le)
        return s

    def same(self, o):
        return self.iv == o.iv and self.arr == o.arr and self.alias == o.alias and self.bf == o.bf \
            and self.ub == o.ub and self.sym == o.sym \
            and self.shadow == o.shadow and self.rel == o.rel and self.le == o.le


class Analysis:
    RANGE_NEXT = ("core::iter::range::<impl core::iter::traits::iterator::Iterator for "
                  "core::ops::range::Range<A>>::next")
    IDENTITY_CALLS = ("<I as core::iter::traits::collect::IntoIterator>::into_iter",)
    REV_NEXT = "<core::iter::adapters::rev::Rev<I> as core::iter::traits::iterator::Iterator>::next"
    ENUM_NEXT = "<core::iter::adapters::enumerate::Enumerate<I> as core::iter::traits::iterator::Iterator>::next"
    CNT = (("cnt",),)      # synthetic field of an Enumerate iterator: the number of items yielded so far
    LEN_CALLS = ("core::slice::<impl [T]>::len", "core::str::<impl str>::len", "alloc::vec::Vec::<T, A>::len")
    EMPTY_CALLS = ("core::slice::<impl [T]>::is_empty", "core::str::<impl str>::is_empty",
                   "alloc::vec::Vec::<T, A>::is_empty")
    KNOWN_RANGES = {
        "core::num::<impl u64>::leading_zeros": (0, 64),
        "core::num::<impl u64>::trailing_zeros": (0, 64),
        "core::num::<impl u64>::trailing_ones": (0, 64),
        "core::num::<impl u64>::count_ones": (0, 64),
        "core::num::<impl u128>::leading_zeros": (0, 128),
        "core::convert::num::<impl core::convert::From<bool> for i8>::from": (0, 1),
        "core::convert::num::<impl core::convert::From<bool> for u8>::from": (0, 1),
        "core::convert::num::<impl core::convert::From<bool> for u64>::from": (0, 1),
        "core::convert::num::<impl core::convert::From<bool> for usize>::from": (0, 1),
        # foreign post-conditions (read in alloy-rlp 0.3 / fastrlp 0.3, 0.4 encode.rs): 1 for payloads < 56 bytes,
        # else 1 + (8 - leading_zeros(len) / 8) <= 9
        "alloy_rlp::encode::length_of_length": (1, 9),
        "fastrlp::encode::length_of_length": (1, 9),
    }
    SIZE_OF = {"u8": 1, "i8": 1, "u16": 2, "i16": 2, "u32": 4, "i32": 4, "u64": 8, "i64": 8, "u128": 16, "i128": 16,
               "usize": 8, "isize": 8, "bool": 1}

    def __init__(self, view, arg_intervals=None, summaries=None, ret_len=None, ret_discr=None, forced=None, arg_plimbs=None,
                 ret_interval=None, canonical_args=False, ret_paths=None):
        self.v = view
        self.ret_paths = ret_paths  # callback: (callee key, call terminator, analysis, state) -> {field path: interval} of a returned tuple
        # assume C04 for Uint arguments: their top limb is <= MASK (never set by R-CANON, which proves C04)
        self.top_limb = None
        if canonical_args and view.cfg is not None and view.cfg[1] > 0:
            m = view.prog.const_cfg.get("crate::Uint::<BITS, LIMBS>::MASK", {}).get(view.cfg)
            if m is not None:
                self.top_limb = (view.cfg[1] - 1, (0, m))
        self.body = view.body
        self.summaries = summaries or {}
        self.ret_discr = ret_discr  # callback: (callee key, call terminator, analysis, state) -> discriminant interval
        self.ret_interval = ret_interval  # callback: (callee key, call terminator, analysis, state) -> interval of an integer result
        self.forced = forced or {}  # block -> the only successor to follow (assumption injected by a rule)
        self.ret_len = ret_len     # callback: (callee key, call terminator, analysis) -> interval of returned slice length
        self.arg_intervals = arg_intervals or {}
        self.arg_plimbs = arg_plimbs or {}   # immutable Uint parameter -> {limb index: interval} known at the call site
        self.nl = view.nlocals
        self.rng = []
        self.arrlen = {}
        for i, l in enumerate(self.body["locals"]):
            t = l["ty"]
            self.rng.append(ty_range(t["n"]) if t["k"] == "prim" else None)
            if t["k"] == "array" and t["t"]["k"] == "prim" and t["t"]["n"] in ir.INT_BITS:
                n = self.cval_const(t["len"])
                if n is not None and n <= MAX_ARRAY:
                    self.arrlen[i] = (n, ty_range(t["t"]["n"]))
        self.escaped = set()
        self.refroot = {}
        self._immut = None
        self._same_len = None
        self._ksub = None
        self._csub = None
        self._deps = None
        self.thresholds = self._thresholds()
        self._prescan()
        self.entry = {}
        self._run()

    # ------------------------------------------------------------------ setup
    def cval_const(self, c):
        if c.get("c") == "lit":
            return c["v"]
        if c.get("c") == "param":
            return self.v.env.get(c["n"])
        if c.get("c") == "uneval":
            return self.v.prog.const_value(c["def"], c["args"], self.v.env)
        return None

    def _prescan(self):
        mut_borrows = []
        self._prescan_blocks(mut_borrows)
        # references derived from a `&mut x`
        derived = {}
        for r, x in mut_borrows:
            if r is None:
                self.escaped.add(x)
            else:
                derived.setdefault(r, set()).add(x)
        changed = True
        while changed:
            changed = False
            for l, rr in self.refroot.items():
                for e in rr:
                    if e is not None and e[0] == "ref" and e[1] in derived:
                        if not derived[e[1]] <= derived.get(l, set()):
                            derived.setdefault(l, set()).update(derived[e[1]])
                            changed = True

        def has_ptr(t):
            return ir.ty_contains(t, lambda u: u.get("k") in ("ptr", "other", "dyn", "alias"))
        for blk in self.v.blocks:
            if blk.get("cleanup"):
                continue
            t = blk["term"]
            if t["t"] == "call":
                for a in t["args"]:
                    if a.get("o") in ("copy", "move") and not a["p"] and a["l"] in derived:
                        dt = self.body["locals"][t["dest"]["l"]]["ty"]
                        if has_ptr(dt):
                            self.escaped.update(derived[a["l"]])
            for s in blk["stmts"]:
                if s["s"] == "assign" and s["rv"]["r"] == "cast":
                    a = s["rv"]["a"]
                    if a.get("o") in ("copy", "move") and not a["p"] and a["l"] in derived \
                            and s["rv"]["ty"].get("k") == "ptr":
                        self.escaped.update(derived[a["l"]])
                elif s["s"] == "assign" and s["rv"]["r"] == "rawptr":
                    pl = s["rv"]["pl"]
                    if pl["l"] in derived and "deref" in pl["p"]:
                        self.escaped.update(derived[pl["l"]])

    def _prescan_blocks(self, mut_borrows):
        self.usecount = {}
        self.swap_borrows = set()     # `&mut x` temporaries whose only use is as an argument of core::mem::swap
        for blk in self.v.blocks:
            if blk.get("cleanup"):
                continue
            for op in ir.operands_of_block(blk):
                if op.get("o") in ("copy", "move"):
                    self.usecount[op["l"]] = self.usecount.get(op["l"], 0) + 1
            for s in blk["stmts"]:
                if s["s"] == "assign":
                    if s["rv"]["r"] in ("ref", "rawptr", "discr"):
                        x = s["rv"]["pl"]["l"]
                        self.usecount[x] = self.usecount.get(x, 0) + 1
                    if s["pl"]["p"]:
                        self.usecount[s["pl"]["l"]] = self.usecount.get(s["pl"]["l"], 0) + 1
            t = blk["term"]
            if t["t"] == "drop":
                self.usecount[t["pl"]["l"]] = self.usecount.get(t["pl"]["l"], 0) + 1
        for bi, blk in enumerate(self.v.blocks):
            if blk.get("cleanup"):
                continue
            t_ = blk["term"]
            if t_["t"] == "call" and ir.callee_name(t_["fn"]) == "core::mem::swap" and len(t_["args"]) == 2 and \
                    all(a_.get("o") == "move" and not a_["p"] and self.usecount.get(a_["l"], 0) == 1 for a_ in t_["args"]):
                defs_here = {s_["pl"]["l"]: s_ for s_ in blk["stmts"] if s_["s"] == "assign" and not s_["pl"]["p"]}
                # either `_t = &mut x` directly or `_t = &mut *_u` with `_u = &mut x` (two-phase reborrow)
                for a_ in t_["args"]:
                    l_ = a_["l"]
                    chain = []
                    while l_ in defs_here and defs_here[l_]["rv"]["r"] == "ref" and defs_here[l_]["rv"].get("m") == "mut":
                        chain.append(l_)
                        pl_ = defs_here[l_]["rv"]["pl"]
                        if pl_["p"] == ["deref"]:
                            l_ = pl_["l"]
                        elif not pl_["p"]:
                            self.swap_borrows.update(chain)
                            break
                        else:
                            break
            for s in blk["stmts"]:
                if s["s"] != "assign":
                    continue
                rv = s["rv"]
                dst = s["pl"]
                if rv["r"] in ("ref", "rawptr"):
                    pl = rv["pl"]
                    if rv["m"] == "mut" and "deref" not in pl["p"]:
                        lt = self.body["locals"][pl["l"]]["ty"]
                        is_range = lt["k"] == "adt" and self._is_for_range(lt)
                        if is_range and any("`for` loop" in m for m in s.get("mac", [])):
                            pass
                        elif rv["r"] == "rawptr":
                            self.escaped.add(pl["l"])
                        else:
                            # safe `&mut x`: x is havocked where the borrow is created (no direct access
                            # to x can happen while the borrow lives); it escapes for good only if the
                            # reference can turn into a raw pointer (checked below)
                            mut_borrows.append((dst["l"] if not dst["p"] else None, pl["l"]))
                    if not dst["p"]:
                        if pl["p"] == ["deref"]:
                            self.refroot.setdefault(dst["l"], []).append(("ref", pl["l"]))
                        elif not pl["p"]:
                            self.refroot.setdefault(dst["l"], []).append(("own", pl["l"]))
                        else:
                            self.refroot.setdefault(dst["l"], []).append(None)
                elif not dst["p"]:
                    lt = self.body["locals"][dst["l"]]["ty"]
                    if lt["k"] != "ref":
                        continue
                    if rv["r"] == "use" and rv["a"].get("o") in ("copy", "move") and not rv["a"]["p"]:
                        self.refroot.setdefault(dst["l"], []).append(("ref", rv["a"]["l"]))
                    elif rv["r"] == "cast" and rv["kind"].startswith("PointerCoercion(Unsize") and \
                            rv["a"].get("o") in ("copy", "move") and not rv["a"]["p"]:
                        self.refroot.setdefault(dst["l"], []).append(("ref", rv["a"]["l"]))
                    else:
                        self.refroot.setdefault(dst["l"], []).append(None)
            t = blk["term"]
            if t["t"] == "call" and not t["dest"]["p"]:
                lt = self.body["locals"][t["dest"]["l"]]["ty"]
                if lt["k"] == "ref":
                    self.refroot.setdefault(t["dest"]["l"], []).append(None)

    U64 = (0, (1 << 64) - 1)

    def _immut_uint_args(self):
        """Arguments of type &Uint / Uint (or the Bits wrapper) that the body never writes or mutably borrows:
        their limbs are the same values at every program point."""
        if self._immut is not None:
            return self._immut
        out = set()
        for l in range(1, self.v.nargs + 1):
            t = self.body["locals"][l]["ty"]
            if t.get("k") == "ref":
                if t.get("m"):
                    continue
                t = t["t"]
            if not (t.get("k") == "adt" and t.get("n") in (ir.UINT, ir.BITS_T)):
                continue
            out.add(l)
        for blk in self.v.blocks:
            for st_ in blk["stmts"]:
                if st_["s"] != "assign":
                    continue
                out.discard(st_["pl"]["l"])
                rv = st_["rv"]
                if rv["r"] in ("ref", "rawptr") and rv.get("m") == "mut":
                    out.discard(rv["pl"]["l"])
            t = blk["term"]
            if t["t"] == "call":
                out.discard(t["dest"]["l"])
        self._immut = out
        return out

    def uint_arg_of(self, l, depth=6):
        """The immutable Uint argument a local is (a reference to / a copy of), or None."""
        while depth > 0:
            depth -= 1
            if l in self._immut_uint_args():
                return l
            if self.v.is_arg(l):
                return None
            d = self.v.single_def(l)
            if d is None or d[1] == "term":
                return None
            rv = d[2]["rv"]
            if rv["r"] == "use" and rv["a"].get("o") in ("copy", "move") and not rv["a"]["p"]:
                l = rv["a"]["l"]
            elif rv["r"] == "ref" and rv.get("m") != "mut" and rv["pl"]["p"] in ([], ["deref"]):
                l = rv["pl"]["l"]
            else:
                return None
        return None

    def plimb_key(self, op):
        """("plimb", arg, k) when the operand reads limb k (a constant) of an immutable Uint argument."""
        p = op["p"]
        if not p:
            return None
        from .rules.canon import limb_proj
        l = op["l"]
        root, rest = None, None
        if l in self._immut_uint_args():
            lp = limb_proj(self.v, op)
            if lp is not None:
                root, rest = l, lp[2]
        elif p[0] == "deref" and len(p) == 2:
            d = self.v.single_def(l)
            if d is not None and d[1] == "term":
                t = d[2]
                nm = ir.callee_name(t["fn"]) or ""
                if nm.endswith("::as_limbs") and nm in self.v.prog.bodies and len(t["args"]) == 1 \
                        and t["args"][0].get("o") in ("copy", "move") and not t["args"][0]["p"]:
                    root = self.uint_arg_of(t["args"][0]["l"])
                    rest = p[1:]
            elif d is not None:
                rv = d[2]["rv"]
                if rv["r"] == "ref" and rv.get("m") != "mut" and rv["pl"]["l"] in self._immut_uint_args():
                    lp = limb_proj(self.v, rv["pl"])
                    if lp is not None and not lp[2]:
                        root, rest = rv["pl"]["l"], p[1:]
        if root is None or rest is None or len(rest) != 1:
            return None
        e = rest[0]
        k = None
        if e[0] == "cidx" and not e[2]:
            k = e[1]
        elif e[0] == "idx":
            k = self.v.const_of_local(e[1])
        if k is None:
            return None
        return ("plimb", root, k)

    def root_of(self, l, depth=8):
        """Root object a reference local points to: ('arg'|'own', local) or None."""
        while depth > 0:
            depth -= 1
            if self.v.is_arg(l):
                if self.v.defs.get(l):
                    return None
                return ("arg", l)
            rr = self.refroot.get(l)
            if not rr or len(rr) != 1 or rr[0] is None:
                return None
            kind, src = rr[0]
            if kind == "own":
                return ("own", src)
            l = src
        return None

    def pointee_ty(self, l):
        t = self.body["locals"][l]["ty"]
        if t["k"] in ("ref", "ptr"):
            return t["t"]
        return None

    def len_key(self, l, st=None):
        """("len", key) / ("const", n) for the slice/str/array the reference local l points to."""
        t = self.pointee_ty(l)
        if t is None:
            return None
        if t["k"] == "array":
            n = self.cval_const(t["len"])
            return ("const", n) if n is not None else None
        if t["k"] == "slice" or (t["k"] == "prim" and t["n"] == "str"):
            if l in self.escaped:
                return None
            k = st.alias.get(l, l) if st is not None else l
            hops = 0
            while st is not None and isinstance(k, int) and k != l and k in st.alias and hops < 4 \
                    and self.pointee_ty(k) is not None:
                k = st.alias[k]      # a == b and b == c unified one after the other
                hops += 1
            if isinstance(k, int):
                if k in self.escaped:
                    return None
                return ("len", k)
            if isinstance(k, tuple) and k[0] == "len":
                return k
        return None

    # ------------------------------------------------------------------ state access
    @staticmethod
    def path_of(proj):
        out = []
        for e in proj:
            if isinstance(e, list) and e[0] == "f":
                out.append(("f", e[1]))
            elif isinstance(e, list) and e[0] == "dc":
                out.append(("dc", e[1]))
            else:
                return None
        return tuple(out)

    def get(self, st, key):
        if isinstance(key, tuple) and key[0] == "c":
            return (key[1], key[1])
        if isinstance(key, tuple) and key[0] == "elem":
            a = st.arr.get(key[1])
            if a is not None and 0 <= key[2] < len(a):
                iv = a[key[2]]
                sy = st.sym.get(key)
                if sy is not None and sy[0] == "same" and iv is not None:
                    other = self.get(st, sy[2])     # the element still holds the value of that variable
                    if other is not None:
                        m = meet(iv, other)
                        if m[0] <= m[1]:
                            iv = m
                return iv
            return None
        if key in st.iv:
            return st.iv[key]
        if isinstance(key, tuple) and key[0] == "plimb":
            if self.top_limb is not None and key[2] == self.top_limb[0]:
                return self.top_limb[1]
            return self.U64
        if isinstance(key, tuple) and key[0] == "len":
            return TOP_LEN
        if isinstance(key, int):
            return self.rng[key]
        return None

    def set(self, st, key, iv):
        if isinstance(key, tuple) and key[0] == "c":
            return
        root = key_root(key)
        if root is not None and root in self.escaped:
            return
        if isinstance(key, tuple) and key[0] == "elem":
            a = st.arr.get(key[1])
            if a is not None and 0 <= key[2] < len(a) and iv is not None:
                a[key[2]] = iv
            return
        if iv is None:
            st.iv.pop(key, None)
        else:
            st.iv[key] = iv

    def forget_about(self, st, l):
        """Drop aliases and boolean facts that mention local l (l is being written)."""
        for t in [t for t, k in st.alias.items() if key_root(k) == l]:
            del st.alias[t]
        for d in [d for d, f in st.bf.items() if key_root(f[1]) == l or key_root(f[2]) == l]:
            del st.bf[d]
        for k in [k for k, v in st.sym.items() if key_root(v[2]) == l or (v[0] == "ksub" and key_root(v[1]) == l)]:
            del st.sym[k]
        for k in [k for k, v in st.rel.items() if (v[0] in ("cast", "inrange", "satsub") and key_root(v[1]) == l)
                  or (v[0] in ("ordcmp", "orddiscr") and (key_root(v[1]) == l or key_root(v[2]) == l))
                  or (v[0] in ("iterof", "enumof") and v[1][0] == "len" and key_root(v[1]) == l)]:
            del st.rel[k]
        for k in list(st.le):
            if key_root(k) == l:
                del st.le[k]
            else:
                keep = frozenset(x for x in st.le[k] if key_root(x) != l)
                if keep:
                    st.le[k] = keep
                else:
                    del st.le[k]
        for k in list(st.ub):
            if key_root(k) == l:
                del st.ub[k]
            else:
                keep = frozenset(x for x in st.ub[k] if key_root(x) != l)
                if keep:
                    st.ub[k] = keep
                else:
                    del st.ub[k]

    def kill_local(self, st, l):
        """Whole local l is (re)assigned."""
        st.alias.pop(l, None)
        st.bf.pop(l, None)
        st.iv.pop(l, None)
        st.iv.pop(("len", l), None)
        for k in [k for k in st.iv if isinstance(k, tuple) and k[0] == "pl" and k[1] == l]:
            del st.iv[k]
        for k in [k for k in st.sym if key_root(k) == l]:
            del st.sym[k]
        st.rel.pop(l, None)
        self.forget_about(st, l)

    def _succ_le(self, st, lo_k, hi_k):
        """lo_k < hi_k was established: a counter known to be lo_k + 1 is <= hi_k."""
        for c_, sy in list(st.sym.items()):
            if sy[0] == "succ" and sy[2] == lo_k and key_root(c_) not in self.escaped:
                st.le[c_] = st.le.get(c_, frozenset()) | {hi_k}

    def _below_pred(self, st, x, res):
        """res == x - 1 (no wrap): every key known to be strictly below x is <= res."""
        for b_key in list(st.ub):
            if key_root(b_key) == key_root(res) or b_key == res:
                continue
            if x in self.uppers(st, b_key)[1]:
                st.le[b_key] = st.le.get(b_key, frozenset()) | {res}

    def index_value(self, st, e):
        if e[0] == "idx":
            return self.get(st, e[1])
        if e[0] == "cidx" and not e[2]:
            return (e[1], e[1])
        return None

    def eval_operand(self, st, op):
        """(interval or None, alias key or None)"""
        o = op.get("o")
        if o == "const":
            c = self.v.const_of_operand(op)
            if c is not None:
                return (c, c), None
            t = op.get("ty")
            return (ty_range(t) if isinstance(t, str) else None), None
        if o not in ("copy", "move"):
            return None, None
        l = op["l"]
        if not op["p"]:
            key = st.alias.get(l, l)
            iv = self.get(st, l)
            if key != l:
                kiv = self.get(st, key)
                if kiv is not None:
                    iv = meet(iv, kiv) if iv is not None else kiv
                    if iv[0] > iv[1]:
                        iv = kiv
            if l in self.escaped:
                key = None
            return iv, key
        pk = self.plimb_key(op)
        if pk is not None:
            return self.get(st, pk), pk
        if op["p"] == ["deref"] and self.v.local_ty(l).get("k") == "ref" and not self.v.local_ty(l).get("m"):
            # `*r` for a shared reference to an integer local (assert_eq!'s `(&a, &b)` tuple): while the borrow is
            # live the pointee cannot change, so its current value is the value read
            k = self._ref_value_key(st, l)
            if k is not None:
                if is_c(k):
                    return (k[1], k[1]), None
                return self.get(st, k), k
        if l in self.escaped:
            return None, None
        path = self.path_of(op["p"])
        if path is not None:
            k = ("pl", l, path)
            return st.iv.get(k), k
        if l in st.arr and len(op["p"]) == 1:
            ix = self.index_value(st, op["p"][0])
            if ix is not None:
                lo, hi = max(ix[0], 0), min(ix[1], len(st.arr[l]) - 1)
                if lo > hi:
                    return None, None
                iv = self.get(st, ("elem", l, lo))
                for j in range(lo + 1, hi + 1):
                    iv = join(iv, self.get(st, ("elem", l, j)))
                return iv, (("elem", l, lo) if lo == hi else None)
        return None, None

    def operand_key(self, st, op):
        """A key (or ("c", value)) naming the current value of an operand."""
        c = self.v.const_of_operand(op)
        if c is not None:
            return ("c", c)
        if op.get("o") == "const":
            return None
        iv, key = self.eval_operand(st, op)
        if key is None:
            return None
        r = key_root(key)
        if r is not None and r in self.escaped:
            return None
        return key

    # ------------------------------------------------------------------ arithmetic
    def binop(self, op, a, b, rng, tn):
        op = op.replace("Unchecked", "")
        if a is None or b is None:
            if op == "BitAnd":
                x = a if a is not None else b
                if x is not None and x[0] >= 0:
                    return (0, x[1])
            if op == "Rem" and b is not None and b[0] > 0 and rng and rng[0] == 0:
                return (0, b[1] - 1)
            if op in CMP:
                return (0, 1)
            return rng
        if op == "Add":
            return clamp((a[0] + b[0], a[1] + b[1]), rng)
        if op == "Sub":
            return clamp((a[0] - b[1], a[1] - b[0]), rng)
        if op == "Mul":
            c = [a[0] * b[0], a[0] * b[1], a[1] * b[0], a[1] * b[1]]
            return clamp((min(c), max(c)), rng)
        if op == "Div":
            if b[0] > 0 and a[0] >= 0:
                return (a[0] // b[1], a[1] // b[0])
            return rng
        if op == "Rem":
            if b[0] > 0 and a[0] >= 0:
                if a[1] < b[0]:
                    return a
                return (0, min(a[1], b[1] - 1))
            return rng
        if op == "BitAnd":
            if a[0] >= 0 and b[0] >= 0:
                return (0, min(a[1], b[1]))
            if a[0] >= 0:
                return (0, a[1])
            if b[0] >= 0:
                return (0, b[1])
            return rng
        if op in ("BitOr", "BitXor"):
            if a[0] >= 0 and b[0] >= 0:
                n = max(a[1].bit_length(), b[1].bit_length())
                lo = max(a[0], b[0]) if op == "BitOr" else 0
                return (lo, (1 << n) - 1)
            return rng
        if op == "Shr":
            if a[0] >= 0 and b[0] >= 0:
                bits = ir.INT_BITS.get(tn or "", 64)
                if b[1] < bits:
                    return (a[0] >> b[1], a[1] >> b[0])
                return (0, a[1] >> b[0]) if b[0] < bits else rng
            return rng
        if op == "Shl":
            if a[0] >= 0 and b[0] >= 0:
                bits = ir.INT_BITS.get(tn or "", 64)
                if b[1] < bits:
                    return clamp((a[0] << b[0], a[1] << b[1]), rng)
            return rng
        if op in CMP:
            t = self.cmp_truth(op, a, b)
            return (0, 1) if t is None else (int(t), int(t))
        return rng

    @staticmethod
    def cmp_truth(op, a, b):
        if op == "Lt":
            if a[1] < b[0]:
                return True
            if a[0] >= b[1]:
                return False
        elif op == "Le":
            if a[1] <= b[0]:
                return True
            if a[0] > b[1]:
                return False
        elif op == "Gt":
            if a[0] > b[1]:
                return True
            if a[1] <= b[0]:
                return False
        elif op == "Ge":
            if a[0] >= b[1]:
                return True
            if a[1] < b[0]:
                return False
        elif op == "Eq":
            if a[0] == a[1] == b[0] == b[1]:
                return True
            if a[1] < b[0] or b[1] < a[0]:
                return False
        elif op == "Ne":
            if a[1] < b[0] or b[1] < a[0]:
                return True
            if a[0] == a[1] == b[0] == b[1]:
                return False
        return None

    def eval_rvalue(self, st, rv, rng, tn):
        """(interval, alias key)"""
        k = rv["r"]
        if k == "use":
            return self.eval_operand(st, rv["a"])
        if k == "bin":
            a, _ = self.eval_operand(st, rv["a"])
            b, _ = self.eval_operand(st, rv["b"])
            return self.binop(rv["op"], a, b, rng, tn), None
        if k == "cast" and rv["kind"] == "IntToInt":
            a, al = self.eval_operand(st, rv["a"])
            if a is not None and rng is not None and a[0] >= rng[0] and a[1] <= rng[1]:
                return a, al
            return rng, None
        if k == "discr":
            pl = rv["pl"]
            if not pl["p"] and pl["l"] not in self.escaped:
                return st.iv.get(("pl", pl["l"], (("discr",),)), rng), None
            return rng, None
        if k == "un":
            if rv["op"] == "PtrMetadata":
                a = rv["a"]
                if a.get("o") in ("copy", "move") and not a["p"]:
                    lk = self.len_key(a["l"], st)
                    if lk is not None:
                        if lk[0] == "const":
                            return (lk[1], lk[1]), None
                        return self.get(st, lk), lk
                return TOP_LEN, None
            if rv["op"] == "Not" and tn == "bool":
                a, _ = self.eval_operand(st, rv["a"])
                if a is not None and a[0] == a[1]:
                    return (1 - a[0], 1 - a[0]), None
                return (0, 1), None
            return rng, None
        return rng, None

    # ------------------------------------------------------------------ statements
    def _is_enum(self, defkey):
        if defkey in ("core::option::Option", "core::result::Result"):
            return True
        st = self.v.prog.structs.get(defkey)
        return bool(st and len(st["variants"]) > 1)

    @staticmethod
    def _is_for_range(lt):
        """Iterator state of a `for` loop whose next() is modelled: Range<_> and Rev<Range<_>>."""
        if lt.get("n") == "core::ops::range::Range":
            return True
        if lt.get("n") == "core::iter::adapters::enumerate::Enumerate" and bool(lt.get("a")) and \
                lt["a"][0].get("n") == "core::slice::iter::Iter":
            return True
        return lt.get("n") == "core::iter::adapters::rev::Rev" and bool(lt.get("a")) and \
            lt["a"][0].get("n") == "core::ops::range::Range"

    def havoc(self, st, x):
        self.kill_local(st, x)
        st.arr.pop(x, None)
        if x in self.arrlen and x not in self.escaped:
            n, erng = self.arrlen[x]
            st.arr[x] = [erng] * n

    def assign(self, st, s):
        pl, rv = s["pl"], s["rv"]
        l = pl["l"]
        if rv["r"] == "ref" and rv["m"] == "mut" and "deref" not in rv["pl"]["p"]:
            x = rv["pl"]["l"]
            lt = self.body["locals"][x]["ty"]
            if not pl["p"] and l in self.swap_borrows and not rv["pl"]["p"]:
                pass      # borrowed only to be exchanged by core::mem::swap: the call's effect is modelled exactly
            elif not (lt["k"] == "adt" and self._is_for_range(lt)
                      and any("`for` loop" in m for m in s.get("mac", []))):
                saved = st.arr.get(x)
                self.havoc(st, x)
                for r in [r for r, sh in st.shadow.items() if sh[0] == x]:
                    del st.shadow[r]
                if saved is not None and not rv["pl"]["p"] and not pl["p"] and self.usecount.get(l, 0) == 1 \
                        and x not in self.escaped:
                    st.shadow[l] = (x, tuple(saved))
        if pl["p"]:
            if "deref" in pl["p"]:
                return   # write through a pointer: pointees with a mutable borrow are `escaped`
            self.forget_about(st, l)
            st.alias.pop(l, None)
            path = self.path_of(pl["p"])
            if path is not None:
                for k in [k for k in st.iv if isinstance(k, tuple) and k[0] == "pl" and k[1] == l
                          and (k[2][:len(path)] == path or path[:len(k[2])] == k[2])]:
                    del st.iv[k]
                if l not in self.escaped:
                    val, _ = self.eval_rvalue(st, rv, None, None)
                    if val is not None:
                        st.iv[("pl", l, path)] = val
                return
            for k in [k for k in st.iv if isinstance(k, tuple) and k[0] == "pl" and k[1] == l]:
                del st.iv[k]
            if l in st.arr and len(pl["p"]) == 1 and l not in self.escaped:
                ix = self.index_value(st, pl["p"][0])
                val, _ = self.eval_rvalue(st, rv, self.arrlen[l][1], None)
                if val is None:
                    val = self.arrlen[l][1]
                a = st.arr[l]
                if ix is None:
                    lo, hi = 0, len(a) - 1
                else:
                    lo, hi = max(ix[0], 0), min(ix[1], len(a) - 1)
                for j in range(lo, hi + 1):
                    st.sym.pop(("elem", l, j), None)
                if lo == hi:
                    a[lo] = val
                    if rv["r"] == "use" and rv["a"].get("o") in ("copy", "move"):
                        sk_ = self.operand_key(st, rv["a"])
                        if sk_ is not None and not is_c(sk_) and key_root(sk_) != l and key_root(sk_) not in self.escaped:
                            st.sym[("elem", l, lo)] = ("same", 0, sk_)   # limbs[c] = x: remember which variable it holds
                else:
                    for j in range(lo, hi + 1):
                        a[j] = join(a[j], val)
            else:
                st.arr.pop(l, None)
            return
        # whole-local assignment: evaluate first (the rvalue may read l), then kill
        rng = self.rng[l]
        tn = self.v.local_tyname(l)
        if l in self.escaped:
            self.kill_local(st, l)
            st.arr.pop(l, None)
            return
        if l in self.arrlen:
            n, erng = self.arrlen[l]
            arr = None
            if rv["r"] == "repeat":
                iv, _ = self.eval_operand(st, rv["a"])
                arr = [iv if iv is not None else erng] * n
            elif rv["r"] == "agg" and rv.get("kind") == "array":
                arr = []
                for o in rv["ops"]:
                    iv, _ = self.eval_operand(st, o)
                    arr.append(iv if iv is not None else erng)
            elif rv["r"] == "use" and rv["a"].get("o") in ("copy", "move") and not rv["a"]["p"] \
                    and rv["a"]["l"] in st.arr:
                src_ = rv["a"]["l"]
                arr = [self.get(st, ("elem", src_, j)) for j in range(len(st.arr[src_]))]   # with what is known now
            self.kill_local(st, l)
            if arr is not None and len(arr) == n:
                st.arr[l] = arr
            else:
                st.arr.pop(l, None)
            return
        if rng is None and self.pointee_ty(l) is not None:
            # reference locals: remember which slice they point to
            src = None
            if rv["r"] in ("ref", "rawptr") and rv["pl"]["p"] == ["deref"]:
                src = rv["pl"]["l"]   # `&*r`, and `&raw const *r` (how bounds checks read the length of a `&mut [T]`)
            elif rv["r"] == "use" and rv["a"].get("o") in ("copy", "move") and not rv["a"]["p"]:
                src = rv["a"]["l"]
            elif rv["r"] == "cast" and rv["kind"].startswith("PointerCoercion(Unsize") and \
                    rv["a"].get("o") in ("copy", "move") and not rv["a"]["p"]:
                src = rv["a"]["l"]
            tgt, clen, field_len = None, None, None
            if rv["r"] == "use" and rv["a"].get("o") in ("copy", "move") and rv["a"]["p"]:
                path = self.path_of(rv["a"]["p"])
                if path is not None and rv["a"]["l"] not in self.escaped:
                    liv = st.iv.get(("pl", rv["a"]["l"], path + (("len",),)))
                    if liv is not None and liv[0] == liv[1]:
                        clen = liv[0]
                    elif liv is not None:
                        field_len = liv
            if src is not None and src != l:
                lk = self.len_key(src, st)
                if lk is not None and lk[0] == "len":
                    tgt = lk
                elif lk is not None and lk[0] == "const":
                    clen = lk[1]
            self.kill_local(st, l)
            pt = self.pointee_ty(l)
            if pt["k"] == "slice" or (pt["k"] == "prim" and pt["n"] == "str"):
                if tgt is not None and key_root(tgt) != l:
                    st.alias[l] = tgt[1] if isinstance(tgt[1], int) else tgt
                elif clen is not None:
                    st.iv[("len", l)] = (clen, clen)
                elif field_len is not None and l not in self.escaped:
                    st.iv[("len", l)] = field_len
            return
        if rng is None:
            new_paths = {}
            new_sym = {}
            moved_rel = None
            if rv["r"] == "use" and rv["a"].get("o") in ("copy", "move") and not rv["a"]["p"] \
                    and st.rel.get(rv["a"]["l"], (None,))[0] in ("iterof", "enumof") and l not in self.escaped:
                moved_rel = st.rel[rv["a"]["l"]]
            if rv["r"] == "bin" and rv["op"].endswith("WithOverflow"):
                pair_up = None
                pair_pred = None
                # checked arithmetic pair (value, overflowed)
                tt = self.v.local_ty(l)
                etn = tt["ts"][0]["n"] if (tt.get("k") == "tuple" and tt["ts"] and tt["ts"][0].get("k") == "prim") else None
                erng = ty_range(etn) if etn else None
                a, _ = self.eval_operand(st, rv["a"])
                b, _ = self.eval_operand(st, rv["b"])
                if erng is not None and a is not None and b is not None:
                    op = rv["op"][:-len("WithOverflow")]
                    if op == "Add":
                        ex = (a[0] + b[0], a[1] + b[1])
                        ka, kb = self.operand_key(st, rv["a"]), self.operand_key(st, rv["b"])
                        for x, y in ((ka, kb), (kb, ka)):
                            if x is None or y is None or is_c(x):
                                continue
                            for e in st.ub.get(x, ()):
                                sy = st.sym.get(e)
                                if sy is not None and sy[2] == y and sy[0] == "sub":
                                    ex = (ex[0], min(ex[1], sy[1] - 1))   # x < C - y  =>  x + y <= C - 1
                    elif op == "Sub":
                        ex = (a[0] - b[1], a[1] - b[0])
                        ka, kb = self.operand_key(st, rv["a"]), self.operand_key(st, rv["b"])
                        if ka is not None and kb is not None and not is_c(kb):
                            ge_b, st_b = self.uppers(st, kb)
                            if ka == kb or ka in ge_b:
                                ex = (max(ex[0], 1 if ka in st_b else 0), ex[1])   # b <= a / b < a
                            rb_ = st.rel.get(kb) if isinstance(kb, int) else None
                            if rb_ is not None and rb_[0] == "satsub" and rb_[1] == ka:
                                ex = (min(a[0], rb_[2]), min(a[1], rb_[2]))        # a - a.saturating_sub(c) == min(a, c)
                            sa = st.sym.get(ka) if not is_c(ka) else None
                            if sa is not None and sa[0] == "sub":
                                # A = C1 - i ;  i < C - B (no wrap)  =>  A - B >= C1 - C + 1
                                for e in st.ub.get(sa[2], ()):
                                    sy = st.sym.get(e)
                                    if sy is not None and sy[0] == "sub" and sy[2] == kb and sa[1] - sy[1] + 1 >= 0:
                                        ex = (max(ex[0], sa[1] - sy[1] + 1), ex[1])
                        nw_ = b[0] >= 0 and a[0] >= b[1]
                        if not nw_ and ka is not None and kb is not None and not is_c(ka) and not is_c(kb) and b[0] >= 0 \
                                and (ka == kb or ka in self.uppers(st, kb)[0]):
                            nw_ = True
                        if ka is not None and not is_c(ka) and nw_:
                            ge_a, st_a = self.uppers(st, ka)
                            ge_a = frozenset(k_ for k_ in ge_a | {ka} if key_root(k_) != l)
                            pair_up = (ge_a, ge_a if b[0] >= 1 else frozenset(k_ for k_ in st_a if key_root(k_) != l))
                            if b == (1, 1) and key_root(ka) != l:
                                pair_pred = ka
                    elif op == "Mul":
                        c = [a[0] * b[0], a[0] * b[1], a[1] * b[0], a[1] * b[1]]
                        ex = (min(c), max(c))
                    else:
                        ex = None
                    if ex is not None and ex[0] >= erng[0] and ex[1] <= erng[1]:
                        new_paths[(("f", 0),)] = ex
                        new_paths[(("f", 1),)] = (0, 0)
                        if op == "Sub":
                            ka, kb = self.operand_key(st, rv["a"]), self.operand_key(st, rv["b"])
                            if ka is not None and kb is not None and is_c(ka) and not is_c(kb) and key_root(kb) != l \
                                    and b[0] >= 0 and b[1] <= ka[1]:
                                new_sym[(("f", 0),)] = ("sub", ka[1], kb)
                    else:
                        new_paths[(("f", 0),)] = erng
                        new_paths[(("f", 1),)] = (0, 1)
                self.kill_local(st, l)
                for p_, v_ in new_paths.items():
                    st.iv[("pl", l, p_)] = v_
                for p_, v_ in new_sym.items():
                    st.sym[("pl", l, p_)] = v_
                if pair_up is not None and l not in self.escaped and (("f", 1),) in new_paths and new_paths[(("f", 1),)] == (0, 0):
                    k0 = ("pl", l, (("f", 0),))
                    if pair_up[0]:
                        st.le[k0] = frozenset(pair_up[0])
                    if pair_up[1]:
                        st.ub[k0] = frozenset(pair_up[1])
                    if pair_pred is not None:
                        self._below_pred(st, pair_pred, k0)
                return
            if rv["r"] == "agg" and rv.get("kind") in ("tuple", "adt"):
                pre = (("dc", rv["vidx"]),) if (rv.get("kind") == "adt" and self._is_enum(rv["def"])) else ()
                if pre:
                    new_paths[(("discr",),)] = (rv["vidx"], rv["vidx"])
                for i, o in enumerate(rv["ops"]):
                    iv, _ = self.eval_operand(st, o)
                    if o.get("o") in ("copy", "move") and not o["p"] and o["l"] in st.sym \
                            and key_root(st.sym[o["l"]][2]) != l:
                        new_sym[pre + (("f", i),)] = st.sym[o["l"]]
                    if o.get("o") in ("copy", "move") and not o["p"] and self.pointee_ty(o["l"]) is not None:
                        lk_ = self.len_key(o["l"], st)
                        if lk_ is not None:
                            liv_ = (lk_[1], lk_[1]) if lk_[0] == "const" else self.get(st, lk_)
                            if liv_ is not None:
                                new_paths[pre + (("f", i), ("len",))] = liv_   # length of the slice the field points to
                    ok_ = self.operand_key(st, o) if o.get("o") in ("copy", "move") else None
                    if ok_ is not None and not is_c(ok_) and (isinstance(ok_, int) or ok_[0] in ("len", "pl")) and key_root(ok_) != l \
                            and key_root(ok_) not in self.escaped and (pre + (("f", i),)) not in new_sym \
                            and rv.get("def", "").startswith("core::ops::range::Range"):
                        new_sym[pre + (("f", i),)] = ("same", 0, ok_)   # a range bound equal to that variable / slice length
                    if iv is not None:
                        new_paths[pre + (("f", i),)] = iv
                    elif o.get("o") in ("copy", "move") and not o["p"] and o["l"] not in self.escaped:
                        for k, v in st.iv.items():
                            if isinstance(k, tuple) and k[0] == "pl" and k[1] == o["l"]:
                                new_paths[pre + (("f", i),) + k[2]] = v
            elif rv["r"] == "use" and rv["a"].get("o") in ("copy", "move"):
                a = rv["a"]
                path = self.path_of(a["p"])
                if path is not None and a["l"] not in self.escaped:
                    n = len(path)
                    for k, v in st.iv.items():
                        if isinstance(k, tuple) and k[0] == "pl" and k[1] == a["l"] and k[2][:n] == path:
                            new_paths[k[2][n:]] = v
                    for k, v in st.sym.items():
                        if isinstance(k, tuple) and k[0] == "pl" and k[1] == a["l"] and k[2][:n] == path \
                                and key_root(v[2]) != l:
                            new_sym[k[2][n:]] = v
            self.kill_local(st, l)
            if moved_rel is not None:
                st.rel[l] = moved_rel
            for p_, v in new_paths.items():
                if p_:
                    st.iv[("pl", l, p_)] = v
            for p_, v in new_sym.items():
                if p_:
                    st.sym[("pl", l, p_)] = v
            return
        fact = None
        if tn == "bool":
            if rv["r"] == "bin" and rv["op"] in CMP:
                ak, bk = self.operand_key(st, rv["a"]), self.operand_key(st, rv["b"])
                if ak is not None and bk is not None:
                    fact = (rv["op"], ak, bk)
            elif rv["r"] == "un" and rv["op"] == "Not":
                a = rv["a"]
                if a.get("o") in ("copy", "move") and not a["p"] and a["l"] in st.bf:
                    f = st.bf[a["l"]]
                    fact = (NEG[f[0]], f[1], f[2])
            elif rv["r"] == "use":
                a = rv["a"]
                if a.get("o") in ("copy", "move") and not a["p"] and a["l"] in st.bf:
                    fact = st.bf[a["l"]]
        iv, alias = self.eval_rvalue(st, rv, rng, tn)
        symv = None
        rel_up = None    # (ge keys, strict keys) inherited by the result
        pred_of = None
        copy_of = None
        if rv["r"] == "bin" and rv["op"] in ("Sub", "SubUnchecked") and rng is not None and rng[0] == 0:
            ka, kb = self.operand_key(st, rv["a"]), self.operand_key(st, rv["b"])
            a_, _ = self.eval_operand(st, rv["a"])
            b_, _ = self.eval_operand(st, rv["b"])
            if ka is not None and kb is not None and not is_c(ka) and not is_c(kb) and a_ is not None and b_ is not None:
                ge_b, _s = self.uppers(st, kb)
                if ka == kb or ka in ge_b:
                    iv = (max(0, a_[0] - b_[1]), a_[1] - b_[0])      # b <= a: no wrap-around
                rb_ = st.rel.get(kb) if isinstance(kb, int) else None
                if rb_ is not None and rb_[0] == "satsub" and rb_[1] == ka:
                    iv = (min(a_[0], rb_[2]), min(a_[1], rb_[2]))    # a - a.saturating_sub(c) == min(a, c)
            no_wrap = b_ is not None and a_ is not None and b_[0] >= 0 and a_[0] >= b_[1]
            if not no_wrap and ka is not None and kb is not None and not is_c(ka) and not is_c(kb) and b_ is not None \
                    and b_[0] >= 0 and (ka == kb or ka in self.uppers(st, kb)[0]):
                no_wrap = True      # b <= a is known as a relation (`(len - 1) - i` with i < len)
            if ka is not None and not is_c(ka) and b_ is not None and a_ is not None and no_wrap:
                # result = a - c with c >= 0 and no wrap: every upper bound of a bounds the result (strictly if c >= 1);
                # also covers the self-decrement `x = x - 1` (bounds that mention x itself are dropped)
                ge_a, st_a = self.uppers(st, ka)
                ge_a = frozenset(k_ for k_ in (ge_a | {ka}) if key_root(k_) != l and k_ != l)
                rel_up = (ge_a, ge_a if b_[0] >= 1 else frozenset(k_ for k_ in st_a if key_root(k_) != l))
                if b_ == (1, 1) and key_root(ka) != l:
                    pred_of = ka    # the result is the predecessor of a: everything strictly below a is <= the result
        elif rv["r"] == "use" and rng is not None:
            sk = self.operand_key(st, rv["a"]) if rv["a"].get("o") in ("copy", "move") else None
            if sk is not None and not is_c(sk) and key_root(sk) != l:
                ge_a, st_a = self.uppers(st, sk)
                rel_up = (frozenset(k_ for k_ in ge_a if key_root(k_) != l), frozenset(k_ for k_ in st_a if key_root(k_) != l))
                copy_of = sk
        if rv["r"] == "bin" and rv["op"] in ("Sub", "Add") and rng is not None:
            ka, kb = self.operand_key(st, rv["a"]), self.operand_key(st, rv["b"])
            if rv["op"] == "Sub" and ka is not None and kb is not None and is_c(ka) and not is_c(kb):
                biv = self.get(st, kb)
                if biv is not None and biv[0] >= 0 and biv[1] <= ka[1] and key_root(kb) != l:
                    symv = ("sub", ka[1], kb)
            if rv["op"] == "Sub" and ka is not None and kb is not None and not is_c(ka) and not is_c(kb):
                sa = st.sym.get(ka)
                aiv = self.get(st, ka)
                if sa is not None and sa[0] == "sub" and aiv is not None:
                    # A = C1 - i ;  i < C - B (no wrap)  =>  A - B >= C1 - C + 1
                    for e in st.ub.get(sa[2], ()):
                        sy = st.sym.get(e)
                        if sy is not None and sy[0] == "sub" and sy[2] == kb and sa[1] - sy[1] + 1 >= 0:
                            iv = (sa[1] - sy[1] + 1, aiv[1])
            if rv["op"] == "Add" and ka is not None and kb is not None and iv is not None:
                for x, y in ((ka, kb), (kb, ka)):
                    if isinstance(x, tuple) and x[0] == "c":
                        continue
                    for e in st.ub.get(x, ()):
                        sy = st.sym.get(e)
                        if sy is not None and sy[2] == y and sy[0] == "sub":
                            # x < C - y  and no wrap  =>  x + y <= C - 1
                            iv = (iv[0], min(iv[1], sy[1] - 1))
        castrel = None
        if rv["r"] == "cast" and rv["kind"] == "IntToInt" and rng is not None:
            a = rv["a"]
            sk = self.operand_key(st, a)
            ftn = None
            if a.get("o") in ("copy", "move"):
                ftn = self.v.local_tyname(a["l"]) if not a["p"] else ("u64" if self.plimb_key(a) else None)
            if sk is not None and not is_c(sk) and ftn in ir.INT_BITS and key_root(sk) != l:
                castrel = ("cast", sk, ftn, tn)
        if symv is None and rv["r"] == "use" and alias is not None and alias in st.sym and key_root(st.sym[alias][2]) != l \
                and key_root(alias) != l:
            symv = st.sym[alias]   # copy of a value with a known `C - k` form (e.g. field .0 of a checked pair)
        ord_rel = None
        if rv["r"] == "discr" and not rv["pl"]["p"] and st.rel.get(rv["pl"]["l"], (None,))[0] == "ordcmp" and l not in self.escaped:
            ord_rel = ("orddiscr",) + tuple(st.rel[rv["pl"]["l"]][1:])
        self.kill_local(st, l)
        if ord_rel is not None and key_root(ord_rel[1]) != l and key_root(ord_rel[2]) != l:
            st.rel[l] = ord_rel
        if rel_up is not None and l not in self.escaped:
            ge_, st_ = rel_up
            ge_ = frozenset(k_ for k_ in ge_ if k_ != l and key_root(k_) not in self.escaped)
            st_ = frozenset(k_ for k_ in st_ if k_ != l and key_root(k_) not in self.escaped)
            if ge_:
                st.le[l] = ge_
            if st_:
                st.ub[l] = st_
        if pred_of is not None and l not in self.escaped:
            self._below_pred(st, pred_of, l)
        if copy_of is not None and l not in self.escaped:
            # a copy is also an upper bound of everything its source bounds
            for b_key in list(st.le):
                if copy_of in st.le[b_key] and key_root(b_key) != l:
                    st.le[b_key] = st.le[b_key] | {l}
            for b_key in list(st.ub):
                if copy_of in st.ub[b_key] and key_root(b_key) != l:
                    st.ub[b_key] = st.ub[b_key] | {l}
        if castrel is not None:
            st.rel[l] = castrel
        if symv is not None:
            st.sym[l] = symv
        if iv is None:
            iv = rng
        iv = meet(iv, rng)
        if iv[0] > iv[1]:
            iv = rng
        st.iv[l] = iv
        if alias is not None and alias != l and key_root(alias) != l:
            st.alias[l] = alias
        if fact is not None and key_root(fact[1]) != l and key_root(fact[2]) != l:
            st.bf[l] = fact

    def transfer_block(self, bi, st):
        """State after the statements of block bi (before its terminator)."""
        st = st.copy()
        for s in self.v.blocks[bi]["stmts"]:
            if s["s"] == "assign":
                self.assign(st, s)
        return st

    # ------------------------------------------------------------------ calls
    def call_effect(self, st, t):
        """Apply a call terminator's effect on the destination."""
        name = ir.callee_name(t["fn"])
        d_ = t["fn"].get("def") if isinstance(t["fn"], dict) else None
        if d_ in ("core::cmp::Ord::min", "core::cmp::Ord::max") and name is not None and name not in self.v.prog.bodies:
            # the driver reports the `cmp` these forward to (for the call graph); on primitive integers the
            # operation itself is what matters here
            name = d_
        dest = t["dest"]
        d = dest["l"]
        args = t["args"]
        if dest["p"]:
            if "deref" not in dest["p"]:
                self.forget_about(st, d)
                st.alias.pop(d, None)
                st.arr.pop(d, None)
                for k in [k for k in st.iv if isinstance(k, tuple) and k[0] == "pl" and k[1] == d]:
                    del st.iv[k]
            return
        rng = self.rng[d]
        iv, alias, fact, paths, syms, ubs = None, None, None, {}, {}, {}
        les, enum_step = {}, None
        ref_len, restore = None, None
        min_le = []
        newrel = None
        lows_from = None   # key of a range's start field: every yielded value is >= the variable it was built from
        a0 = args[0] if args else None
        a0_local = a0["l"] if (a0 is not None and a0.get("o") in ("copy", "move") and not a0["p"]) else None
        if name in self.LEN_CALLS and a0_local is not None:
            lk = self.len_key(a0_local, st)
            if lk is not None:
                if lk[0] == "const":
                    iv = (lk[1], lk[1])
                else:
                    iv, alias = self.get(st, lk), lk
            else:
                iv = TOP_LEN
        elif name in self.EMPTY_CALLS and a0_local is not None:
            lk = self.len_key(a0_local, st)
            if lk is not None and lk[0] == "len":
                fact = ("Eq", lk, ("c", 0))
        elif name is not None and _IS_NEG.fullmatch(name) and len(args) == 1:
            k_ = self.operand_key(st, args[0])
            if k_ is not None and not is_c(k_):
                fact = ("Lt", k_, ("c", 0)) if name.endswith("is_negative") else ("Gt", k_, ("c", 0))
        elif name in ("core::cmp::min", "core::cmp::Ord::min") and len(args) == 2:
            a, _ = self.eval_operand(st, args[0])
            b, _ = self.eval_operand(st, args[1])
            if a is not None and b is not None:
                iv = (min(a[0], b[0]), min(a[1], b[1]))
            elif rng is not None and (a or b):
                iv = (rng[0], (a or b)[1])
            min_le = [k_ for k_ in (self.operand_key(st, args[0]), self.operand_key(st, args[1]))
                      if k_ is not None and not is_c(k_) and key_root(k_) != d]
        elif name in ("core::cmp::max", "core::cmp::Ord::max") and len(args) == 2:
            a, _ = self.eval_operand(st, args[0])
            b, _ = self.eval_operand(st, args[1])
            if a is not None and b is not None:
                iv = (max(a[0], b[0]), max(a[1], b[1]))
        elif name == "core::num::<impl usize>::saturating_sub" and len(args) == 2:
            a, _ = self.eval_operand(st, args[0])
            b, _ = self.eval_operand(st, args[1])
            if a is not None and b is not None:
                iv = (max(0, a[0] - b[1]), max(0, a[1] - b[0]))
            ka_ = self.operand_key(st, args[0])
            if ka_ is not None and not is_c(ka_) and key_root(ka_) != d:
                min_le = [ka_]                       # a.saturating_sub(c) <= a
                if b is not None and b[0] == b[1]:
                    newrel = ("satsub", ka_, b[0])   # and a - result == min(a, c)
        elif name in self.KNOWN_RANGES and name not in self.summaries:
            iv = self.KNOWN_RANGES[name]
        elif name == "core::mem::size_of" and not args:
            targs = [x.get("n") for x in t["fn"].get("args", []) if isinstance(x, dict) and x.get("k") == "prim"]
            if len(targs) == 1 and targs[0] in self.SIZE_OF:
                iv = (self.SIZE_OF[targs[0]], self.SIZE_OF[targs[0]])
        elif name in ("core::char::convert::<impl core::convert::From<char> for u64>::from",
                      "core::char::convert::<impl core::convert::From<char> for u32>::from",
                      "core::convert::num::<impl core::convert::From<u8> for u64>::from",
                      "core::convert::num::<impl core::convert::From<u32> for u64>::from") and args:
            iv, _ = self.eval_operand(st, args[0])
        elif name is not None and _FROM_INT.fullmatch(name) and args:
            iv, _ = self.eval_operand(st, args[0])   # lossless integer widening
        elif name is not None and _TRY_FROM_INT.fullmatch(name) and args:
            # checked integer conversion: Ok(v) carries the argument's value, which then lies in the target's range
            src_iv, _ = self.eval_operand(st, args[0])
            tgt = ty_range(_TRY_FROM_INT.fullmatch(name).group(2))
            if tgt is not None:
                ok_iv = tgt if src_iv is None else (max(src_iv[0], tgt[0]), min(src_iv[1], tgt[1]))
                if ok_iv[0] <= ok_iv[1]:
                    paths[(("dc", 0), ("f", 0))] = ok_iv
        elif name in self.IDENTITY_CALLS and a0_local is not None and a0_local not in self.escaped:
            if st.rel.get(a0_local, (None,))[0] in ("iterof", "enumof"):
                newrel = st.rel[a0_local]
            for k, v in st.iv.items():
                if isinstance(k, tuple) and k[0] == "pl" and k[1] == a0_local:
                    paths[k[2]] = v
            for k, v in st.sym.items():
                if isinstance(k, tuple) and k[0] == "pl" and k[1] == a0_local and key_root(v[2]) != d:
                    syms[k[2]] = v
        elif name == self.RANGE_NEXT and a0_local is not None:
            r = self.root_of(a0_local)
            if r is not None and r[0] == "own" and r[1] not in self.escaped:
                ks, ke = ("pl", r[1], (("f", 0),)), ("pl", r[1], (("f", 1),))
                start, end = st.iv.get(ks), st.iv.get(ke)
                lows_from = ks
                if start is not None and end is not None:
                    if end[1] - 1 >= start[0]:
                        paths[(("dc", 1), ("f", 0))] = (start[0], end[1] - 1)
                        sy_ = st.sym.get(ke)
                        ubs[(("dc", 1), ("f", 0))] = frozenset([ke] + ([sy_[2]] if sy_ is not None and sy_[0] == "same" else []))
                    else:
                        paths[(("discr",),)] = (0, 0)   # empty range: next() is None
                    st.iv[ks] = (start[0], max(start[1], end[1]))
                else:
                    st.iv.pop(ks, None)
        elif name in ("core::slice::<impl [T]>::get", "core::slice::<impl [T]>::get_mut") and len(args) == 2:
            # Some(sub-slice) of exactly the requested length, or None: never panics
            ra = self.range_operand(args[1])
            if ra is not None:
                kind_, s_op, e_op = ra
                s_iv = self.eval_operand(st, s_op)[0] if s_op is not None else (0, 0)
                e_iv = self.eval_operand(st, e_op)[0] if e_op is not None else None
                if kind_ == "to" and e_iv is not None:
                    paths[(("dc", 1), ("f", 0), ("len",))] = e_iv
                elif kind_ == "range" and e_iv is not None and s_iv is not None:
                    paths[(("dc", 1), ("f", 0), ("len",))] = (max(0, e_iv[0] - s_iv[1]), max(0, e_iv[1] - s_iv[0]))
        elif name in ("<core::option::Option<T> as core::ops::try_trait::Try>::branch",
                      "<core::result::Result<T, E> as core::ops::try_trait::Try>::branch") and a0_local is not None \
                and a0_local not in self.escaped:
            # Some(v) / Ok(v) -> ControlFlow::Continue(v): carry what is known about v and about the variant
            src_variant = 1 if "Option" in name else 0
            dk = st.iv.get(("pl", a0_local, (("discr",),)))
            if dk is not None and dk[0] == dk[1]:
                cont = (dk[0] == src_variant)
                paths[(("discr",),)] = (0, 0) if cont else (1, 1)
            for k, v in st.iv.items():
                if isinstance(k, tuple) and k[0] == "pl" and k[1] == a0_local and k[2][:2] == (("dc", src_variant), ("f", 0)):
                    paths[(("dc", 0), ("f", 0)) + k[2][2:]] = v
            for k, v in st.sym.items():
                if isinstance(k, tuple) and k[0] == "pl" and k[1] == a0_local and k[2][:2] == (("dc", src_variant), ("f", 0)) \
                        and key_root(v[2]) != d:
                    syms[(("dc", 0), ("f", 0)) + k[2][2:]] = v
        elif name == "core::result::Result::<T, E>::ok" and a0_local is not None and a0_local not in self.escaped:
            # Ok(v) -> Some(v), Err(_) -> None
            dk = st.iv.get(("pl", a0_local, (("discr",),)))
            if dk is not None and dk[0] == dk[1]:
                paths[(("discr",),)] = (1, 1) if dk[0] == 0 else (0, 0)
            for k, v in st.iv.items():
                if isinstance(k, tuple) and k[0] == "pl" and k[1] == a0_local and k[2][:2] == (("dc", 0), ("f", 0)):
                    paths[(("dc", 1), ("f", 0)) + k[2][2:]] = v
        elif name == "core::mem::swap" and len(args) == 2 and all(a_.get("o") == "move" and not a_["p"] for a_ in args):
            rx, ry = self.root_of(args[0]["l"]), self.root_of(args[1]["l"])
            if rx is not None and ry is not None and rx[0] == ry[0] == "own" and rx[1] != ry[1] \
                    and rx[1] not in self.escaped and ry[1] not in self.escaped and args[0]["l"] in self.swap_borrows \
                    and args[1]["l"] in self.swap_borrows:
                x_, y_ = rx[1], ry[1]
                if self.rng[x_] is not None and self.rng[y_] is not None:
                    ix, iy = self.get(st, st.alias.get(x_, x_)), self.get(st, st.alias.get(y_, y_))
                    self.kill_local(st, x_)
                    self.kill_local(st, y_)
                    st.iv[x_], st.iv[y_] = (iy or self.rng[x_]), (ix or self.rng[y_])
                elif self.pointee_ty(x_) is not None and self.pointee_ty(y_) is not None:
                    lkx, lky = self.len_key(x_, st), self.len_key(y_, st)
                    ix = ((lkx[1], lkx[1]) if lkx[0] == "const" else self.get(st, lkx)) if lkx is not None else None
                    iy = ((lky[1], lky[1]) if lky[0] == "const" else self.get(st, lky)) if lky is not None else None
                    self.kill_local(st, x_)
                    self.kill_local(st, y_)
                    if iy is not None:
                        st.iv[("len", x_)] = iy
                    if ix is not None:
                        st.iv[("len", y_)] = ix
                else:
                    self.havoc(st, x_)
                    self.havoc(st, y_)
            else:
                for r_ in (rx, ry):
                    if r_ is not None and r_[0] == "own":
                        self.havoc(st, r_[1])
        elif name == "core::slice::<impl [T]>::iter" and a0_local is not None:
            lk = self.len_key(a0_local, st)
            if lk is not None:
                newrel = ("iterof", lk)
        elif name == "core::iter::traits::iterator::Iterator::enumerate" and a0_local is not None \
                and st.rel.get(a0_local, (None,))[0] == "iterof":
            newrel = ("enumof", st.rel[a0_local][1])
            paths[self.CNT] = (0, 0)
        elif name in self.IDENTITY_CALLS and a0_local is not None and st.rel.get(a0_local, (None,))[0] in ("iterof", "enumof"):
            newrel = st.rel[a0_local]
            c_ = st.iv.get(("pl", a0_local, self.CNT))
            if c_ is not None and a0_local not in self.escaped:
                paths[self.CNT] = c_
        elif name == self.ENUM_NEXT and a0_local is not None:
            r = self.root_of(a0_local)
            rl = st.rel.get(r[1]) if r is not None and r[0] == "own" and r[1] not in self.escaped else None
            if rl is not None and rl[0] == "enumof":
                lk = rl[1]
                if lk[0] == "const":
                    if lk[1] > 0:
                        paths[(("dc", 1), ("f", 0), ("f", 0))] = (0, lk[1] - 1)
                    else:
                        paths[(("discr",),)] = (0, 0)
                else:
                    liv = self.get(st, lk)
                    paths[(("dc", 1), ("f", 0), ("f", 0))] = (0, max(0, (liv[1] if liv else TOP_LEN[1]) - 1))
                    ups = {lk}
                    sy_ = st.sym.get(lk)
                    if sy_ is not None and sy_[0] == "same":
                        ups.add(sy_[2])   # the slice is exactly that long
                    ubs[(("dc", 1), ("f", 0), ("f", 0))] = frozenset(ups)
                cntk = ("pl", r[1], self.CNT)
                c_ = st.iv.get(cntk, TOP_LEN)
                P_ = (("dc", 1), ("f", 0), ("f", 0))
                if P_ in paths:
                    # the index yielded is the number of items yielded before: it inherits what is known about the
                    # counter (`<= L` established in the previous iteration), then the counter becomes index + 1
                    m_ = meet(paths[P_], c_)
                    if m_[0] <= m_[1]:
                        paths[P_] = m_
                    les[P_] = frozenset(k_ for k_ in self.uppers(st, cntk)[0] if key_root(k_) not in (d, r[1]))
                    enum_step = (cntk, (c_[0] + 1, min(c_[1] + 1, TOP_LEN[1])))
        elif name == "core::iter::traits::iterator::Iterator::rev" and a0_local is not None and a0_local not in self.escaped \
                and self.v.local_ty(d).get("n") == "core::iter::adapters::rev::Rev":
            # Rev { iter: range }
            for k, v in st.iv.items():
                if isinstance(k, tuple) and k[0] == "pl" and k[1] == a0_local:
                    paths[(("f", 0),) + k[2]] = v
            for k, v in st.sym.items():
                if isinstance(k, tuple) and k[0] == "pl" and k[1] == a0_local and key_root(v[2]) != d:
                    syms[(("f", 0),) + k[2]] = v
        elif name == self.REV_NEXT and a0_local is not None:
            r = self.root_of(a0_local)
            rt = self.v.local_ty(r[1]) if r is not None and r[0] == "own" else {}
            if r is not None and r[0] == "own" and r[1] not in self.escaped and rt.get("n") == "core::iter::adapters::rev::Rev" \
                    and rt.get("a") and rt["a"][0].get("n") == "core::ops::range::Range":
                ks, ke = ("pl", r[1], (("f", 0), ("f", 0))), ("pl", r[1], (("f", 0), ("f", 1)))
                start, end = st.iv.get(ks), st.iv.get(ke)
                # next_back: yields end - 1 >= start; `end` only ever decreases, so every bound of the initial end
                # stays a (strict) bound of every yielded value
                lows_from = ks
                ups = set(st.le.get(ke, ()))
                sy_ = st.sym.get(ke)
                if sy_ is not None and sy_[0] == "same":
                    ups.add(sy_[2])
                    del st.sym[ke]
                if ups:
                    st.le[ke] = frozenset(ups)
                if start is not None and end is not None:
                    if end[1] - 1 >= start[0]:
                        paths[(("dc", 1), ("f", 0))] = (start[0], end[1] - 1)
                        if ups:
                            ubs[(("dc", 1), ("f", 0))] = frozenset(ups)
                    else:
                        paths[(("discr",),)] = (0, 0)
                    st.iv[ke] = (min(start[0], end[0]), end[1])
                else:
                    st.iv.pop(ke, None)
        elif name in ("core::slice::raw::from_raw_parts", "core::slice::raw::from_raw_parts_mut") and len(args) == 2:
            n_iv, _ = self.eval_operand(st, args[1])
            if n_iv is not None:
                ref_len = ("iv", n_iv)
        elif self.ret_len is not None and name in self.v.prog.bodies and self.pointee_ty(d) is not None \
                and self.pointee_ty(d)["k"] == "slice":
            n_iv = self.ret_len(name, t, self)
            if n_iv is not None:
                ref_len = ("iv", n_iv)
        elif self.ret_discr is not None and name in self.v.prog.bodies and rng is None \
                and self.v.local_ty(d)["k"] == "adt" and self._is_enum(self.v.local_ty(d)["n"]):
            dv = self.ret_discr(name, t, self, st)
            if dv is not None:
                paths[(("discr",),)] = dv
            if self.ret_paths is not None:
                # scalar payloads of the variants (`fn top_limb(&self) -> Option<usize>`: Some(i) with i < LIMBS)
                rp = self.ret_paths(name, t, self, st)
                for p_, iv in (rp or {}).items():
                    if p_ and p_[0][0] == "dc":
                        paths[p_] = iv
                    elif p_ == (("discr",),) and dv is None:
                        paths[p_] = iv     # e.g. always None when LIMBS == 0
        elif self.ret_paths is not None and name in self.v.prog.bodies and rng is None \
                and self.v.local_ty(d)["k"] == "tuple":
            rp = self.ret_paths(name, t, self, st)
            if rp:
                paths.update(rp)
        elif name in ("core::slice::<impl [T]>::split_at", "core::slice::<impl [T]>::split_at_mut") \
                and len(args) == 2 and a0_local is not None:
            mid, _ = self.eval_operand(st, args[1])
            if mid is not None:
                paths[(("f", 0), ("len",))] = mid
                lk = self.len_key(a0_local, st)
                if lk is not None:
                    liv = (lk[1], lk[1]) if lk[0] == "const" else self.get(st, lk)
                    if liv is not None:
                        paths[(("f", 1), ("len",))] = (max(0, liv[0] - mid[1]), max(0, liv[1] - mid[0]))
        elif name is not None and "::index::Index" in name and "for str>" not in name and len(args) == 2 \
                and a0_local is not None:
            self._same_len = None
            self._ksub = None
            self._csub = None
            ref_len, restore = self.index_call(st, name, a0_local, args[1])
            if self._same_len is not None and self._same_len != d:
                syms[(("len",),)] = ("same", 0, self._same_len)
            elif self._ksub is not None and key_root(self._ksub[0]) != d and key_root(self._ksub[1]) != d:
                syms[(("len",),)] = ("ksub", self._ksub[0], self._ksub[1])
            elif self._csub is not None and key_root(self._csub[1]) != d:
                syms[(("len",),)] = ("sub", self._csub[0], self._csub[1])
        else:
            sm = self.summaries.get(name)
            if sm is not None:
                iv = sm(self, st, args)
            elif self.ret_interval is not None and rng is not None and name in self.v.prog.bodies:
                iv = self.ret_interval(name, t, self, st)
        obs, obs_range = None, False
        if name is not None and name in self.v.prog.bodies and len(args) == 1 \
                and self.v.prog.bodies[name]["file"] == "src/bits.rs":
            if name.endswith(">::bit_len"):
                obs = "bitlen"
            elif name.endswith(">::leading_zeros"):
                obs = "lz"
            obs_range = obs is not None and self._callee_width_is_own(t)
            if obs is not None:
                ua = self.uint_arg_of(a0_local) if a0_local is not None else None
                obs = (obs, ua) if ua is not None else None
        inrange = None
        if name is not None and name.endswith("::contains") and name.startswith("core::ops::range::Range") and len(args) == 2:
            inrange = self._range_contains(st, name, args)
        elif name is not None and _ORD_CMP.fullmatch(name) and len(args) == 2 \
                and all(a_.get("o") in ("copy", "move") and not a_["p"] for a_ in args):
            ka_, kb_ = self._ref_value_key(st, args[0]["l"]), self._ref_value_key(st, args[1]["l"])
            if ka_ is not None and kb_ is not None:
                inrange = ("ordcmp", ka_, kb_)
        for a in args:
            if a.get("o") in ("copy", "move") and not a["p"]:
                st.shadow.pop(a["l"], None)
        self.kill_local(st, d)
        if inrange is not None and d not in self.escaped:
            st.rel[d] = inrange
        if newrel is not None and d not in self.escaped:
            st.rel[d] = newrel
        if obs is not None and d not in self.escaped:
            st.rel[d] = obs
        if obs_range and self.v.cfg is not None and rng is not None:
            # trusted (C06): bit_len and leading_zeros of a BITS-wide value lie in [0, BITS]
            iv = (0, self.v.cfg[0]) if iv is None else meet(iv, (0, self.v.cfg[0]))
        if restore is not None:
            x, elems = restore
            if x in self.arrlen and x not in self.escaped:
                st.arr[x] = elems
        if ref_len is not None and d not in self.escaped:
            pt = self.pointee_ty(d)
            if pt is not None and pt["k"] == "slice":
                if ref_len[0] == "key" and key_root(ref_len[1]) != d:
                    k = ref_len[1]
                    st.alias[d] = k[1] if (k[0] == "len" and isinstance(k[1], int)) else k
                elif ref_len[0] == "iv":
                    st.iv[("len", d)] = ref_len[1]
        st.arr.pop(d, None)
        if d in self.escaped:
            return
        if (("len",),) in syms and self.pointee_ty(d) is not None:
            st.sym[("len", d)] = syms.pop((("len",),))
        if rng is not None:
            if iv is None:
                iv = rng
            iv = meet(iv, rng)
            st.iv[d] = iv if iv[0] <= iv[1] else rng
            if min_le:
                st.le[d] = frozenset(min_le)
            if alias is not None:
                st.alias[d] = alias
            if fact is not None:
                st.bf[d] = fact
        else:
            for p_, v in paths.items():
                if p_:
                    st.iv[("pl", d, p_)] = v
            for p_, v in syms.items():
                if p_:
                    st.sym[("pl", d, p_)] = v
            for p_, v in ubs.items():
                st.ub[("pl", d, p_)] = v
            for p_, v in les.items():
                if v:
                    st.le[("pl", d, p_)] = v
            if enum_step is not None:
                cntk, civ = enum_step
                st.iv[cntk] = civ
                st.le.pop(cntk, None)
                st.ub.pop(cntk, None)
                st.sym[cntk] = ("succ", 1, ("pl", d, (("dc", 1), ("f", 0), ("f", 0))))
            if lows_from is not None and (("dc", 1), ("f", 0)) in paths:
                # the start field is "same" as X while the range is untouched and only grows afterwards (forward
                # iteration) or stays (reverse iteration): remember X <= start as a non-strict relation of the field
                sy_ = st.sym.get(lows_from)
                xs = set()
                if sy_ is not None and sy_[0] == "same":
                    xs.add(sy_[2])
                    if name != self.REV_NEXT:
                        del st.sym[lows_from]      # forward iteration advances the start field
                for x_, ups_ in st.le.items():
                    if lows_from in ups_:
                        xs.add(x_)
                vk = ("pl", d, (("dc", 1), ("f", 0)))
                for x_ in xs:
                    if key_root(x_) != d:
                        st.le[x_] = st.le.get(x_, frozenset()) | {lows_from, vk}

    def _callee_width_is_own(self, t):
        """The callee is instantiated for this body's own (BITS, LIMBS) (not e.g. Uint<536, 9> inside a generic fn)."""
        ra = t["fn"].get("res_args") or t["fn"].get("args") or []
        cs = [x for x in ra if isinstance(x, dict) and "c" in x]
        if len(cs) < 2:
            return False
        return cs[0].get("c") == "param" and cs[0].get("n") == "BITS" and cs[1].get("c") == "param" and cs[1].get("n") == "LIMBS"

    def _deref_local(self, l, depth=6):
        """Follow `&*r` / `&x` / copies of references back to the local (or promoted constant) they denote."""
        while depth > 0:
            depth -= 1
            d = self.v.single_def(l)
            if d is None or d[1] == "term":
                return ("local", l)
            rv = d[2]["rv"]
            if rv["r"] == "ref" and rv["pl"]["p"] == ["deref"]:
                l = rv["pl"]["l"]
            elif rv["r"] == "ref" and not rv["pl"]["p"]:
                return ("local", rv["pl"]["l"])
            elif rv["r"] == "ref" and rv.get("m") != "mut" and self.path_of(rv["pl"]["p"]) is not None \
                    and not self.v.is_arg(rv["pl"]["l"]):
                # `&(opt as Some).0`: the binding a match guard reads through (`Some(i) if i > 0`)
                return ("place", rv["pl"]["l"], self.path_of(rv["pl"]["p"]))
            elif rv["r"] == "use" and rv["a"].get("o") in ("copy", "move") and not rv["a"]["p"]:
                l = rv["a"]["l"]
            elif rv["r"] == "use" and rv["a"].get("o") in ("copy", "move") and len(rv["a"]["p"]) == 1 \
                    and isinstance(rv["a"]["p"][0], list) and rv["a"]["p"][0][0] == "f":
                # field k of a tuple literal of references: `match (&a, &b) { (l, r) => .. }`
                td = self.v.single_def(rv["a"]["l"])
                if td is None or td[1] == "term" or td[2]["rv"]["r"] != "agg" or td[2]["rv"].get("kind") != "tuple":
                    return ("local", l)
                k_ = rv["a"]["p"][0][1]
                ops_ = td[2]["rv"]["ops"]
                if k_ >= len(ops_) or ops_[k_].get("o") not in ("copy", "move") or ops_[k_]["p"]:
                    return ("local", l)
                l = ops_[k_]["l"]
            elif rv["r"] == "use" and rv["a"].get("o") == "const" and rv["a"].get("c") == "promoted":
                return ("promoted", rv["a"]["i"])
            else:
                return ("local", l)
        return None

    def _ref_value_key(self, st, l):
        """Key (or ("c", v)) of the integer a reference local points to: a local variable or a promoted constant."""
        r = self._deref_local(l)
        if r is None:
            return None
        if r[0] == "local":
            x = r[1]
            if self.rng[x] is None or x in self.escaped:
                return None
            return st.alias.get(x, x)
        if r[0] == "place":
            k = ("pl", r[1], r[2])
            if r[1] in self.escaped or k not in st.iv:
                return None
            return k
        proms = self.body.get("promoted") or []
        if r[1] < len(proms):
            vals = [o.get("v") for blk in proms[r[1]]["blocks"] for s_ in blk["stmts"] if s_["s"] == "assign"
                    and s_["rv"]["r"] == "use" for o in [s_["rv"]["a"]] if o.get("o") == "const" and isinstance(o.get("v"), int)]
            if len(vals) == 1:
                return ("c", vals[0])
        return None

    def _range_contains(self, st, name, args):
        """("inrange", key of x, lo, hi) for `(lo..hi).contains(&x)` / `(lo..=hi).contains(&x)` with constant bounds."""
        if not all(a.get("o") in ("copy", "move") and not a["p"] for a in args):
            return None
        r, x = self._deref_local(args[0]["l"]), self._deref_local(args[1]["l"])
        if r is None or x is None or x[0] != "local" or self.rng[x[1]] is None or x[1] in self.escaped \
                or r[0] == "place":
            return None
        inclusive = "RangeInclusive" in name
        lo = hi = None
        if r[0] == "promoted":
            proms = self.body.get("promoted") or []
            if r[1] >= len(proms):
                return None
            pb = proms[r[1]]
            vals = []
            known = {}

            def pval(o):
                if o.get("o") == "const":
                    return o.get("v") if isinstance(o.get("v"), int) else None
                if o.get("o") in ("copy", "move") and not o["p"]:
                    return known.get(o["l"])
                return None
            for blk in pb["blocks"]:
                for s_ in blk["stmts"]:
                    if s_["s"] != "assign" or s_["pl"]["p"]:
                        continue
                    rv_ = s_["rv"]
                    if rv_["r"] == "use":
                        known[s_["pl"]["l"]] = pval(rv_["a"])
                    elif rv_["r"] == "bin":
                        x_, y_ = pval(rv_["a"]), pval(rv_["b"])
                        if x_ is not None and y_ is not None:
                            f_ = {"Shr": lambda p_, q_: p_ >> q_, "Shl": lambda p_, q_: p_ << q_, "Sub": lambda p_, q_: p_ - q_,
                                  "Add": lambda p_, q_: p_ + q_, "Mul": lambda p_, q_: p_ * q_}.get(rv_["op"])
                            if f_ is not None and 0 <= y_ < 256:
                                known[s_["pl"]["l"]] = f_(x_, y_)
                    elif rv_["r"] == "agg" and rv_.get("def", "").startswith("core::ops::range::Range"):
                        vals = [pval(o) for o in rv_["ops"]]
                t_ = blk["term"]
                if t_["t"] == "call" and (ir.callee_name(t_["fn"]) or "").endswith("RangeInclusive::<Idx>::new"):
                    vals = [pval(o) for o in t_["args"]]
            if len(vals) >= 2 and all(isinstance(v_, int) for v_ in vals[:2]):
                lo, hi = vals[0], vals[1]
                trng = self.rng[x[1]]
                if not (trng[0] <= lo <= trng[1] and trng[0] <= hi <= trng[1]):
                    return None
        else:
            d = self.v.single_def(r[1])
            ops = None
            if d is not None and d[1] == "term" and (ir.callee_name(d[2]["fn"]) or "").endswith("RangeInclusive::<Idx>::new"):
                ops = d[2]["args"]
            elif d is not None and d[1] != "term" and d[2]["rv"]["r"] == "agg":
                ops = d[2]["rv"]["ops"]
            if ops and len(ops) >= 2:
                a, _ = self.eval_operand(st, ops[0])
                b, _ = self.eval_operand(st, ops[1])
                if a is not None and b is not None and a[0] == a[1] and b[0] == b[1]:
                    lo, hi = a[0], b[0]
        if lo is None:
            return None
        if not inclusive:
            hi -= 1
        return ("inrange", st.alias.get(x[1], x[1]), lo, hi)

    def range_operand(self, op):
        """(kind, start operand, end operand) of a Range* typed operand built by an aggregate."""
        if op.get("o") not in ("copy", "move") or op["p"]:
            return None
        t = self.v.local_ty(op["l"])
        if t["k"] != "adt":
            return None
        d = self.v.single_def(op["l"])
        ops = d[2]["rv"]["ops"] if (d is not None and d[1] != "term" and d[2]["rv"]["r"] == "agg") else None
        n = t["n"]
        if n == "core::ops::range::Range" and ops and len(ops) == 2:
            return ("range", ops[0], ops[1])
        if n == "core::ops::range::RangeTo" and ops and len(ops) == 1:
            return ("to", None, ops[0])
        if n == "core::ops::range::RangeFrom" and ops and len(ops) == 1:
            return ("from", ops[0], None)
        if n == "core::ops::range::RangeFull":
            return ("full", None, None)
        return None

    def index_call(self, st, name, recv, range_op):
        """Length of the sub-slice returned by slice/array/Vec indexing with a range, and the
        array elements that indexing through a fresh `&mut array` cannot reach."""
        ra = self.range_operand(range_op)
        if ra is None:
            return None, None
        kind, s_op, e_op = ra
        lk = self.len_key(recv, st)
        len_iv = None
        if lk is not None:
            len_iv = (lk[1], lk[1]) if lk[0] == "const" else self.get(st, lk)
        s_iv = self.eval_operand(st, s_op)[0] if s_op is not None else (0, 0)
        e_iv = self.eval_operand(st, e_op)[0] if e_op is not None else len_iv
        ref_len = None
        if kind == "to":
            ek = self.operand_key(st, e_op)
            if ek is not None and not is_c(ek) and isinstance(ek, tuple) and ek[0] == "len":
                ref_len = ("key", ek)
            elif e_iv is not None:
                ref_len = ("iv", e_iv)
                if isinstance(ek, int) and ek not in self.escaped:
                    self._same_len = ek   # the sub-slice is exactly `end` long: remembered for the destination
        elif kind == "full":
            if lk is not None and lk[0] == "len":
                ref_len = ("key", lk)
            elif len_iv is not None:
                ref_len = ("iv", len_iv)
        elif kind in ("range", "from") and s_iv is not None and e_iv is not None:
            lo, hi = max(0, e_iv[0] - s_iv[1]), max(0, e_iv[1] - s_iv[0])
            ref_len = ("iv", (lo, hi))
            if kind == "from" and lk is not None and lk[0] == "len":
                sk_ = self.operand_key(st, s_op)
                if sk_ is not None and not is_c(sk_) and key_root(sk_) not in self.escaped:
                    self._ksub = (lk, sk_)    # the sub-slice is exactly len(recv) - start long
            elif kind == "from" and lk is not None and lk[0] == "const" and s_iv[0] >= 0 and s_iv[1] <= lk[1]:
                sk_ = self.operand_key(st, s_op)
                if sk_ is not None and not is_c(sk_) and key_root(sk_) not in self.escaped:
                    self._csub = (lk[1], sk_)  # ... of an array: exactly C - start long
        restore = None
        sh = st.shadow.get(recv)
        if sh is not None and "IndexMut" in name:
            x, elems = sh
            lo = s_iv[0] if s_iv is not None else 0
            hi = e_iv[1] if e_iv is not None else len(elems)
            erng = self.arrlen[x][1] if x in self.arrlen else None
            if erng is not None:
                restore = (x, [elems[j] if (j < lo or j >= hi) else erng for j in range(len(elems))])
        return ref_len, restore

    # ------------------------------------------------------------------ re-evaluation after a refinement
    def _thresholds(self):
        """Constants (and their neighbours) that the body compares values with, under this configuration."""
        ts = set()
        v = self.v
        for bi in v.reachable:
            blk = v.blocks[bi]
            for s_ in blk["stmts"]:
                if s_["s"] == "assign" and s_["rv"]["r"] == "bin" and s_["rv"]["op"] in CMP:
                    for o in (s_["rv"]["a"], s_["rv"]["b"]):
                        c = v.const_of_operand(o)
                        if isinstance(c, int) and not isinstance(c, bool) and abs(c) < (1 << 70):
                            ts.update((c - 1, c, c + 1))
            t = blk["term"]
            if t["t"] == "switch":
                for val, _b in t["targets"]:
                    if isinstance(val, int) and abs(val) < (1 << 70):
                        ts.update((val - 1, val, val + 1))
            elif t["t"] == "assert" and t.get("kind") == "BoundsCheck":
                c = v.const_of_operand(t["len"])
                if isinstance(c, int):
                    ts.update((c - 1, c))
        return sorted(ts)

    def _stable_local(self, l):
        """A local whose value, once defined, never changes: single definition (or a parameter never assigned),
        never mutably borrowed."""
        if l in self.escaped:
            return False
        defs = self.v.defs.get(l, [])
        if self.v.is_arg(l):
            return not defs
        return len(defs) == 1

    def _dependents(self):
        """local -> [(block, kind, stmt-or-term)]: single-definition statements that are pure functions of stable
        locals (arithmetic, casts, copies, slice-length reads, range literals, range indexing)."""
        if self._deps is not None:
            return self._deps
        deps = {}
        v = self.v

        def stable_operand(o):
            if o.get("o") == "const":
                return True
            if o.get("o") not in ("copy", "move"):
                return False
            if o["p"] and self.path_of(o["p"]) is None:
                return False
            return self._stable_local(o["l"])
        for bi in v.reachable:
            blk = v.blocks[bi]
            for s_ in blk["stmts"]:
                if s_["s"] != "assign" or s_["pl"]["p"]:
                    continue
                d = s_["pl"]["l"]
                if not self._stable_local(d) or v.is_arg(d):
                    continue
                rv = s_["rv"]
                kind = None
                if rv["r"] in ("use", "bin") or (rv["r"] == "cast" and rv.get("kind") == "IntToInt") \
                        or (rv["r"] == "un" and rv["op"] == "PtrMetadata"):
                    kind = "value"
                elif rv["r"] == "agg" and str(rv.get("def", "")).startswith("core::ops::range::Range"):
                    kind = "through"
                if kind is None:
                    continue
                ops_ = ir.operands_of_rvalue(rv)
                if not all(stable_operand(o) for o in ops_):
                    continue
                for o in ops_:
                    if o.get("o") in ("copy", "move"):
                        deps.setdefault(o["l"], []).append((bi, kind, s_))
            t = blk["term"]
            if t["t"] == "call" and not t["dest"]["p"] and self.ret_interval is not None \
                    and ir.callee_name(t["fn"]) in v.prog.bodies and self.rng[t["dest"]["l"]] is not None \
                    and self._stable_local(t["dest"]["l"]) and all(stable_operand(o) for o in t["args"]):
                # a call of a local function returning an integer: its contextual summary can be re-evaluated
                for o in t["args"]:
                    if o.get("o") in ("copy", "move"):
                        deps.setdefault(o["l"], []).append((bi, "call", t))
                        ua_ = self.uint_arg_of(o["l"]) if not o["p"] else None
                        if ua_ is not None and ua_ != o["l"]:
                            deps.setdefault(ua_, []).append((bi, "call", t))
            if t["t"] == "call" and not t["dest"]["p"]:
                name = ir.callee_name(t["fn"])
                d = t["dest"]["l"]
                if name is not None and "::index::Index" in name and "for str>" not in name and len(t["args"]) == 2 \
                        and self._stable_local(d) and all(stable_operand(o) for o in t["args"]) \
                        and all(o.get("o") in ("copy", "move") and not o["p"] for o in t["args"]):
                    for o in t["args"]:
                        deps.setdefault(o["l"], []).append((bi, "index", t))
        self._deps = deps
        return deps

    def propagate(self, st, before, at_block):
        """After `before` was refined into `st` on an edge out of at_block: re-evaluate, in dependency order, the
        stable locals computed from the refined ones by statements that dominate at_block (`let n = (bits + 7) / 8;
        if bits > C { .. }`: the branch also bounds n).  Only ever narrows."""
        deps = self._dependents()
        if not deps:
            return
        work = []
        for k, iv in st.iv.items():
            if before.iv.get(k) != iv:
                r = key_root(k)
                if r is None and isinstance(k, tuple) and k[0] == "plimb":
                    r = k[1]
                if isinstance(r, int) and r in deps and r not in work:
                    work.append(r)
        doms = self.v.dom.get(at_block, ())
        budget = 64
        while work and budget > 0:
            budget -= 1
            l = work.pop(0)
            for bi, kind, s_ in deps.get(l, ()):
                if bi != at_block and bi not in doms:
                    continue
                if kind == "through":
                    d = s_["pl"]["l"]
                    if d in deps and d not in work:
                        work.append(d)
                    continue
                if kind == "call":
                    d = s_["dest"]["l"]
                    new = self.ret_interval(ir.callee_name(s_["fn"]), s_, self, st)
                    if new is None:
                        continue
                    key = d
                elif kind == "index":
                    d = s_["dest"]["l"]
                    if self.pointee_ty(d) is None or self.pointee_ty(d)["k"] != "slice" or d in st.alias:
                        continue
                    keep = getattr(self, "_same_len", None)
                    ref_len, _restore = self.index_call(st, ir.callee_name(s_["fn"]), s_["args"][0]["l"], s_["args"][1])
                    self._same_len = keep
                    if ref_len is None or ref_len[0] != "iv":
                        continue
                    key, new = ("len", d), ref_len[1]
                else:
                    d = s_["pl"]["l"]
                    rv = s_["rv"]
                    rng = self.rng[d]
                    if rng is None:
                        if not (rv["r"] == "bin" and rv["op"].endswith("WithOverflow")):
                            continue
                        tt = self.v.local_ty(d)
                        etn = tt["ts"][0]["n"] if (tt.get("k") == "tuple" and tt["ts"] and tt["ts"][0].get("k") == "prim") else None
                        erng = ty_range(etn) if etn else None
                        a_, _ = self.eval_operand(st, rv["a"])
                        b_, _ = self.eval_operand(st, rv["b"])
                        if erng is None or a_ is None or b_ is None:
                            continue
                        op_ = rv["op"][:-len("WithOverflow")]
                        if op_ == "Add":
                            new = (a_[0] + b_[0], a_[1] + b_[1])
                        elif op_ == "Sub":
                            new = (a_[0] - b_[1], a_[1] - b_[0])
                        elif op_ == "Mul":
                            c_ = [a_[0] * b_[0], a_[0] * b_[1], a_[1] * b_[0], a_[1] * b_[1]]
                            new = (min(c_), max(c_))
                        else:
                            continue
                        if new[0] < erng[0] or new[1] > erng[1]:
                            continue
                        key = ("pl", d, (("f", 0),))
                    else:
                        new, _al = self.eval_rvalue(st, rv, rng, self.v.local_tyname(d))
                        key = d
                        if new is None:
                            continue
                cur = self.get(st, key)
                if cur is None:
                    continue
                m = meet(cur, new)
                if m[0] > m[1] or m == cur:
                    continue
                st.iv[key] = m
                if d in deps and d not in work:
                    work.append(d)

    # ------------------------------------------------------------------ branches
    def refine(self, st, op, ak, bk, truth):
        """Refine st under (ak op bk) == truth. Returns False if infeasible."""
        if not truth:
            op = NEG[op]
        a = self.get(st, ak)
        b = self.get(st, bk)
        if a is None:
            a = self._range_via_alias(st, ak)
        if b is None:
            b = self._range_via_alias(st, bk)
        if a is None or b is None:
            return True
        na, nb = a, b
        if op == "Lt":
            na = (a[0], min(a[1], b[1] - 1))
            nb = (max(b[0], a[0] + 1), b[1])
        elif op == "Le":
            na = (a[0], min(a[1], b[1]))
            nb = (max(b[0], a[0]), b[1])
        elif op == "Gt":
            na = (max(a[0], b[0] + 1), a[1])
            nb = (b[0], min(b[1], a[1] - 1))
        elif op == "Ge":
            na = (max(a[0], b[0]), a[1])
            nb = (b[0], min(b[1], a[1]))
        elif op == "Eq":
            na = nb = meet(a, b)
        elif op == "Ne":
            if b[0] == b[1]:
                if a[0] == b[0]:
                    na = (a[0] + 1, a[1])
                elif a[1] == b[0]:
                    na = (a[0], a[1] - 1)
            if a[0] == a[1]:
                if b[0] == a[0]:
                    nb = (b[0] + 1, b[1])
                elif b[1] == a[0]:
                    nb = (b[0], b[1] - 1)
        if na[0] > na[1] or nb[0] > nb[1]:
            return False
        self.set(st, ak, na)
        self.set(st, bk, nb)
        lo_e, hi_e = (ak, bk) if op in ("Lt", "Le") else ((bk, ak) if op in ("Gt", "Ge") else (None, None))
        if lo_e is not None and not is_c(lo_e) and not is_c(hi_e) and lo_e != hi_e \
                and key_root(lo_e) not in self.escaped and key_root(hi_e) not in self.escaped:
            st.le[lo_e] = st.le.get(lo_e, frozenset()) | {hi_e}
        lo_k, hi_k = (ak, bk) if op == "Lt" else ((bk, ak) if op == "Gt" else (None, None))
        if lo_k is not None and not (isinstance(lo_k, tuple) and lo_k[0] == "c") \
                and not (isinstance(hi_k, tuple) and hi_k[0] == "c") \
                and key_root(lo_k) not in self.escaped and key_root(hi_k) not in self.escaped:
            st.ub[lo_k] = st.ub.get(lo_k, frozenset()) | {hi_k}
            self._succ_le(st, lo_k, hi_k)
        if op == "Eq" and isinstance(ak, tuple) and isinstance(bk, tuple) and ak[0] == "len" and bk[0] == "len" \
                and isinstance(ak[1], int) and isinstance(bk[1], int) and ak[1] != bk[1] \
                and ak[1] not in self.escaped and bk[1] not in self.escaped and ak[1] not in st.alias:
            # two slices of equal length on this path: from here on they share one length key
            st.alias[ak[1]] = bk[1]
        self._refine_related(st, op, ak, na, bk, nb)
        # temporaries that are copies of the refined keys
        for t, k in st.alias.items():
            if t in self.escaped or self.rng[t] is None:
                continue
            n = na if k == ak else (nb if k == bk else None)
            if n is not None:
                m = meet(st.iv.get(t, self.rng[t]), n)
                st.iv[t] = m if m[0] <= m[1] else n
        return True

    def uppers(self, st, key):
        """(keys known to be >= key, keys known to be > key), transitively: x <= y and y < z give x < z."""
        ge1, st1 = self._uppers1(st, key)
        ge, strict = set(ge1), set(st1)
        work = [(k_, k_ in st1) for k_ in ge1]
        seen = {key}
        n = 0
        while work and n < 64:
            n += 1
            k_, is_strict = work.pop()
            if k_ in seen:
                continue
            seen.add(k_)
            g2, s2 = self._uppers1(st, k_)
            for z in g2:
                if z == key:
                    continue
                ge.add(z)
                zs = is_strict or z in s2
                if zs:
                    strict.add(z)
                work.append((z, zs))
        ge.discard(key)
        strict.discard(key)
        return frozenset(ge), frozenset(strict)

    def _uppers1(self, st, key):
        if key is None or is_c(key):
            return frozenset(), frozenset()
        strict = st.ub.get(key, frozenset())
        ge = set(st.le.get(key, ())) | set(strict)
        sy = st.sym.get(key)
        if sy is not None and sy[0] == "same":
            ge.add(sy[2])
        for k2, v2 in st.sym.items():
            if v2[0] == "same" and v2[2] == key:
                ge.add(k2)            # k2 == key
        if isinstance(key, int):
            ak = st.alias.get(key)
            if ak is not None and ak != key:
                ge.add(ak)
                s2, g2 = st.ub.get(ak, frozenset()), st.le.get(ak, frozenset())
                strict = strict | s2
                ge |= set(g2) | set(s2)
        return frozenset(ge), frozenset(strict)

    def _range_via_alias(self, st, key):
        """Type range of a field key that has no interval yet, taken from an integer temporary that is a copy of it."""
        if not (isinstance(key, tuple) and key[0] == "pl"):
            return None
        for t, k in st.alias.items():
            if k == key and t not in self.escaped and self.rng[t] is not None:
                return meet(st.iv.get(t, self.rng[t]), self.rng[t])
        return None

    def _refine_related(self, st, op, ak, na, bk, nb):
        """Consequences of a refined comparison for related keys.
        bit_len(x) <= c  =>  limb k of x < 2^(c - 64k);  leading_zeros(x) >= c  =>  bit_len(x) <= BITS - c;
        (y as T) as S == y with T unsigned and narrower than S  =>  y in range(T)."""
        cfg = self.v.cfg
        for key, niv in ((ak, na), (bk, nb)):
            sy = st.sym.get(key) if not is_c(key) else None
            if sy is not None and sy[0] == "ksub" and niv[0] >= 1:
                # a non-empty `&x[s..]`: s < len(x)
                lk_, sk_ = sy[1], sy[2]
                if key_root(sk_) not in self.escaped and key_root(lk_) not in self.escaped:
                    st.ub[sk_] = st.ub.get(sk_, frozenset()) | {lk_}
                    self._succ_le(st, sk_, lk_)
        for key, niv in ((ak, na), (bk, nb)):
            if not isinstance(key, int):
                continue
            r = st.rel.get(key)
            if r is None or r[0] not in ("bitlen", "lz") or cfg is None:
                continue
            hi = niv[1] if r[0] == "bitlen" else cfg[0] - niv[0]
            for k in range(cfg[1]):
                nb_ = max(0, min(64, hi - 64 * k))
                pk = ("plimb", r[1], k)
                cur = self.get(st, pk)
                m = meet(cur, (0, (1 << nb_) - 1))
                if m[0] <= m[1]:
                    st.iv[pk] = m
        if op == "Eq":
            for x, y in ((ak, bk), (bk, ak)):
                r2 = st.rel.get(x) if isinstance(x, int) else None
                if r2 is None or r2[0] != "cast" or not isinstance(r2[1], int):
                    continue
                r1 = st.rel.get(r2[1])
                if r1 is None or r1[0] != "cast" or r1[1] != y:
                    continue
                src_t, mid_t, back_t = r1[2], r1[3], r2[3]
                if back_t == src_t and src_t not in ir.SIGNED and ir.INT_BITS[mid_t] < ir.INT_BITS[src_t]:
                    cur = self.get(st, y)
                    if cur is None:
                        continue
                    if mid_t not in ir.SIGNED:
                        pieces = [ty_range(mid_t)]
                    else:
                        # a negative intermediate sign-extends: the fixed points are the non-negative range of the
                        # signed type and the top 2^(t-1) values of the source type
                        h = 1 << (ir.INT_BITS[mid_t] - 1)
                        top = 1 << ir.INT_BITS[src_t]
                        pieces = [(0, h - 1), (top - h, top - 1)]
                    hit = [meet(cur, p_) for p_ in pieces]
                    hit = [h_ for h_ in hit if h_[0] <= h_[1]]
                    if hit:
                        self.set(st, y, (min(h_[0] for h_ in hit), max(h_[1] for h_ in hit)))

    def edge_states(self, bi, st_in):
        """[(succ, state)] after executing block bi from st_in."""
        blk = self.v.blocks[bi]
        t = blk["term"]
        st = self.transfer_block(bi, st_in)
        succs = self.v.succ.get(bi, [])
        if bi in self.forced:
            succs = [x for x in succs if x == self.forced[bi]]
        out = []
        if t["t"] == "call":
            self.call_effect(st, t)
            return [(s, st) for s in succs]
        if t["t"] == "switch" and len(succs) > 1:
            d = t["discr"]
            plain = d.get("o") in ("copy", "move") and not d["p"]
            cond = st.bf.get(d["l"]) if plain else None
            all_vals = {v for v, _b in t["targets"]}
            for s in succs:
                vals = [v for v, b in t["targets"] if b == s]
                is_other = (t["otherwise"] == s)
                ns = st
                inr = st.rel.get(d["l"]) if plain else None
                if cond is None and inr is not None and inr[0] == "orddiscr" and len(vals) == 1 and not is_other:
                    # Ordering: Less = -1 (255 as u8 / isize -1), Equal = 0, Greater = 1
                    v_ = vals[0]
                    op_ = {0: "Eq", 1: "Gt"}.get(v_, "Lt" if v_ in (255, -1, (1 << 64) - 1, (1 << 8) - 1, (1 << 128) - 1) else None)
                    if op_ is not None:
                        ns = st.copy()
                        if not self.refine(ns, op_, inr[1], inr[2], True):
                            continue
                    out.append((s, ns))
                    continue
                if cond is None and inr is not None and inr[0] == "inrange":
                    truths = {bool(v) for v in vals}
                    if is_other:
                        truths |= ({True, False} - {bool(v) for v in all_vals})
                    if truths == {True}:
                        ns = st.copy()
                        cur = self.get(ns, inr[1])
                        if cur is not None:
                            m = meet(cur, (inr[2], inr[3]))
                            if m[0] > m[1]:
                                continue
                            self.set(ns, inr[1], m)
                    out.append((s, ns))
                    continue
                if cond is not None:
                    truths = {bool(v) for v in vals}
                    if is_other:
                        truths |= ({True, False} - {bool(v) for v in all_vals})
                    if len(truths) == 1:
                        ns = st.copy()
                        if not self.refine(ns, cond[0], cond[1], cond[2], truths.pop()):
                            continue
                elif plain and self.rng[d["l"]] is not None and is_other and not vals:
                    # `otherwise` of an integer match: infeasible when every possible value has an arm
                    cur, _k = self.eval_operand(st, d)
                    if cur is not None and cur[1] - cur[0] <= 512:
                        tn = self.v.local_tyname(d["l"])
                        armed = {ir.wrap(v, tn) for v in all_vals}
                        if all(x in armed for x in range(cur[0], cur[1] + 1)):
                            continue
                    if cur is not None:
                        # `match x { 0 => .., _ => here }`: the armed values at either end of the interval are excluded
                        tn = self.v.local_tyname(d["l"])
                        armed = {ir.wrap(v, tn) for v in all_vals}
                        lo_, hi_ = cur
                        while lo_ in armed and lo_ <= hi_:
                            lo_ += 1
                        while hi_ in armed and hi_ >= lo_:
                            hi_ -= 1
                        if lo_ > hi_:
                            continue
                        if (lo_, hi_) != cur:
                            ns = st.copy()
                            self.set(ns, d["l"], (lo_, hi_))
                            if _k is not None and not is_c(_k):
                                self.set(ns, _k, (lo_, hi_))
                elif plain and self.rng[d["l"]] is not None and len(vals) > 1 and not is_other:
                    cur, _k = self.eval_operand(st, d)
                    tn = self.v.local_tyname(d["l"])
                    if cur is not None and not any(cur[0] <= ir.wrap(x, tn) <= cur[1] for x in vals):
                        continue
                elif not plain and d.get("o") in ("copy", "move") and self.path_of(d["p"]) is not None and d["l"] not in self.escaped \
                        and isinstance(d.get("ty"), str) is False:
                    # switch on an integer field (e.g. the payload of `Some(0)` in a match): refine the field key
                    key = ("pl", d["l"], self.path_of(d["p"]))
                    cur = st.iv.get(key) or self._range_via_alias(st, key)
                    if cur is None:
                        lt_ = self.v.local_ty(d["l"])
                        if lt_.get("n") == "core::option::Option" and key[2] == (("dc", 1), ("f", 0)) and lt_.get("a") \
                                and lt_["a"][0].get("k") == "prim":
                            cur = ty_range(lt_["a"][0]["n"])
                    if cur is not None:
                        if len(vals) == 1 and not is_other:
                            v_ = vals[0]
                            if not (cur[0] <= v_ <= cur[1]):
                                continue
                            ns = st.copy()
                            ns.iv[key] = (v_, v_)
                        elif is_other and not vals:
                            lo_, hi_ = cur
                            excl = sorted(all_vals)
                            while excl and excl[0] == lo_:
                                lo_ += 1
                                excl.pop(0)
                            while excl and excl[-1] == hi_:
                                hi_ -= 1
                                excl.pop()
                            if lo_ > hi_:
                                continue
                            ns = st.copy()
                            ns.iv[key] = (lo_, hi_)
                elif plain and self.rng[d["l"]] is not None and len(vals) == 1 and not is_other:
                    ns = st.copy()
                    v = ir.wrap(vals[0], self.v.local_tyname(d["l"]))
                    cur, key = self.eval_operand(ns, d)
                    if cur is not None and not (cur[0] <= v <= cur[1]):
                        continue
                    self.set(ns, d["l"], (v, v))
                    if key is not None:
                        self.set(ns, key, (v, v))
                out.append((s, ns))
            for _s, ns in out:
                if ns is not st:
                    self.propagate(ns, st, bi)
            return out
        if t["t"] == "assert":
            ns = st
            c = t["cond"]
            if c.get("o") in ("copy", "move") and not c["p"]:
                cond = st.bf.get(c["l"])
                if cond is not None:
                    ns = st.copy()
                    if not self.refine(ns, cond[0], cond[1], cond[2], t["expected"]):
                        return []
            return [(s, ns) for s in succs]
        return [(s, st) for s in succs]

    # ------------------------------------------------------------------ fixpoint
    def join_states(self, a, b, widen):
        if a is None:
            return b.copy()
        r = State()
        for k in a.iv:
            if k in b.iv:
                x, y = a.iv[k], b.iv[k]
                j = join(x, y)
                if widen and j != x:
                    if isinstance(k, int):
                        rng = self.rng[k]
                    elif k[0] == "len":
                        rng = TOP_LEN
                    else:
                        rng = None
                    if rng is None:
                        continue
                    # widening with thresholds: an unstable bound jumps to the nearest constant the body compares
                    # something with (`loop { if i == LIMBS { break } .. i += 1 }` stabilises at i <= LIMBS, and the
                    # `!=` edge then gives i < LIMBS), and only beyond the last one to the end of the type's range
                    lo_, hi_ = x[0], x[1]
                    if y[0] < x[0]:
                        lo_ = max([t_ for t_ in self.thresholds if rng[0] <= t_ <= y[0]], default=rng[0])
                    if y[1] > x[1]:
                        hi_ = min([t_ for t_ in self.thresholds if y[1] <= t_ <= rng[1]], default=rng[1])
                    j = (lo_, hi_)
                r.iv[k] = j

        def other_excludes_variant(k, other):
            """k is a payload path under enum variant v of local l; the other state knows l is NOT variant v there."""
            if not (isinstance(k, tuple) and k[0] == "pl"):
                return False
            for i_, e in enumerate(k[2]):
                if e[0] == "dc":
                    dv = other.iv.get(("pl", k[1], k[2][:i_] + (("discr",),)))
                    return dv is not None and not (dv[0] <= e[1] <= dv[1])
            return False
        # the payload of `Some(i)` survives a join with a path on which the value is `None`
        for k, iv in a.iv.items():
            if k not in b.iv and other_excludes_variant(k, b):
                r.iv[k] = iv
        for k, iv in b.iv.items():
            if k not in a.iv and other_excludes_variant(k, a):
                r.iv[k] = iv
        for k in a.arr:
            if k in b.arr and len(a.arr[k]) == len(b.arr[k]):
                erng = self.arrlen[k][1]
                out = []
                for x, y in zip(a.arr[k], b.arr[k]):
                    j = join(x, y)
                    if widen and j != x:
                        j = (x[0] if y[0] >= x[0] else erng[0], x[1] if y[1] <= x[1] else erng[1])
                    out.append(j)
                r.arr[k] = out
        for k, v in a.alias.items():
            if b.alias.get(k) == v:
                r.alias[k] = v
        for k, v in a.bf.items():
            if b.bf.get(k) == v:
                r.bf[k] = v
        for k, v in a.ub.items():
            w = v & b.ub.get(k, frozenset())
            if w:
                r.ub[k] = w
        for k, v in a.sym.items():
            if b.sym.get(k) == v:
                r.sym[k] = v
        for k, v in a.shadow.items():
            if b.shadow.get(k) == v:
                r.shadow[k] = v
        for k, v in a.rel.items():
            if b.rel.get(k) == v:
                r.rel[k] = v
        def le_of(s_, k):
            return self.uppers(s_, k)[0]      # equal (alias / same) and strictly-less imply less-or-equal
        cand = set(a.le) | set(a.ub) | {k for k, v in a.sym.items() if v[0] == "same"} | \
            {k for k, v in a.alias.items() if isinstance(k, int) and self.rng[k] is not None}
        def implied(s_, k, x):
            ik, ix = self.get(s_, k), self.get(s_, x)
            return ik is not None and ix is not None and ik[1] <= ix[0]
        cand |= set(b.le)
        for k in cand:
            la, lb = le_of(a, k), le_of(b, k)
            w = set(la & lb)
            # a bound recorded on one side only survives when the other side's intervals imply it (a counter that is
            # still 0 on the loop-entry edge is <= any length)
            w |= {x for x in la - lb if implied(b, k, x)}
            w |= {x for x in lb - la if implied(a, k, x)}
            w = frozenset(x for x in w if x != k)
            if w and (k not in r.sym or r.sym[k][0] in ("succ", "ksub")) and r.alias.get(k) not in w:
                r.le[k] = w
        return r

    def _run(self):
        v = self.v
        st0 = State()
        for l, iv in self.arg_intervals.items():
            st0.iv[l] = iv
        for l, limbs_ in self.arg_plimbs.items():
            if l in self._immut_uint_args():
                for k_, iv in limbs_.items():
                    st0.iv[("plimb", l, k_)] = iv
        for l, (n, erng) in self.arrlen.items():
            if v.is_arg(l) and l not in self.escaped:
                st0.arr[l] = [erng] * n
        self.entry = {0: st0}
        visits = {}
        heads = set()
        for b in v.reachable:
            for s in v.succ[b]:
                if v.dominates(s, b):
                    heads.add(s)
        order = {b: i for i, b in enumerate(v.rpo())}
        work = [0]
        inwork = {0}
        guard = 0
        edge_out = {}
        while work:
            guard += 1
            if guard > 50000:
                raise RuntimeError("absint did not converge in %s" % self.body["key"])
            work.sort(key=lambda b: order.get(b, 1 << 30))
            bi = work.pop(0)
            inwork.discard(bi)
            # out-states of this block replace its previous ones (an edge may have become infeasible)
            touched = {s for (p_, s) in edge_out if p_ == bi}
            for s in touched:
                del edge_out[(bi, s)]
            for s, ns in self.edge_states(bi, self.entry[bi]):
                prev = edge_out.get((bi, s))
                edge_out[(bi, s)] = ns if prev is None else self.join_states(prev, ns, False)
                touched.add(s)
            for s in touched:
                outs = [st_ for (p_, s_), st_ in edge_out.items() if s_ == s]
                if not outs:
                    continue
                cand = outs[0].copy()
                for st_ in outs[1:]:
                    cand = self.join_states(cand, st_, False)
                old = self.entry.get(s)
                visits[s] = visits.get(s, 0) + 1
                if s in heads and old is not None:
                    # loop heads accumulate (and widen): this is what makes the iteration terminate
                    new = self.join_states(old, cand, visits[s] > WIDEN_AFTER)
                else:
                    # every other block's entry is the join of the CURRENT out-states of its predecessors: facts of
                    # earlier passes that no longer hold on any incoming edge do not linger
                    new = cand
                if old is None or not new.same(old):
                    self.entry[s] = new
                    if s not in inwork:
                        work.append(s)
                        inwork.add(s)

    def return_interval(self):
        """Interval of the integer this function returns (None if unknown)."""
        if self.rng[0] is None:
            return None
        out = None
        for b in self.v.return_blocks():
            st = self.state_before_term(b)
            if st is None:
                continue
            iv = st.iv.get(0, self.rng[0])
            out = iv if out is None else join(out, iv)
        return out

    def return_paths(self):
        """{field path: interval} of the tuple / struct this function returns: scalar fields whose interval is known
        on every return path."""
        out = None
        variant = {}       # payload paths of an enum variant: joined over the return paths that can return that variant
        dead = set()
        for b in self.v.return_blocks():
            st = self.state_before_term(b)
            if st is None:
                continue
            cur = {k[2]: iv for k, iv in st.iv.items() if isinstance(k, tuple) and k[0] == "pl" and k[1] == 0}
            dv = cur.get((("discr",),))
            seen_v = set()
            for p_, iv in cur.items():
                if p_ and p_[0][0] == "dc":
                    k_ = p_[0][1]
                    seen_v.add(k_)
                    if dv is not None and dv[0] <= k_ <= dv[1] and p_ not in dead:
                        variant[p_] = iv if p_ not in variant else join(variant[p_], iv)
            # a return path that may return variant k without a known payload makes that payload unknown
            for p_ in list(variant):
                k_ = p_[0][1]
                if p_ not in cur and (dv is None or dv[0] <= k_ <= dv[1]):
                    dead.add(p_)
                    del variant[p_]
            if dv is None:
                dead |= set(variant)
                variant.clear()
            cur = {p_: iv for p_, iv in cur.items() if not (p_ and p_[0][0] == "dc")}
            if out is None:
                out = cur
            else:
                out = {p_: join(out[p_], cur[p_]) for p_ in out if p_ in cur}
        res = dict(out or {})
        res.update(variant)
        return res

    def return_discr(self):
        """Interval of the discriminant of the enum value this function returns (None if unknown)."""
        out = None
        for b in self.v.return_blocks():
            st = self.state_before_term(b)
            if st is None:
                continue
            iv = st.iv.get(("pl", 0, (("discr",),)))
            if iv is None:
                return None
            out = iv if out is None else join(out, iv)
        return out

    def return_len(self):
        """Interval of the length of the slice reference this function returns (None if unknown)."""
        pt = self.pointee_ty(0)
        if pt is None or pt["k"] != "slice":
            return None
        out = None
        for b in self.v.return_blocks():
            st = self.state_before_term(b)
            if st is None:
                continue
            lk = self.len_key(0, st)
            if lk is None:
                return None
            iv = (lk[1], lk[1]) if lk[0] == "const" else st.iv.get(lk)
            if iv is None:
                return None
            out = iv if out is None else join(out, iv)
        return out

    # ------------------------------------------------------------------ queries
    def state_before_term(self, bi):
        st = self.entry.get(bi)
        if st is None:
            return None
        return self.transfer_block(bi, st)

    def known_less(self, st, a_op, b_op):
        """a < b is established by intervals or by a dominating comparison."""
        a, ak = self.eval_operand(st, a_op)
        b, bk = self.eval_operand(st, b_op)
        if a is not None and b is not None and a[1] < b[0]:
            return True
        ak, bk = self.operand_key(st, a_op), self.operand_key(st, b_op)
        if ak is not None and bk is not None:
            ups = st.ub.get(ak, ())
            if bk in ups:
                return True
            sy = st.sym.get(bk) if not is_c(bk) else None
            if sy is not None and sy[0] == "same" and sy[2] in ups:
                return True   # index < n and the slice is exactly n long
        return False

    def operand_interval(self, bi, op):
        st = self.state_before_term(bi)
        if st is None:
            return None
        return self.eval_operand(st, op)[0]
