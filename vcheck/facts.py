"""Build and cache MIR facts of /repo with the mirfacts driver.

Facts are rebuilt from /repo's current working tree: the cache key is a hash
of every source file cargo would read plus the driver binary and the build
configuration, so any edit to /repo forces a fresh driver run.
"""
import fcntl
import hashlib
import json
import os
import shutil
import subprocess
import sys
import time

VERIF = os.path.dirname(os.path.dirname(os.path.abspath(__file__)))
REPO = os.environ.get("VERIF_REPO", "/repo")
CACHE = os.path.join(VERIF, ".cache")
DRIVER = os.path.join(VERIF, "mirfacts", "target", "release", "mirfacts")

ALL_FEATURES = (
    "std,alloc,alloy-rlp,arbitrary,ark-ff,ark-ff-04,bn-rs,borsh,bytemuck,der,diesel,"
    "fastrlp,fastrlp-04,num-bigint,num-integer,num-traits,parity-scale-codec,postgres,"
    "primitive-types,proptest,pyo3,quickcheck,rand,rand-09,rlp,serde,sqlx,subtle,"
    "valuable,zeroize,ssz"
)

BUILD_CONFIGS = {
    # name: (cargo feature args, extra RUSTFLAGS)
    "all": (["--features", ALL_FEATURES], ""),
    "all-norand09": (["--features", ALL_FEATURES.replace(",rand-09", "")], ""),
    "nodefault": (["--no-default-features"], ""),
    "default": ([], ""),
    "all-nightly": (["--features", ALL_FEATURES + ",nightly,generic_const_exprs"], ""),
    # release semantics + overflow checks (debug-only arithmetic panics in decoders)
    "all-ovf": (["--features", ALL_FEATURES], "-Coverflow-checks=on"),
}

# (BITS, LIMBS) configurations for which the driver evaluates Uint's scalar
# associated constants.  Superset of the quick and thorough sets.
Q_QUICK = [(0, 0), (1, 1), (2, 1), (3, 1), (7, 1), (8, 1), (60, 1), (63, 1), (64, 1), (65, 2),
           (120, 2), (127, 2), (128, 2), (129, 3), (192, 3), (256, 4), (320, 5), (512, 8)]
# (320, 5): the first width class above 256 bits -- width-specific literals such as `32 - leading_zeros / 8` (F16) are
# only wrong there; (512, 8): the first evaluated width above 55 bytes, where length-prefixed codecs (RLP) change form


def _nl(b):
    return (b + 63) // 64


Q_THOROUGH = sorted(set(Q_QUICK) | {
    (b, _nl(b))
    for l in range(1, 7)
    for r in (0, 1, 2, 3, 7, 8, 56, 58, 60, 63)
    for b in [64 * (l - 1) + r if r else 64 * l]
    if b > 0
} | {(250, 4), (384, 6), (512, 8), (66, 2), (4, 1), (16, 1), (32, 1), (536, 9), (1024, 16), (1100, 18)})


def sysroot():
    return subprocess.check_output(["rustc", "+nightly", "--print", "sysroot"], text=True).strip()


def tree_hash(repo=REPO):
    h = hashlib.sha256()
    paths = []
    for root in ("src", "ruint-macro"):
        for dp, dn, fn in os.walk(os.path.join(repo, root)):
            dn[:] = [d for d in dn if d != "target"]
            for f in fn:
                paths.append(os.path.join(dp, f))
    for f in ("Cargo.toml", "Cargo.lock"):
        paths.append(os.path.join(repo, f))
    for p in sorted(paths):
        try:
            with open(p, "rb") as fh:
                data = fh.read()
        except OSError:
            continue
        h.update(os.path.relpath(p, repo).encode())
        h.update(b"\0")
        h.update(hashlib.sha256(data).digest())
    with open(DRIVER, "rb") as fh:
        h.update(hashlib.sha256(fh.read()).digest())
    return h.hexdigest()[:24]


def ensure_driver():
    if not os.path.exists(DRIVER):
        subprocess.check_call(
            ["cargo", "+nightly", "build", "--release", "--offline"],
            cwd=os.path.join(VERIF, "mirfacts"))


def build_facts(config="all", repo=REPO, verbose=True):
    """Return (facts_dir, info) for the given build configuration, running the
    driver if the cache has no entry for the current tree."""
    ensure_driver()
    os.makedirs(CACHE, exist_ok=True)
    th = tree_hash(repo)
    cfgs = ";".join("%d,%d" % c for c in Q_THOROUGH)
    key = hashlib.sha256((th + config + cfgs + repr(BUILD_CONFIGS[config])).encode()).hexdigest()[:24]
    out = os.path.join(CACHE, "facts-%s-%s" % (config, key))
    lock = open(os.path.join(CACHE, "lock"), "w")
    fcntl.flock(lock, fcntl.LOCK_EX)
    try:
        if os.path.exists(os.path.join(out, "ruint.json")) and os.path.exists(os.path.join(out, "ruint_macro.json")) \
                and os.path.exists(os.path.join(out, "ok")):
            try:
                os.utime(out, None)      # eviction is least-recently-USED, not least-recently-built
            except OSError:
                pass
            return out, {"cached": True, "tree": th, "config": config}
        t0 = time.time()
        # drop stale fact dirs of the same configuration, but keep the few most recent ones: concurrent runs on
        # other trees (self-tests in scratch worktrees, parallel checks) must not evict each other's facts mid-read
        same = sorted((d for d in os.listdir(CACHE)
                       if d.startswith("facts-%s-" % config) and not d[len("facts-%s-" % config):].count("-")),
                      key=lambda d: os.path.getmtime(os.path.join(CACHE, d)), reverse=True)
        for d in same[KEEP_FACT_DIRS:]:
            shutil.rmtree(os.path.join(CACHE, d), ignore_errors=True)
        os.makedirs(out, exist_ok=True)
        target = os.path.join(CACHE, "target")
        # force cargo to re-run the driver for the workspace members
        for prof in ("debug",):
            fp = os.path.join(target, prof, ".fingerprint")
            if os.path.isdir(fp):
                for d in os.listdir(fp):
                    if d.startswith("ruint-") or d.startswith("ruint_macro-"):
                        shutil.rmtree(os.path.join(fp, d), ignore_errors=True)
        feat, extra = BUILD_CONFIGS[config]
        env = dict(os.environ)
        env.update({
            "LD_LIBRARY_PATH": sysroot() + "/lib",
            "MIRFACTS_OUT": out,
            "MIRFACTS_CONFIGS": cfgs,
            "MIRFACTS_CRATES": "ruint,ruint_macro",
            "RUSTFLAGS": ("-Zmir-opt-level=0 -Awarnings -Cdebug-assertions=off " + extra).strip(),
            "RUSTC_WORKSPACE_WRAPPER": DRIVER,
            "CARGO_TARGET_DIR": target,
            "CARGO_NET_OFFLINE": "true",
        })
        cmd = ["cargo", "+nightly", "check", "--offline", "--lib", "-p", "ruint"] + feat
        p = subprocess.run(cmd, cwd=repo, env=env, stdout=subprocess.PIPE, stderr=subprocess.STDOUT, text=True)
        if p.returncode != 0 or not os.path.exists(os.path.join(out, "ruint.json")) \
                or not os.path.exists(os.path.join(out, "ruint_macro.json")):
            sys.stderr.write(p.stdout[-6000:])
            shutil.rmtree(out, ignore_errors=True)
            raise RuntimeError("mirfacts: driver run failed for config %s (exit %d)" % (config, p.returncode))
        open(os.path.join(out, "ok"), "w").write("ok")
        if verbose:
            sys.stderr.write("[facts] built %s in %.1fs\n" % (config, time.time() - t0))
        return out, {"cached": False, "tree": th, "config": config, "build_s": round(time.time() - t0, 1)}
    finally:
        fcntl.flock(lock, fcntl.LOCK_UN)
        lock.close()


KEEP_FACT_DIRS = 24


def load(config="all", repo=REPO):
    for attempt in range(3):
        out, info = build_facts(config, repo)
        res = {}
        try:
            for name in ("ruint", "ruint_macro"):
                p = os.path.join(out, name + ".json")
                if os.path.exists(p):
                    with open(p) as fh:
                        res[name] = json.load(fh)
        except (OSError, ValueError):
            res = {}
        if "ruint" in res and "ruint_macro" in res:
            res["_info"] = info
            return res
        # the directory vanished between build and read (another run evicted it): rebuild
        shutil.rmtree(out, ignore_errors=True)
    raise RuntimeError("mirfacts: facts for config %s could not be read (concurrent eviction?)" % config)


if __name__ == "__main__":
    cfg = sys.argv[1] if len(sys.argv) > 1 else "all"
    print(build_facts(cfg))
