#!/usr/bin/env python3
"""Generate MANIFEST.json from vcheck.props (claimed) + the N/A table below."""
import json
import os
import sys

sys.path.insert(0, os.path.dirname(os.path.dirname(os.path.abspath(__file__))))
from vcheck import props  # noqa: E402

NA = {}

ALL = ["C%02d" % i for i in range(1, 21)]


TECHNIQUE = {
    "C01": "MIR dataflow: panic-site inventory + interval abstract interpretation (incl. per-configuration range of the overflow indicator), canonical-value typestate, flag slices, call-graph family check, operand-order provenance of the operator impls",
    "C02": "MIR dataflow: panic-site inventory + interval abstract interpretation (incl. range of the overflow indicator), canonical-value typestate, flag slices, call-graph family check, operator forwarding",
    "C03": "MIR dominance: non-zero guard predicates propagated over the call graph, must-call-before-return, reachability of todo!, operand-order provenance of the / % operator impls",
    "C04": "call-graph reachability of the LIMBS assertion, canonical-value typestate over MIR, signature/impl-header lints, compile-fail witnesses",
    "C05": "MIR dataflow: relational interval abstract interpretation of limb indices, flag backward slices, low-limb guard dominance, operator forwarding (direction and operand order)",
    "C06": "MIR dataflow: interval abstract interpretation, typestate rows with dominance side conditions, parametric panic condition of byte(), realisable-extremes test on the return interval of the counting functions",
    "C07": "MIR dataflow: interval abstract interpretation of conversion bodies (cast-fit on success paths, callee-guard refutation), operand-kind lint on MASK, guard dominance, error-kind inventory",
    "C08": "MIR dataflow: interval abstract interpretation with slice-length tracking (also of the overflow-checked MIR), guard dominance, interval of the slice length where a result is built, typestate",
    "C09": "exact finite-partition abstract evaluation of the digit closure, constant tables from compiler-evaluated consts, MIR dataflow",
    "C10": "MIR dominance: zero-modulus edges, non-zero guard predicates over the call graph, typestate",
    "C11": "MIR dataflow over the Montgomery kernels: panic-site inventory discharged by a linear-inequality abstract domain over loop variables and the symbolic limb count N (no solver, no execution), flow-sensitive liveness of carry / borrow words",
    "C12": "interprocedural panic-site inventory over MIR through the GCD, Lehmer and division kernels: interval abstract interpretation, linear-inequality domain over slice lengths, non-zero guard dominance",
    "C14": "MIR dataflow over the division kernels: panic-site inventory discharged by interval abstract interpretation and a linear-inequality abstract domain over slice lengths and loop ranges, documented preconditions assumed in the callee and proved at call sites",
    "C13": "MIR dataflow: per-configuration literal-fit and return-discriminant summaries, precondition predicates checked at call sites",
    "C15": "MIR dataflow over the limb kernels: panic-site inventory with interval abstract interpretation of slice lengths and indices (release and overflow-checked MIR), flow-sensitive liveness of carry words, return-interval extremes",
    "C16": "cross-checking sibling encoder/decoder implementations: byte-order class, registry set equality, interval-derived mode tables of writer and reader, interval of hand-built RLP header bytes, const evaluation",
    "C17": "interprocedural panic-site inventory over MIR (release and overflow-checked) with interval abstract interpretation and guard dominance; must-pass-through checks",
    "C18": "MIR backward slices: rounding-free path to to_bits, count of inexact steps on the path to the float result, classification order by dominance",
    "C19": "compile-fail / compile-pass witness programs (proc-macro and const evaluation run inside rustc) + MIR rules on the macro crate",
    "C20": "resolved-callee forwarding check: delegate identity against an oracle table, argument/result provenance slices, sibling orientation / position check (necessary conditions)",
}


def main():
    checks = []
    for pid in ALL:
        p = props.PROPS.get(pid)
        if not p:
            continue
        checks.append({
            "property_id": pid,
            "quick_cmd": "./check %s --tier quick" % pid,
            "thorough_cmd": "./check %s --tier thorough" % pid,
            "evidence_file": "/verif/evidence/%s.json" % pid,
            "replay_cmd_template": "./check %s --replay {path}" % pid,
            "engine": "vcheck",
            "level_claimed": {"category": p["level"], "text": p["text"], "design_ref": "DESIGN.md section 3 (%s)" % pid},
            "level_note": p.get("level_note", "Trusted: rustc front end + const eval (nightly 1.97), the mirfacts exporter, the Python "
                                "rule engine, reviewed table rows in /verif/tables; foreign crates are leaves. Decides "
                                "structural clauses only, not the arithmetic."),
            "technique": "static analysis: " + TECHNIQUE.get(pid, "MIR facts + rule engine"),
        })
    na = []
    for pid in ALL:
        if pid in props.PROPS:
            continue
        reason = NA.get(pid) or props.PENDING.get(pid, "no rule implemented yet in this round (see DESIGN.md section 3)")
        na.append({"property_id": pid, "reason": reason})
    m = {
        "version": 1,
        "setup_cmd": "cargo +nightly build --release --offline --manifest-path mirfacts/Cargo.toml",
        "hooks": {
            "guard": "ruint_verif",
            "enable": "no hooks are needed by static analysis; checks analyse /repo's unmodified sources (RUSTC_WORKSPACE_WRAPPER driver)",
            "baseline_off_cmd": "cd /repo && cargo test --workspace --no-fail-fast --offline",
            "source_commits": [],
            "add_only": True,
        },
        "engines": [
            {"name": "mirfacts", "path": "/verif/mirfacts", "serves_properties": [c["property_id"] for c in checks],
             "kind_free_text": "rustc_private driver exporting type-checked MIR, resolved callees, signatures, impl headers and "
                               "compiler-evaluated constants as JSON facts"},
            {"name": "vcheck", "path": "/verif/vcheck", "serves_properties": [c["property_id"] for c in checks],
             "kind_free_text": "Python rule engine: configuration-pruned CFGs, dominators, call graph, taint/typestate, "
                               "interval discharge of panic sites, table evaluation"},
        ],
        "checks": checks,
        "not_applicable": na,
        "notes": "Static-analysis family only. Every claimed check decides structural clauses of its property (listed in "
                 "level_claimed.text and DESIGN.md) for all paths / widths / enabled features; numerical behaviour is not decided.",
    }
    with open(os.path.join(os.path.dirname(os.path.dirname(os.path.abspath(__file__))), "MANIFEST.json"), "w") as fh:
        json.dump(m, fh, indent=1)
    print("claimed:", [c["property_id"] for c in checks], "n/a:", [x["property_id"] for x in na])


if __name__ == "__main__":
    main()
