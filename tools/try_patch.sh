#!/bin/sh
# usage: tools/try_patch.sh <patch.diff> <prop> [<prop>...]  -- apply to /repo, run the checks, undo.
P="$1"; shift
git -C /repo apply "$P" || { echo "patch does not apply"; exit 2; }
for p in "$@"; do VERIF_EVIDENCE_DIR=/tmp/try_evidence /verif/check $p --tier quick 2>&1 | grep -E "^VIOLATION|^  R-|tier=|checker error" | cut -c1-400; done
git -C /repo checkout -- .
rm -rf /tmp/try_evidence
