#!/bin/sh
# usage: tools/run_benign.sh [Rk ...]   -- re-run the stored behaviour-preserving refactorings (benign/<Rk>/refactor_n.diff,
# written by independent sub-agents, see DESIGN section 9) against every quick check.  Each patch is applied to a scratch
# worktree of /repo under /tmp (never /repo itself); every check must stay silent.  Exit 1 if any alarm is raised.
set -u
W=$(mktemp -d /tmp/ruint_benign_XXXXXX); rmdir "$W"
git -C /repo worktree add --detach "$W" HEAD -q || exit 2
trap 'git -C /repo worktree remove --force "$W" >/dev/null 2>&1; rm -rf "$W" "$W.ev"' EXIT
rc=0
[ $# -eq 0 ] && set -- $(ls /verif/${BENIGN_DIR:-benign})
for id in "$@"; do
  for P in /verif/${BENIGN_DIR:-benign}/$id/refactor_*.diff; do
    k=$(basename "$P" .diff)
    git -C "$W" checkout -q -- .
    if ! git -C "$W" apply "$P" 2>/dev/null; then echo "== $id/$k: does not apply to HEAD (skipped)"; continue; fi
    out=""
    for p in C01 C02 C03 C04 C05 C06 C07 C08 C09 C10 C11 C12 C13 C14 C15 C16 C17 C18 C19 C20; do
      r=$(VERIF_REPO=$W VERIF_EVIDENCE_DIR="$W.ev" /verif/check $p --tier quick 2>&1 | grep -E "^  R-|checker error|Traceback" | cut -c1-300)
      [ -n "$r" ] && out="$out
[$p] $r"
    done
    if [ -n "$out" ]; then echo "== $id/$k: ALARMS$out"; rc=1; else echo "== $id/$k: silent"; fi
  done
done
exit $rc
