#!/bin/sh
# usage: tools/try_one.sh <patch> <prop>...  -- apply a patch to the scratch worktree /tmp/seed/T (not /repo), run the
# given quick checks against it (VERIF_REPO), revert.  Create T with: git -C /repo worktree add --detach /tmp/seed/T HEAD
W=/tmp/seed/T
P="$1"; shift
git -C $W checkout -q -- . ; git -C $W checkout -q --detach $(git -C /repo rev-parse HEAD)
git -C $W apply "$P" || { echo "patch does not apply"; exit 2; }
for p in "$@"; do VERIF_REPO=$W VERIF_EVIDENCE_DIR=/tmp/try_ev_T /verif/check $p --tier quick 2>&1 | grep -E "^  R-|tier=|checker error|Traceback" | cut -c1-${COLS:-420}; done
git -C $W checkout -q -- .
rm -rf /tmp/try_ev_T
