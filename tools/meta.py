#!/usr/bin/env python3
"""Meta checks on the machinery itself (not evidence for a property): stale R-TOTAL table rows, i.e. reviewed
rows that no entry point of any property uses any more."""
import os
import sys

sys.path.insert(0, os.path.dirname(os.path.dirname(os.path.abspath(__file__))))
from vcheck import engine, entries  # noqa: E402
from vcheck.rules import total_rule  # noqa: E402

ctx = engine.Ctx("quick")
for pid, spec in entries.TOTAL_ENTRIES.items():
    total_rule.run(ctx, spec, 0, "all", label=pid, own_only=(pid == "C20"))
stale = total_rule.stale_rows(ctx, "all")
for fn, kind, what in stale:
    print("STALE-ROW %s | %s | %s" % (fn.replace("crate::", ""), kind, what))
print("total rows: %d, stale: %d" % (sum(len(v) for v in ctx.table("total").values()), len(stale)))
sys.exit(1 if stale else 0)
