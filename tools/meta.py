#!/usr/bin/env python3
"""Meta checks on the machinery itself (not evidence for a property): stale R-TOTAL table rows, i.e. reviewed
rows that no entry point of any property uses any more."""
import os
import sys

sys.path.insert(0, os.path.dirname(os.path.dirname(os.path.abspath(__file__))))
from vcheck import engine, entries, props  # noqa: E402
from vcheck.rules import total_rule  # noqa: E402

ctx = engine.Ctx("quick")
for pid, spec in entries.TOTAL_ENTRIES.items():
    total_rule.run(ctx, spec, 0, "all", label=pid, own_only=(pid == "C20"), kernels=pid in props.KERNEL_PROPS)
stale = total_rule.stale_rows(ctx, "all")
for fn, kind, what in stale:
    print("STALE-ROW %s | %s | %s" % (fn.replace("crate::", ""), kind, what))
print("total rows: %d, stale: %d" % (sum(len(v) for v in ctx.table("total").values()), len(stale)))
# overflow-clause rows
ARMED = ("C01", "C02", "C03", "C05", "C06", "C07", "C08", "C09", "C10", "C13", "C15", "C16", "C17")
for pid in ARMED:
    total_rule.run_overflow(ctx, entries.TOTAL_ENTRIES[pid], 0, pid)
T = total_rule.totality_ovf(ctx)
ostale = [(fn, r.get("kind"), r.get("what")) for fn, rows in ctx.table("overflow").items() for r in rows
          if (fn, r.get("kind"), r.get("what")) not in T.table_used and not r.get("optional")]
for fn, kind, what in ostale:
    print("STALE-OVERFLOW-ROW %s | %s | %s" % (fn.replace("crate::", ""), kind, what))
print("overflow rows: %d, stale: %d" % (sum(len(v) for v in ctx.table("overflow").values()), len(ostale)))
sys.exit(1 if stale or ostale else 0)
