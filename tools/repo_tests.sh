#!/bin/sh
# Run the repository's pinned suite (the fallback command of /root/.vp/BASELINE.json) and print pass/fail totals.
cd "${1:-/repo}" && CARGO_NET_OFFLINE=true cargo test --workspace --no-fail-fast --offline --lib --bins --tests 2>&1 \
  | awk '/^test result/ {p+=$4; f+=$6} /FAILED|panicked/ {print} END {print "passed=" p " failed=" f; exit (f>0)}'
