#!/bin/sh
# usage: tools/try_refactors.sh <worktree id>   -- applies each /tmp/seed/<id>/seed_out/refactor_k.diff to the scratch
# worktree /tmp/seed/<id> (never /repo), runs every quick check against it (VERIF_REPO), reports violations, reverts.
ID="$1"
W=/tmp/seed/$ID
for k in 1 2 3 4 5 6; do
  P=$W/seed_out/refactor_$k.diff
  [ -f "$P" ] || continue
  git -C $W checkout -q -- . 
  git -C $W apply "$P" || { echo "$ID/$k: patch does not apply"; continue; }
  out=""
  for p in C01 C02 C03 C04 C05 C06 C07 C08 C09 C10 C13 C15 C16 C17 C18 C19 C20; do
    r=$(VERIF_REPO=$W VERIF_EVIDENCE_DIR=/tmp/try_ev_$ID /verif/check $p --tier quick 2>&1 | grep -E "^  R-|checker error|Traceback" | cut -c1-330)
    [ -n "$r" ] && out="$out
[$p] $r"
  done
  if [ -n "$out" ]; then echo "== $ID/refactor_$k: ALARMS$out"; else echo "== $ID/refactor_$k: silent"; fi
  git -C $W checkout -q -- .
done
rm -rf /tmp/try_ev_$ID
