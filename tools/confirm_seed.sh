#!/bin/sh
# usage: tools/confirm_seed.sh <id> [cargo feature args...]
# Re-confirms a seeded change in its scratch worktree /tmp/seed/<id> (never uses git stash: the stash is
# shared between worktrees):  (1) pinned suite passes with the change, (2) demo fails with the change,
# (3) demo passes without it.
ID="$1"; shift
W=/tmp/seed/$ID
# deliverables in seed_out/ or, for two-property agents, in seed_out/$SUB/ (env SUB)
O=seed_out${SUB:+/$SUB}
export CARGO_TARGET_DIR=$W/target CARGO_NET_OFFLINE=true
cd $W || exit 2
git checkout -q -- . && git apply $O/patch.diff || { echo "$ID: patch does not apply to HEAD"; exit 2; }
S=$(cargo test --workspace --offline --lib --bins --tests 2>&1 | awk '/^test result/ {p+=$4; f+=$6} END {print "passed=" p " failed=" f}')
mkdir -p tests && cp $O/demo.rs tests/seed_demo.rs
cargo test --offline --test seed_demo "$@" >/tmp/seed/$ID${SUB:+.$SUB}.with.log 2>&1; A=$?
git apply -R $O/patch.diff
cargo test --offline --test seed_demo "$@" >/tmp/seed/$ID${SUB:+.$SUB}.without.log 2>&1; B=$?
git apply $O/patch.diff
rm -rf tests
git checkout -q -- .
echo "$ID${SUB:+/$SUB} suite_with_change: $S | demo_with_change_exit=$A (want != 0) | demo_without_change_exit=$B (want 0)"
