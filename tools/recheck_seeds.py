#!/usr/bin/env python3
"""Re-run every stored seed (seeded/<name>/patch.diff) against the current checks in the scratch worktree /tmp/seed/T
(never /repo) and compare with the recorded verdict.  usage: tools/recheck_seeds.py [pattern]"""
import json, os, subprocess, sys
W = os.environ.get("RECHECK_W", "/tmp/seed/T")
SHARD = os.environ.get("RECHECK_SHARD")   # "k/n": only every n-th seed, offset k
pat = sys.argv[1] if len(sys.argv) > 1 else ""
head = subprocess.check_output(["git", "-C", "/repo", "rev-parse", "HEAD"], text=True).strip()
bad = 0
for idx, name in enumerate(sorted(os.listdir("/verif/seeded"))):
    if pat and pat not in name:
        continue
    if SHARD and idx % int(SHARD.split("/")[1]) != int(SHARD.split("/")[0]):
        continue
    d = os.path.join("/verif/seeded", name)
    meta = json.load(open(os.path.join(d, "meta.json")))
    prop = meta["property"]
    subprocess.run(["git", "-C", W, "checkout", "-q", "--", "."])
    subprocess.run(["git", "-C", W, "checkout", "-q", "--detach", head])
    r = subprocess.run(["git", "-C", W, "apply", os.path.join(d, "patch.diff")], capture_output=True, text=True)
    if r.returncode != 0:
        print("%-45s %-4s patch does not apply to HEAD: %s" % (name, prop, r.stderr.strip()[:80]))
        continue
    env = dict(os.environ, VERIF_REPO=W, VERIF_EVIDENCE_DIR=W + ".ev")
    out = subprocess.run(["/verif/check", prop, "--tier", "quick"], env=env, capture_output=True, text=True).stdout
    fired = "VIOLATION property=" in out
    rules = sorted({l.split(":")[0].strip() for l in out.splitlines() if l.startswith("  R-")})
    want = not meta["detected"].startswith("no")
    flag = "" if fired == want else "   <<< CHANGED (recorded: %s)" % meta["detected"]
    if flag:
        bad += 1
    print("%-45s %-4s %-8s %s%s" % (name, prop, "fires" if fired else "silent", ",".join(rules)[:60], flag))
subprocess.run(["git", "-C", W, "checkout", "-q", "--", "."])
subprocess.run(["rm", "-rf", W + ".ev"])
print("changed verdicts:", bad)
