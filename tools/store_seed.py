#!/usr/bin/env python3
"""Store a confirmed seeded change under /verif/seeded/<name>/ (patch.diff, demo.rs, meta.json).
usage: store_seed.py <name> <worktree id> <property> <detected: yes|no|incidental> <rule or reason> <needs> [features]"""
import json
import os
import shutil
import sys

name, wid, prop, detected, how, needs = sys.argv[1:7]
features = sys.argv[7] if len(sys.argv) > 7 else ""
src = "/tmp/seed/%s/seed_out" % wid + (("/" + os.environ["SUB"]) if os.environ.get("SUB") else "")
dst = "/verif/seeded/%s" % name
os.makedirs(dst, exist_ok=True)
shutil.copy(os.path.join(src, "patch.diff"), dst)
shutil.copy(os.path.join(src, "demo.rs"), dst)
if os.path.exists(os.path.join(src, "notes.md")):
    shutil.copy(os.path.join(src, "notes.md"), os.path.join(dst, "author_notes.md"))
meta = {
    "property": prop,
    "breaks": open(os.path.join(src, "notes.md")).read().split("\n\n")[0][:600] if os.path.exists(os.path.join(src, "notes.md")) else "",
    "needs_to_manifest": needs,
    "demo_features": features,
    "confirmed_by_me": "tools/confirm_seed.sh %s %s: pinned suite 111/111 passes with the change; demo (tests/seed_demo.rs) fails "
                       "with the change and passes without it" % (wid, ("--features " + features) if features else ""),
    "checked_with": "tools/try_patch.sh seeded/%s/patch.diff %s (git -C /repo apply; ./check; git -C /repo checkout -- .)" % (name, prop),
    "detected": detected,
    "detected_by_or_why_not": how,
    "author": "independent sub-agent given only the property text and its own scratch worktree",
}
json.dump(meta, open(os.path.join(dst, "meta.json"), "w"), indent=1)
print("stored", dst)
