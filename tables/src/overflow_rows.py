#!/usr/bin/env python3
"""Source of /verif/tables/overflow.json: reviewed rows for the overflow-checks clause of R-TOTAL (arithmetic
overflow assertions that exist only in builds with -C overflow-checks=on, i.e. debug builds).  Same format and
keying as total_rows.py.  Every row states the arithmetic fact the interval domain cannot express."""
import json
import os

U = "crate::Uint<BITS, LIMBS>"
T = {}


def row(fn, kind, what, reason, **kw):
    r = {"kind": kind, "what": what, "reason": reason}
    r.update(kw)
    T.setdefault(fn, []).append(r)


row("crate::bits::<impl %s>::leading_zeros" % U, "assert:Overflow", "Overflow(Sub:Add(skipped,top),fixed)",
    "skipped + top - fixed: for the top limb (skipped == 0) top >= fixed because limbs[LIMBS-1] <= MASK (C04, decided by "
    "R-CANON); for every lower limb skipped >= 64 >= fixed.  Relation between the loop index and the bound: not an "
    "interval fact")
for fn, idx in (("try_from_be_slice", "c"), ("try_from_le_slice", "i")):
    row("crate::bytes::<impl %s>::%s" % (U, fn), "assert:Overflow",
        "Overflow(Add:limbs[limb],Shl(*bytes[%s],Mul(byte,8)))" % idx,
        "limbs[i / 8] += byte << (8 * (i % 8)): every (limb, lane) pair is added exactly once into a zero-initialised "
        "array, so the sum of distinct byte lanes is < 2^64 (disjoint-bits accumulation; not an interval fact). Matched "
        "by structure (an addition into a limb of a byte shifted by a multiple of 8), not by the names of the index "
        "variables", what_re=r"Overflow\(Add:.*\[.*\],Shl\(.*,Mul\(.*,8\)\)\)")
row("crate::bytes::<impl %s>::try_from_be_slice" % U, "assert:Overflow", "Overflow(Sub:c,1)",
    "c starts at bytes.len() and is decremented once per iteration of `while i < bytes.len()` with i incremented once: "
    "loop invariant c == len - i > 0 at the decrement (linear invariant over two variables; not an interval fact)")
row("crate::bytes::<impl %s>::copy_be_bytes_to::{closure#0}" % U, "assert:Overflow", "Overflow(Sub:8,len())",
    "8 - chunk.len() inside rchunks_mut(8): chunks of a chunking iterator with size 8 have 1..=8 elements (contract "
    "of core::slice::RChunksMut)")
row("crate::utils::last_idx::{closure#1}", "assert:Overflow", "Overflow(Add:idx,1)",
    "idx + 1 where idx is a position returned by rposition over a slice: idx < len <= isize::MAX")
# (postgres BIT/VARBIT: raw[i - 1] inside `for i in (1..raw.len()).rev()` is discharged since Rev<Range> yields are
#  known to be >= the range start)

# ---- counting functions (C06) and what is built on them
for fn, f in (("trailing_zeros", "trailing_zeros"), ("trailing_ones", "trailing_ones")):
    clo = "crate::bits::<impl %s>::%s::{closure#1}" % (U, fn)
    row(clo, "assert:Overflow", "Overflow(Mul:n,64)",
        "n * 64 with n a position() over the LIMBS-long limb array: n < LIMBS, so the product is < 64 * LIMBS, far below "
        "usize::MAX for every type that can exist (core post-condition of position)")
    row(clo, "assert:Overflow", "Overflow(Add:Mul(n,64),%s())" % f,
        "n * 64 + u64::%s() <= 64 * (LIMBS - 1) + 64" % f)
row("crate::bits::<impl %s>::count_ones" % U, "assert:Overflow", "Overflow(Add:total,count_ones())",
    "total accumulates at most 64 per limb over LIMBS iterations: <= 64 * LIMBS (loop accumulation, not an interval fact "
    "after widening)")
row("crate::bits::<impl %s>::count_zeros" % U, "assert:Overflow", "Overflow(Sub:BITS,count_ones())",
    "BITS - count_ones(): a canonical value has no bit at or above BITS set (C04, decided by R-CANON), so count_ones <= BITS")
row("crate::bits::<impl %s>::most_significant_bits" % U, "assert:Overflow", "Overflow(Shl:hi,leading_zeros)",
    "hi << hi.leading_zeros(): hi is the limb rposition(|l| l != 0) selected, hence non-zero and leading_zeros <= 63 "
    "(the shift check is on the amount only)")
row("crate::log::<impl %s>::log" % U, "assert:Overflow", "Overflow(Sub:bit_len(),1)",
    "self.bit_len() - 1 after assert!(!self.is_zero()): a non-zero value has bit_len >= 1 (relation between is_zero and "
    "bit_len, the statement of C06 for bit_len)")
row("crate::algorithms::mul::submul_nx1", "assert:Overflow", "Overflow(Add:borrow,carry)",
    "borrow + carry at the end of the multiply-subtract loop: borrow <= 1 and carry, the high half of a * b + carry_in, "
    "is <= 2^64 - 2 (kernel value contract: arithmetic of C15, not decided; reviewed)")

for fn_, a_ in (("shift_left_small", "Shl"), ("shift_right_small", "Shr")):
    row("crate::algorithms::shift::%s" % fn_, "assert:Overflow", "Overflow(%s:*limb,amount)" % a_,
        "limb shifted by `amount`: documented precondition amount < 64 (debug_assert!(amount < 64), the sub-limb step of "
        "a shift). Accepted for the kernel as an entry point; carried to callers as the guard amount >= 64, which every "
        "caller's intervals must refute. Matched by structure: an overflow-checked shift whose amount is parameter 2",
        entry_precondition=True, what_re=r"Overflow\(%s:.*\)" % a_, requires=[{"amount_param": 2}])

if __name__ == "__main__":
    out = os.path.join(os.path.dirname(os.path.dirname(os.path.abspath(__file__))), "overflow.json")
    with open(out, "w") as fh:
        json.dump(T, fh, indent=1, sort_keys=True)
    print("rows:", sum(len(v) for v in T.values()))
