#!/usr/bin/env python3
"""Source of /verif/tables/overflow.json: reviewed rows for the overflow-checks clause of R-TOTAL (arithmetic
overflow assertions that exist only in builds with -C overflow-checks=on, i.e. debug builds).  Same format and
keying as total_rows.py.  Every row states the arithmetic fact the interval domain cannot express."""
import json
import os

U = "crate::Uint<BITS, LIMBS>"
T = {}


def row(fn, kind, what, reason, **kw):
    r = {"kind": kind, "what": what, "reason": reason}
    r.update(kw)
    T.setdefault(fn, []).append(r)


row("crate::bits::<impl %s>::leading_zeros" % U, "assert:Overflow", "Overflow(Sub:Add(skipped,top),fixed)",
    "skipped + top - fixed: for the top limb (skipped == 0) top >= fixed because limbs[LIMBS-1] <= MASK (C04, decided by "
    "R-CANON); for every lower limb skipped >= 64 >= fixed.  Relation between the loop index and the bound: not an "
    "interval fact")
for fn, idx in (("try_from_be_slice", "c"), ("try_from_le_slice", "i")):
    row("crate::bytes::<impl %s>::%s" % (U, fn), "assert:Overflow",
        "Overflow(Add:limbs[limb],Shl(*bytes[%s],Mul(byte,8)))" % idx,
        "limbs[i / 8] += byte << (8 * (i % 8)): every (limb, lane) pair is added exactly once into a zero-initialised "
        "array, so the sum of distinct byte lanes is < 2^64 (disjoint-bits accumulation; not an interval fact)")
row("crate::bytes::<impl %s>::try_from_be_slice" % U, "assert:Overflow", "Overflow(Sub:c,1)",
    "c starts at bytes.len() and is decremented once per iteration of `while i < bytes.len()` with i incremented once: "
    "loop invariant c == len - i > 0 at the decrement (linear invariant over two variables; not an interval fact)")
row("crate::bytes::<impl %s>::copy_be_bytes_to::{closure#0}" % U, "assert:Overflow", "Overflow(Sub:8,len())",
    "8 - chunk.len() inside rchunks_mut(8): chunks of a chunking iterator with size 8 have 1..=8 elements (contract "
    "of core::slice::RChunksMut)")
row("crate::utils::last_idx::{closure#1}", "assert:Overflow", "Overflow(Add:idx,1)",
    "idx + 1 where idx is a position returned by rposition over a slice: idx < len <= isize::MAX")
row("crate::support::postgres::<impl postgres_types::FromSql<'a> for %s>::from_sql" % U, "assert:Overflow",
    "Overflow(Sub:i,1)",
    "raw[i - 1] inside `for i in (1..raw.len()).rev()`: i >= 1 (Rev<Range> is not modelled by the interval engine)")

if __name__ == "__main__":
    out = os.path.join(os.path.dirname(os.path.dirname(os.path.abspath(__file__))), "overflow.json")
    with open(out, "w") as fh:
        json.dump(T, fh, indent=1, sort_keys=True)
    print("rows:", sum(len(v) for v in T.values()))
