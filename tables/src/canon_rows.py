#!/usr/bin/env python3
"""Source of /verif/tables/canon.json: reviewed rows for R-CANON (functions whose exit the typestate cannot
show canonical but where the invariant holds for a stated reason).  Regenerate with python3 tables/src/canon_rows.py"""
import json
import os

U = "crate::Uint<BITS, LIMBS>"
T = {}


def row(fn, event, reason, **kw):
    r = {"event": event, "reason": reason}
    r.update(kw)
    T.setdefault(fn, []).append(r)


row("crate::bits::<impl %s>::set_bit" % U, "mutref-dirty:self",
    "writes `limbs[index/64] |= 1 << index%64` / `&= !(..)` only on the false edge of `index >= BITS`, so only bits "
    "below BITS change (side condition: every limb write is dominated by that edge)",
    requires=[{"cond": "Ge(index,BITS)", "truth": False}])
for op, tr in (("bitor_assign", "BitOrAssign"), ("bitand_assign", "BitAndAssign"), ("bitxor_assign", "BitXorAssign")):
    row("crate::bits::<impl core::ops::bit::%s<&%s> for %s>::%s" % (tr, U, U, op), "mutref-dirty:self",
        "limb-wise %s of two canonical values at equal indices: bits >= BITS stay zero (side condition: the only "
        "calls in the body are the Range iterator and <u64 as %s>::%s)" % (op, tr, op),
        only_calls=["IntoIterator>::into_iter", "core::ops::range::Range<A>>::next",
                    "<u64 as core::ops::bit::%s>::%s" % (tr, op)])
row("crate::bits::<impl %s>::overflowing_shr" % U, "return-dirty",
    "logical right shift of a canonical value into a zeroed result: no bit at or above BITS can become set "
    "(value argument, trusted; the arithmetic of C05 is not decided)")
row("crate::bits::<impl %s>::reverse_bits" % U, "dirty-arg:shr_assign",
    "after reversing all 64*LIMBS bits the value is shifted right by 64 - BITS%64, which clears every bit >= BITS; "
    "overflowing_shr does not rely on a canonical input (arithmetic, trusted)")
row("crate::div::<impl %s>::div_rem" % U, "return-dirty",
    "kernel post-condition: quotient <= numerator and remainder < divisor, both canonical inputs (C14 value "
    "contract, trusted)", only_calls=["crate::algorithms::div::div"])
row("crate::modular::<impl %s>::mul_mod" % U, "return-dirty",
    "result is the remainder of a division by the canonical modulus, hence < modulus < 2^BITS (C14 value contract, "
    "trusted)")
row("crate::mul::<impl %s>::widening_mul" % U, "return-dirty",
    "product of a BITS-bit and a BITS_RHS-bit value is < 2^(BITS+BITS_RHS) = 2^BITS_RES; the two assert_eq! on "
    "BITS_RES / LIMBS_RES dominate the kernel call (side condition)",
    requires=[{"cond": "Eq(*left_val,*right_val)", "truth": True}])
PY = "crate::support::pyo3::<impl pyo3::conversion::FromPyObject<'source> for %s>::extract" % U
row(PY, "return-dirty",
    "Python writes the raw limbs through the unsafe as_le_slice_mut; every path to Ok passes `if let Some(last) = "
    "as_limbs().last() { if *last > MASK { return Err } }` (None only for LIMBS == 0). Not a dominance fact because "
    "of the None arm: reviewed, trusted")
row("crate::support::zeroize::<impl zeroize::Zeroize for %s>::zeroize" % U, "mutref-dirty:self",
    "writes zeros only (side condition: the only calls are as_limbs_mut and <[Z; N] as Zeroize>::zeroize)",
    only_calls=["crate::Uint::<BITS, LIMBS>::as_limbs_mut", "<[Z; N] as zeroize::Zeroize>::zeroize"])

out = os.path.join(os.path.dirname(os.path.dirname(os.path.abspath(__file__))), "canon.json")
with open(out, "w") as fh:
    json.dump(T, fh, indent=1, sort_keys=True)
print("rows:", sum(len(v) for v in T.values()))
