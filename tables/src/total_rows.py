#!/usr/bin/env python3
"""Source of /verif/tables/total.json: reviewed rows for R-TOTAL, one per accepted panic site.
Keyed by (function key, site kind, structural discriminator) -- never by line number.
Run `python3 tables/src/total_rows.py` to regenerate the JSON."""
import json
import os

U = "crate::Uint<BITS, LIMBS>"
IDX = "core::slice::index::<impl core::ops::index::Index<I> for [T]>::index"
IDXM = "core::slice::index::<impl core::ops::index::IndexMut<I> for [T]>::index_mut"
VIDX = "<alloc::vec::Vec<T, A> as core::ops::index::Index<I>>::index"
VIDXM = "<alloc::vec::Vec<T, A> as core::ops::index::IndexMut<I>>::index_mut"
AIDX = "core::array::<impl core::ops::index::Index<I> for [T; N]>::index"
RUNWRAP = "core::result::Result::<T, E>::unwrap"
OUNWRAP = "core::option::Option::<T>::unwrap"
CFS = "core::slice::<impl [T]>::copy_from_slice"

T = {}


def row(fn, kind, what, reason, **kw):
    r = {"kind": kind, "what": what, "reason": reason}
    r.update(kw)
    T.setdefault(fn, []).append(r)


# ---- kernels: explicit sites (implicit sites inside algorithms:: are trusted leaves, see DESIGN R-TOTAL)
row("crate::algorithms::div::div", "foreign", "core::option::Option::<T>::expect",
    "documented panic 'Divisor is zero': panics iff the divisor slice is all zero; exported as predicate "
    "nonzero(divisor) that every caller must establish by a dominating non-zero test (D-zero)",
    pred={"name": "nonzero", "param": 2})
for w in ("assert_eq!#Eq(*left_val,*right_val)", "assert_eq!#Eq(*left_val,*right_val)~2"):
    row("crate::algorithms::mul::addmul_n", "diverge", w,
        "length equality of the three slices; every caller in the crate passes [u64; LIMBS] arrays of one Uint type "
        "(equal by type); for the kernel itself it is the documented precondition of the equal-length form (C15)")
row("crate::algorithms::mul::addmul_nx1", "diverge", "debug_unreachable!#switch",
    "assume!(lhs.len() == a.len()): optimisation hint, callers pass equal-length windows (documented precondition of the kernel, C15)")
row("crate::algorithms::mul::submul_nx1", "diverge", "debug_unreachable!#switch",
    "assume!(lhs.len() == a.len()): optimisation hint, callers pass equal-length windows (documented precondition of the kernel, C15)")
row("crate::algorithms::gcd::matrix::Matrix::from", "diverge", "assert!#partial_cmp",
    "assert!(a >= b): Lehmer loop invariant, discharged by a loop invariant not by dominance (C12 is N/A)")
for i in range(1, 7):
    row("crate::algorithms::gcd::matrix::Matrix::from", "foreign", RUNWRAP + ("" if i == 1 else "~%d" % i),
        "try_into::<u64/u128>() after the value was shifted down to <= 64 / <= 128 bits (bit_len test in the same "
        "function): arithmetic of C12 (N/A)")

for i in range(1, 9):
    row("crate::algorithms::gcd::matrix::Matrix::apply", "call",
        "crate::from::<impl %s>::from|diverge|panic!#match" % U,
        "Uint::from(u64 cofactor): Lehmer cofactors are bounded by the operands they were derived from, which are "
        "< 2^BITS (arithmetic of C12, N/A)")
    break


# ---- division / Montgomery kernels (C14, C11, C12): implicit sites are inventoried since D-lin (vcheck/linear.py)
for k_ in ("assert:DivisionByZero", "assert:RemainderByZero"):
    row("crate::algorithms::div::div", k_, k_.split(":")[1],
        "numerator[0] / divisor[0] on the 1x1 path: `divisor` was re-sliced to `..=i` with i the position of its last "
        "non-zero limb (rposition(|x| x != 0), the zero divisor having panicked with the documented message above), and "
        "this path has divisor.len() == 1, so divisor[0] is that non-zero limb. Value-level fact about the closure's "
        "predicate; reviewed, not machine-checked")
row("crate::algorithms::div::reciprocal::reciprocal_ref", "assert:DivisionByZero", "DivisionByZero",
    "reference implementation (called from tests and debug assertions only): documented precondition d >= 2^63 "
    "(debug_assert), so the native division's divisor is non-zero")
row("crate::algorithms::div::small::div_2x1_ref", "assert:DivisionByZero", "DivisionByZero",
    "reference implementation (called from div_3x2_ref, tests and debug assertions only): documented precondition "
    "d >= 2^63 (debug_assert), so the native division's divisor is non-zero")
row("crate::algorithms::div::small::div_2x1_ref", "assert:RemainderByZero", "RemainderByZero",
    "reference implementation: documented precondition d >= 2^63 (debug_assert)", optional=True)
for fn_ in ("mul_redc", "square_redc"):
    row("crate::modular::<impl %s>::%s" % (U, fn_), "call", "crate::Uint::<BITS, LIMBS>::from_limbs|diverge|assert!#Le(limbs[Sub(LIMBS,1)],MASK)",
        "Self::from_limbs(result) after the Montgomery kernel: the kernel's result is < modulus (the value contract of "
        "C11, not decided here) and the modulus is a canonical Uint, so the top limb is <= MASK. Reviewed, not "
        "machine-checked: for aligned widths the assert is vacuous (MASK == u64::MAX, discharged by intervals)")

row("crate::support::postgres::<impl postgres_types::ToSql for %s>::to_sql" % U, "foreign", OUNWRAP,
    "BIT / VARBIT encoder: `self.as_le_bytes().iter().rev().next().unwrap()` on the `BITS != 0` branch, where the byte "
    "view is BYTES >= 1 long, so the first item exists. Reviewed (iterator lengths are not modelled); the entry is in "
    "C16's scope for its overflow-checked arithmetic (MONEY's checked_mul, seed C16f). The `BITS == 0` branch is "
    "configuration-constant: in (0,0) the site is pruned as unreachable")

# ---- bits.rs: indices that are in range by a relation the interval domain cannot express
row("crate::bits::<impl %s>::most_significant_bits" % U, "assert:BoundsCheck", "BoundsCheck[first_set_limb]",
    "first_set_limb comes from rposition() over the LIMBS-long limb array, hence < LIMBS (core post-condition)")
row("crate::bits::<impl %s>::trailing_zeros::{closure#1}" % U, "assert:BoundsCheck", "BoundsCheck[n]",
    "n comes from position() over the LIMBS-long limb array, hence < LIMBS (core post-condition)")
row("crate::bits::<impl %s>::trailing_ones::{closure#1}" % U, "assert:BoundsCheck", "BoundsCheck[n]",
    "n comes from position() over the LIMBS-long limb array, hence < LIMBS (core post-condition)")

# ---- bytes.rs
row("crate::bytes::<impl %s>::try_from_be_slice" % U, "assert:BoundsCheck", "BoundsCheck[c]",
    "c starts at bytes.len(), is decremented once per iteration of `while i < bytes.len()`: c = len-1-i in [0, len) "
    "(loop invariant, relational)")
row("crate::bytes::<impl %s>::copy_be_bytes_to::{closure#0}" % U, "foreign", AIDX,
    "be[copy_from..] with copy_from = 8 - chunk.len(); rchunks_mut(8) yields chunks of length 1..=8 (core post-condition)")
row("crate::bytes::<impl %s>::copy_be_bytes_to::{closure#0}" % U, "foreign", CFS,
    "chunk.len() == 8 - copy_from by construction of copy_from in the line above")
for e in ("be", "le"):
    row("crate::bytes::<impl %s>::from_%s_bytes" % (U, e), "call",
        "crate::bytes::<impl %s>::from_%s_slice|diverge|panic!#match" % (U, e),
        "from_%s_bytes::<BYTES>() is the documented panicking fixed-size constructor (value too large for BITS); "
        "it is reached only from facades whose inherent method panics as well. Decoders must not reach "
        "from_%s_slice directly (no row there)" % (e, e))

# ---- fmt.rs
for tr in ("Display", "Debug", "Binary", "Octal", "LowerHex", "UpperHex"):
    row("crate::fmt::<impl core::fmt::%s for %s>::fmt" % (tr, U), "foreign", RUNWRAP,
        "write! into DisplayBuffer<BITS> fails only when more than BITS bytes are written; the longest rendering "
        "(binary) has BITS digits -- capacity arithmetic, not decided (DESIGN R-TABLE).  Applies to every unwrap in "
        "the formatter whose receiver is the direct result of write! (side condition), however many chunks are "
        "written separately", any_ordinal=True, requires=[{"receiver_from": "core::fmt::Write::write_fmt"}],
        **({"optional": True} if tr == "Debug" else {}))   # Debug delegates to Display today
row("crate::fmt::DisplayBuffer::<SIZE>::as_str", "foreign", IDX,
    "&buf[..self.len]: len <= SIZE is the struct invariant maintained by write_str (checked `len + s.len() > SIZE` "
    "before writing)")
row("crate::fmt::DisplayBuffer::<SIZE>::new", "foreign", "core::mem::maybe_uninit::MaybeUninit::<T>::assume_init",
    "assume_init of an array of MaybeUninit<u8> (the documented sound idiom); no value is read")

# ---- from.rs
for ty in ("i8", "i16", "i32", "i64", "i128", "isize"):
    row("crate::from::<impl core::convert::TryFrom<%s> for %s>::try_from" % (ty, U), "diverge", "unreachable!#",
        "match arm for ValueNegative/NotANumber after try_from(unsigned): the unsigned conversions construct only "
        "Ok/ValueTooLarge (checked by R-GUARD err-kinds on TryFrom<u64>/TryFrom<u128>)",
        what_re=r"unreachable!#.*")
row("crate::from::<impl core::convert::TryFrom<f64> for %s>::try_from" % U, "diverge", "assert!#Eq(sign,0)",
    "sign bit is 0 because value < 0.0 returned ValueNegative earlier and -0.0 + 0.5 > 0 (float arithmetic, C18 "
    "clause decided by R-FLOAT classification order)")
row("crate::from::<impl core::convert::TryFrom<f64> for %s>::try_from" % U, "diverge", "assert!#Ge(biased_exponent,1022)",
    "value >= 0.5 at this point (values < 0.5 returned ZERO): exponent arithmetic")
row("crate::from::<impl core::convert::TryFrom<f64> for %s>::try_from" % U, "diverge", "assert!#is_normal",
    "value is finite and >= 0.5 here (NaN, negative, >= 2^BITS and < 0.5 returned earlier); infinity is caught by "
    "the >= exp2(BITS) test only when exp2(BITS) is finite -- float classification, see R-FLOAT")

# ---- log.rs (value arithmetic inside log; its two preconditions are exported)
LOG = "crate::log::<impl %s>::log" % U
row(LOG, "diverge", "assert!#is_zero", "documented precondition self != 0; exported as predicate nonzero(self)",
    pred={"name": "nonzero", "param": 1})
row(LOG, "diverge", "assert!#partial_cmp", "documented precondition base >= 2; accepted only where the caller's "
    "call is dominated by the false edge of a `base < 2` test",
    pred={"name": "test", "test": "core::cmp::PartialOrd::lt", "truth": False, "param": 2})
row(LOG, "diverge", "assert!#is_normal", "float estimate of log is finite for non-zero self and base >= 2 (arithmetic, "
    "C13 values not decided)")
row(LOG, "foreign", RUNWRAP, "estimate.try_into::<Uint>() of a finite non-negative float <= BITS (arithmetic)")
row(LOG, "diverge", "assert!#is_zero~2", "correction loop: result > 0 whenever base^result > self >= 1 (arithmetic)")
row(LOG, "call", "crate::from::<impl %s>::to|foreign|core::result::Result::<T, E>::expect" % U,
    "result.to::<usize>(): floor(log) <= BITS fits usize (arithmetic)")

# ---- string.rs
row("crate::string::<impl core::str::traits::FromStr for %s>::from_str" % U, "foreign", "core::str::<impl str>::split_at",
    "split_at(2) on the true edge of is_char_boundary(2), which implies 2 <= len and a char boundary",
    requires=[{"test": "core::str::<impl str>::is_char_boundary", "truth": True}])

# ---- codecs: encoders (C16) -- sizes derived from bit_len
# (the rlp encoders' &bytes[BYTES - (bits+7)/8 ..] is discharged by the interval engine since bit_len's range
#  [0, BITS] became a built-in trusted summary, see DESIGN section 6)
SPLIT = "core::slice::<impl [T]>::split_at"
for m in ("fastrlp_03", "fastrlp_04"):
    f = "crate::support::%s::<impl fastrlp::decode::Decodable for %s>::decode" % (m, U)
    row(f, "foreign", IDX, "&buf[..header.payload_length] / &buf[header.payload_length..] / buf.split_at(header."
        "payload_length): fastrlp's Header::decode checks payload_length <= remaining buffer length before returning Ok "
        "(read in fastrlp-0.4.0/src/decode.rs; foreign post-condition).  Applies to every slice partition in the decoder "
        "whose run-time bound is read from the Header that Header::decode returned (machine-checked side condition)",
        any_what=[IDX, SPLIT, SPLIT + "_mut"], requires=[{"bound_from": "fastrlp::decode::<impl fastrlp::types::Header>::decode"}])
row("crate::support::rlp::trim_leading_zeros", "foreign", IDX,
    "&bytes[zeros..] with zeros = position(..).unwrap_or(len) <= len (core post-condition)")
row("crate::utils::trim_end_slice", "foreign", IDX,
    "&slice[..last_idx] with last_idx = rposition(..)+1 or 0, <= len (core post-condition)")
row("crate::support::serde::<impl %s>::serialize_human_full" % U, "foreign", RUNWRAP,
    "write! into a String never fails")
row("crate::support::scale::assert_compact_supported", "diverge", "assert!#Lt(BITS,COMPACT_BITS_LIMIT)",
    "type-level precondition BITS < 536 of the compact encoding: independent of the input bytes, documented")
SCD = "<crate::support::scale::CompactUint<BITS, LIMBS> as parity_scale_codec::codec::Decode>::decode"
row(SCD, "foreign", VIDXM, "new_limbs[limbs - 1] under `bits > 0`, limbs = ceil(bits/64) >= 1 = new_limbs.len()")
row(SCD, "call", "crate::Uint::<BITS, LIMBS>::from_limbs_slice|diverge|panic!#switch",
    "Uint::<536,9>::from_limbs_slice(&new_limbs): bytes <= 67 so at most 9 limbs and the top limb is masked to "
    "bits % 64 two lines above (arithmetic on the mode byte)")
row(SCD, "call", "crate::from::<impl %s>::from|diverge|panic!#match" % U,
    "Uint::<536,9>::from(x) with x: Uint<BITS,LIMBS>, BITS < 536 by assert_compact_supported at entry")
# (PrefixInput::read's buffer[0] under `if !buffer.is_empty()` is discharged by the interval engine since bounds
#  checks on `&mut [T]` read the length through `&raw const *r`, which is now linked to the slice)
PG = "crate::support::postgres::<impl postgres_types::FromSql<'a> for %s>::from_sql" % U
row(PG + "::{closure#0}", "foreign", RUNWRAP,
    "raw.try_into::<[u8; 2]>().unwrap() on the items of chunks_exact(2), which are exactly 2 bytes long (core "
    "post-condition)")
row(PG, "foreign", VIDX, "raw[i] inside `for i in (1..raw.len()).rev()`: 1 <= i < len (Rev<Range> post-condition)")
row(PG, "foreign", VIDX + "~2", "raw[i - 1] in the same loop: i >= 1")
row(PG, "foreign", VIDXM, "raw[i] = .. in the same loop")
row(PG, "foreign", "core::str::traits::<impl core::ops::index::Index<I> for str>::index",
    "&str[1..len-1] after `len >= 2 && starts_with('\"') && ends_with('\"')`: both ends are ASCII quotes, so 1 and "
    "len-1 are char boundaries and 1 <= len-1",
    requires=[{"cond": "Ge(len(),2)", "truth": True}, {"test": "core::str::<impl str>::starts_with", "truth": True},
              {"test": "core::str::<impl str>::ends_with", "truth": True}])

# ---- facades whose signature cannot express the failure (C20)
row("crate::support::num_integer::<impl num_integer::Integer for %s>::lcm" % U, "foreign", OUNWRAP,
    "Integer::lcm returns Self: overflow of the inherent checked lcm cannot be expressed (documented facade panic)")
row("crate::support::num_traits::<impl num_traits::int::PrimInt for %s>::swap_bytes" % U, "foreign", OUNWRAP,
    "try_from_be_slice(le bytes).unwrap(): panics only for widths that are not a multiple of 8 bits where the "
    "byte-swapped value does not fit; PrimInt::swap_bytes returns Self (cannot express failure)")
for m in ("from_le_bytes", "from_be_bytes"):
    row("crate::support::num_traits::<impl num_traits::ops::bytes::FromBytes for %s>::%s" % (U, m), "foreign", OUNWRAP,
        "FromBytes::%s returns Self: out-of-range input cannot be expressed (documented facade panic)" % m)
row("crate::support::subtle::<impl %s>::bit_ct" % U, "diverge", "assert!#Lt(index,BITS)",
    "documented panic: bit_ct asserts index < BITS")

out = os.path.join(os.path.dirname(os.path.dirname(os.path.abspath(__file__))), "total.json")
with open(out, "w") as fh:
    json.dump(T, fh, indent=1, sort_keys=True)
print("rows:", sum(len(v) for v in T.values()))
