//! mirfacts: a rustc driver that exports the type-checked program (MIR with
//! resolved callees, signatures, impl headers, evaluated constants) of the
//! workspace crates as JSON facts for the Python rule engine in /verif/vcheck.
//!
//! Used as RUSTC_WORKSPACE_WRAPPER under `cargo +nightly check`.
//! Env: MIRFACTS_OUT=<dir>  MIRFACTS_CRATES=ruint,ruint_macro
//!      MIRFACTS_CONFIGS="1,1;65,2;..."  (BITS,LIMBS pairs to evaluate consts for)
#![feature(rustc_private)]
#![feature(box_patterns)]
#![allow(clippy::all)]

extern crate rustc_abi;
extern crate rustc_driver;
extern crate rustc_hir;
extern crate rustc_interface;
extern crate rustc_middle;
extern crate rustc_span;
extern crate rustc_type_ir;

mod json;
use json::J;

use rustc_driver::Compilation;
use rustc_hir::def::DefKind;
use rustc_hir::def_id::{DefId, LocalDefId, LOCAL_CRATE};
use rustc_middle::mir::{
    self, AggregateKind, AssertKind, BasicBlock, Body, BorrowKind, CastKind, Const, ConstValue,
    NonDivergingIntrinsic, Operand, Place, ProjectionElem, Rvalue, StatementKind, TerminatorKind,
    UnwindAction,
};
use rustc_middle::ty::print::{with_crate_prefix, with_no_trimmed_paths, with_no_visible_paths, PrintTraitRefExt};
use rustc_middle::ty::{
    self, ConstKind, GenericArgKind, GenericArgsRef, Instance, Ty, TyCtxt, TypingEnv,
};
use rustc_span::{Span, DUMMY_SP};

struct Cb;

impl rustc_driver::Callbacks for Cb {
    fn after_analysis<'tcx>(
        &mut self,
        _c: &rustc_interface::interface::Compiler,
        tcx: TyCtxt<'tcx>,
    ) -> Compilation {
        let name = tcx.crate_name(LOCAL_CRATE).to_string();
        let want = std::env::var("MIRFACTS_CRATES").unwrap_or_else(|_| "ruint,ruint_macro".into());
        if want.split(',').any(|w| w == name) {
            if let Ok(out) = std::env::var("MIRFACTS_OUT") {
                let j = dump(tcx, &name);
                let mut s = String::with_capacity(1 << 24);
                j.write(&mut s);
                let mut path = format!("{}/{}.json", out, name);
                if std::path::Path::new(&path).exists() {
                    path = format!("{}/{}-{}.json", out, name, std::process::id());
                }
                let tmp = format!("{}.tmp{}", path, std::process::id());
                std::fs::write(&tmp, s).expect("mirfacts: cannot write facts");
                std::fs::rename(&tmp, &path).expect("mirfacts: cannot rename facts");
            }
        }
        Compilation::Continue
    }
}

fn main() {
    let mut args: Vec<String> = std::env::args().collect();
    // RUSTC_WORKSPACE_WRAPPER: argv[1] is the path of the real rustc.
    if args.len() > 1 && (args[1].ends_with("rustc") || args[1].contains("/rustc")) {
        args.remove(1);
    }
    rustc_driver::run_compiler(&args, &mut Cb);
}

// ---------------------------------------------------------------------------

fn key(tcx: TyCtxt<'_>, did: DefId) -> String {
    with_crate_prefix!(with_no_visible_paths!(with_no_trimmed_paths!(tcx.def_path_str(did))))
}

fn key_args<'tcx>(tcx: TyCtxt<'tcx>, did: DefId, args: GenericArgsRef<'tcx>) -> String {
    with_crate_prefix!(with_no_visible_paths!(with_no_trimmed_paths!(tcx.def_path_str_with_args(did, args))))
}

fn ty_str<'tcx>(ty: Ty<'tcx>) -> String {
    with_crate_prefix!(with_no_visible_paths!(with_no_trimmed_paths!(format!("{}", ty))))
}

struct Cx<'tcx> {
    tcx: TyCtxt<'tcx>,
    env: TypingEnv<'tcx>,
    owner: DefId,
}

fn const_j<'tcx>(tcx: TyCtxt<'tcx>, ct: ty::Const<'tcx>) -> J {
    match ct.kind() {
        ConstKind::Param(p) => J::obj(vec![("c", J::s("param")), ("n", J::S(p.name.to_string()))]),
        ConstKind::Value(v) => {
            if let Some(si) = v.try_to_leaf() {
                J::obj(vec![("c", J::s("lit")), ("v", J::U(si.to_bits_unchecked())), ("ty", J::S(ty_str(v.ty)))])
            } else if let Some(bytes) = v.try_to_raw_bytes(tcx) {
                let is_str = matches!(v.ty.kind(), ty::TyKind::Ref(_, t, _) if t.is_str());
                if is_str {
                    J::obj(vec![("c", J::s("str")), ("v", J::S(String::from_utf8_lossy(bytes).to_string()))])
                } else {
                    J::obj(vec![("c", J::s("bytes")), ("v", J::A(bytes.iter().map(|b| J::U(*b as u128)).collect()))])
                }
            } else {
                J::obj(vec![("c", J::s("other")), ("s", J::S(format!("{:?}", ct)))])
            }
        }
        ConstKind::Unevaluated(uv) => J::obj(vec![
            ("c", J::s("uneval")),
            ("def", J::S(key(tcx, uv.def))),
            ("args", args_j(tcx, uv.args)),
        ]),
        _ => J::obj(vec![("c", J::s("other")), ("s", J::S(format!("{:?}", ct)))]),
    }
}

fn args_j<'tcx>(tcx: TyCtxt<'tcx>, args: GenericArgsRef<'tcx>) -> J {
    let mut v = Vec::new();
    for a in args.iter() {
        match a.kind() {
            GenericArgKind::Type(t) => v.push(ty_j(tcx, t)),
            GenericArgKind::Const(c) => v.push(const_j(tcx, c)),
            GenericArgKind::Lifetime(_) => {}
        }
    }
    J::A(v)
}

fn ty_j<'tcx>(tcx: TyCtxt<'tcx>, ty: Ty<'tcx>) -> J {
    use rustc_type_ir::TyKind::*;
    match ty.kind() {
        Bool | Char | Int(_) | Uint(_) | Float(_) | Str | Never => {
            J::obj(vec![("k", J::s("prim")), ("n", J::S(format!("{}", ty)))])
        }
        Adt(def, args) => J::obj(vec![
            ("k", J::s("adt")),
            ("n", J::S(key(tcx, def.did()))),
            ("a", args_j(tcx, args)),
        ]),
        Ref(_, t, m) => J::obj(vec![("k", J::s("ref")), ("m", J::B(m.is_mut())), ("t", ty_j(tcx, *t))]),
        RawPtr(t, m) => J::obj(vec![("k", J::s("ptr")), ("m", J::B(m.is_mut())), ("t", ty_j(tcx, *t))]),
        Array(t, n) => J::obj(vec![("k", J::s("array")), ("t", ty_j(tcx, *t)), ("len", const_j(tcx, *n))]),
        Slice(t) => J::obj(vec![("k", J::s("slice")), ("t", ty_j(tcx, *t))]),
        Tuple(ts) => J::obj(vec![("k", J::s("tuple")), ("ts", J::A(ts.iter().map(|t| ty_j(tcx, t)).collect()))]),
        Param(p) => J::obj(vec![("k", J::s("param")), ("n", J::S(p.name.to_string()))]),
        FnDef(did, args) => J::obj(vec![
            ("k", J::s("fndef")),
            ("def", J::S(key(tcx, *did))),
            ("a", args_j(tcx, args)),
        ]),
        Closure(did, _) => J::obj(vec![("k", J::s("closure")), ("def", J::S(key(tcx, *did)))]),
        FnPtr(sig_tys, _) => {
            let io = sig_tys.skip_binder().inputs_and_output;
            J::obj(vec![
                ("k", J::s("fnptr")),
                ("s", J::S(ty_str(ty))),
                ("io", J::A(io.iter().map(|t| ty_j(tcx, t)).collect())),
            ])
        }
        Alias(..) => J::obj(vec![("k", J::s("alias")), ("s", J::S(ty_str(ty)))]),
        Dynamic(..) => J::obj(vec![("k", J::s("dyn")), ("s", J::S(ty_str(ty)))]),
        _ => J::obj(vec![("k", J::s("other")), ("s", J::S(ty_str(ty)))]),
    }
}

fn span_j(tcx: TyCtxt<'_>, sp: Span) -> (J, J, J) {
    // (file, line, macros) ; the location is the outermost call site in the
    // local crate, macros lists the expansion backtrace (innermost first).
    let mut macros = Vec::new();
    for e in sp.macro_backtrace() {
        macros.push(J::S(e.kind.descr().to_string()));
    }
    let root = sp.source_callsite();
    let sm = tcx.sess.source_map();
    let loc = sm.lookup_char_pos(root.lo());
    let file = match &loc.file.name {
        rustc_span::FileName::Real(r) => {
            let p = r.local_path().map(|p| p.to_string_lossy().to_string()).unwrap_or_else(|| format!("{:?}", r));
            p
        }
        other => format!("{:?}", other),
    };
    (J::S(file), J::U(loc.line as u128), J::A(macros))
}

impl<'tcx> Cx<'tcx> {
    fn place(&self, p: &Place<'tcx>) -> J {
        let mut proj = Vec::new();
        for e in p.projection.iter() {
            proj.push(match e {
                ProjectionElem::Deref => J::s("deref"),
                ProjectionElem::Field(f, _) => J::A(vec![J::s("f"), J::U(f.as_u32() as u128)]),
                ProjectionElem::Index(l) => J::A(vec![J::s("idx"), J::U(l.as_u32() as u128)]),
                ProjectionElem::ConstantIndex { offset, min_length, from_end } => {
                    J::A(vec![J::s("cidx"), J::U(offset as u128), J::B(from_end), J::U(min_length as u128)])
                }
                ProjectionElem::Subslice { from, to, from_end } => {
                    J::A(vec![J::s("sub"), J::U(from as u128), J::U(to as u128), J::B(from_end)])
                }
                ProjectionElem::Downcast(name, v) => J::A(vec![
                    J::s("dc"),
                    J::U(v.as_u32() as u128),
                    J::S(name.map(|n| n.to_string()).unwrap_or_default()),
                ]),
                _ => J::A(vec![J::s("other"), J::S(format!("{:?}", e))]),
            });
        }
        J::obj(vec![("l", J::U(p.local.as_u32() as u128)), ("p", J::A(proj))])
    }

    fn fn_ref(&self, did: DefId, args: GenericArgsRef<'tcx>) -> Vec<(&'static str, J)> {
        let tcx = self.tcx;
        let mut v = vec![
            ("def", J::S(key(tcx, did))),
            ("inst", J::S(key_args(tcx, did, args))),
            ("args", args_j(tcx, args)),
            ("local", J::B(did.is_local())),
        ];
        // resolve trait methods to the impl method where possible
        let mut res: Option<(DefId, GenericArgsRef<'tcx>)> = None;
        if matches!(tcx.def_kind(did), DefKind::Fn | DefKind::AssocFn) {
            let r = std::panic::catch_unwind(std::panic::AssertUnwindSafe(|| {
                Instance::try_resolve(tcx, self.env, did, args)
            }));
            if let Ok(Ok(Some(inst))) = r {
                if let ty::InstanceKind::Item(rd) = inst.def {
                    res = Some((rd, inst.args));
                } else {
                    v.push(("shim", J::S(format!("{:?}", inst.def).chars().take(60).collect())));
                    res = Some((inst.def_id(), inst.args));
                }
            }
        }
        match res {
            Some((rd, ra)) => {
                v.push(("res", J::S(key(tcx, rd))));
                v.push(("res_inst", J::S(key_args(tcx, rd, ra))));
                v.push(("res_local", J::B(rd.is_local())));
                if rd != did {
                    v.push(("res_args", args_j(tcx, ra)));
                }
            }
            None => {
                v.push(("res", J::Null));
            }
        }
        if let Some(tr) = tcx.trait_of_assoc(did) {
            v.push(("trait", J::S(key(tcx, tr))));
        }
        // well-known core forwarders: name the function they forward to,
        // resolved for this call site's types
        if let Some((tdid, targs)) = self.forward_target(did, args) {
            let mut f = vec![("def", J::S(key(tcx, tdid))), ("inst", J::S(key_args(tcx, tdid, targs)))];
            let r = std::panic::catch_unwind(std::panic::AssertUnwindSafe(|| {
                Instance::try_resolve(tcx, self.env, tdid, targs)
            }));
            if let Ok(Ok(Some(inst))) = r {
                let rd = inst.def_id();
                f.push(("res", J::S(key(tcx, rd))));
                f.push(("res_inst", J::S(key_args(tcx, rd, inst.args))));
                f.push(("res_local", J::B(rd.is_local())));
                f.push(("res_args", args_j(tcx, inst.args)));
            } else {
                f.push(("res", J::Null));
            }
            v.push(("fwd", J::obj(f)));
        }
        v
    }

    fn forward_target(&self, did: DefId, args: GenericArgsRef<'tcx>) -> Option<(DefId, GenericArgsRef<'tcx>)> {
        let tcx = self.tcx;
        let k = key(tcx, did);
        let assoc = |diag: &str, name: &str| -> Option<DefId> {
            let tr = tcx.get_diagnostic_item(rustc_span::Symbol::intern(diag))?;
            tcx.associated_items(tr)
                .filter_by_name_unhygienic(rustc_span::Symbol::intern(name))
                .next()
                .map(|a| a.def_id)
        };
        let tys: Vec<ty::GenericArg<'tcx>> = args.iter().filter(|a| !matches!(a.kind(), GenericArgKind::Lifetime(_))).collect();
        match k.as_str() {
            "core::convert::Into::into" if tys.len() == 2 => {
                let t = assoc("From", "from")?;
                Some((t, tcx.mk_args(&[tys[1], tys[0]])))
            }
            "core::convert::TryInto::try_into" if tys.len() == 2 => {
                let t = assoc("TryFrom", "try_from")?;
                Some((t, tcx.mk_args(&[tys[1], tys[0]])))
            }
            "core::str::<impl str>::parse" if tys.len() == 1 => {
                let t = tcx.get_diagnostic_item(rustc_span::Symbol::intern("from_str_method"))?;
                Some((t, tcx.mk_args(&[tys[0]])))
            }
            "core::cmp::PartialOrd::lt" | "core::cmp::PartialOrd::le" | "core::cmp::PartialOrd::gt"
            | "core::cmp::PartialOrd::ge" if tys.len() == 2 => {
                let tr = tcx.lang_items().partial_ord_trait()?;
                let t = tcx.associated_items(tr).filter_by_name_unhygienic(rustc_span::Symbol::intern("partial_cmp")).next()?.def_id;
                Some((t, tcx.mk_args(&[tys[0], tys[1]])))
            }
            "core::cmp::Ord::max" | "core::cmp::Ord::min" | "core::cmp::Ord::clamp" if tys.len() == 1 => {
                let tr = tcx.get_diagnostic_item(rustc_span::Symbol::intern("Ord"))?;
                let t = tcx.associated_items(tr).filter_by_name_unhygienic(rustc_span::Symbol::intern("cmp")).next()?.def_id;
                Some((t, tcx.mk_args(&[tys[0]])))
            }
            "core::cmp::PartialEq::ne" if tys.len() == 2 => {
                let tr = tcx.lang_items().eq_trait()?;
                let t = tcx.associated_items(tr).filter_by_name_unhygienic(rustc_span::Symbol::intern("eq")).next()?.def_id;
                Some((t, tcx.mk_args(&[tys[0], tys[1]])))
            }
            "alloc::string::ToString::to_string" if tys.len() == 1 => {
                let tr = tcx.get_diagnostic_item(rustc_span::Symbol::intern("Display"))?;
                let t = tcx.associated_items(tr).filter_by_name_unhygienic(rustc_span::Symbol::intern("fmt")).next()?.def_id;
                Some((t, tcx.mk_args(&[tys[0]])))
            }
            _ => None,
        }
    }

    fn konst(&self, c: &Const<'tcx>) -> J {
        let tcx = self.tcx;
        let ty = c.ty();
        match ty.kind() {
            ty::TyKind::FnDef(did, args) => {
                let mut v = vec![("c", J::s("fn"))];
                v.extend(self.fn_ref(*did, args));
                return J::obj(v);
            }
            ty::TyKind::Closure(did, _) => {
                return J::obj(vec![("c", J::s("closure")), ("def", J::S(key(tcx, *did)))]);
            }
            _ => {}
        }
        match c {
            Const::Ty(_, ct) => {
                let mut j = const_j(tcx, *ct);
                if let J::O(ref mut v) = j {
                    v.push(("ty", J::S(ty_str(ty))));
                }
                j
            }
            Const::Unevaluated(uv, _) => {
                if let Some(p) = uv.promoted {
                    return J::obj(vec![
                        ("c", J::s("promoted")),
                        ("i", J::U(p.as_u32() as u128)),
                        ("ty", J::S(ty_str(ty))),
                    ]);
                }
                let mut v = vec![
                    ("c", J::s("uneval")),
                    ("def", J::S(key(tcx, uv.def))),
                    ("args", args_j(tcx, uv.args)),
                    ("ty", J::S(ty_str(ty))),
                ];
                // concrete (non-generic) constants: evaluate now
                if !c.has_param_guard() {
                    if let Some(si) = c.try_eval_scalar_int(tcx, self.env) {
                        v.push(("v", J::U(si.to_bits_unchecked())));
                    }
                }
                J::obj(v)
            }
            Const::Val(cv, _) => {
                if let Some(si) = cv.try_to_scalar_int() {
                    let bits = si.to_bits_unchecked();
                    let mut v = vec![("c", J::s("lit")), ("v", J::U(bits)), ("ty", J::S(ty_str(ty)))];
                    if let ty::TyKind::Int(_) = ty.kind() {
                        let size = si.size();
                        v.push(("sv", J::I(size.sign_extend(bits) as i128)));
                    }
                    if let ty::TyKind::Float(ft) = ty.kind() {
                        let f = match ft {
                            ty::FloatTy::F32 => f32::from_bits(bits as u32) as f64,
                            ty::FloatTy::F64 => f64::from_bits(bits as u64),
                            _ => f64::NAN,
                        };
                        v.push(("fv", J::S(format!("{:e}", f))));
                    }
                    return J::obj(v);
                }
                let sliceish = matches!(ty.kind(), ty::TyKind::Ref(_, t, _) if t.is_str() || t.is_slice());
                if sliceish || matches!(cv, ConstValue::Slice { .. }) {
                    if let Some(bytes) = cv.try_get_slice_bytes_for_diagnostics(tcx) {
                        let is_str = matches!(ty.kind(), ty::TyKind::Ref(_, t, _) if t.is_str());
                        if is_str {
                            return J::obj(vec![
                                ("c", J::s("str")),
                                ("v", J::S(String::from_utf8_lossy(bytes).to_string())),
                            ]);
                        } else {
                            return J::obj(vec![
                                ("c", J::s("bytes")),
                                ("v", J::A(bytes.iter().map(|b| J::U(*b as u128)).collect())),
                            ]);
                        }
                    }
                }
                if let ConstValue::Scalar(mir::interpret::Scalar::Ptr(ptr, _)) = cv {
                    let (prov, _off) = ptr.into_raw_parts();
                    if let rustc_middle::mir::interpret::GlobalAlloc::Memory(a) = tcx.global_alloc(prov.alloc_id()) {
                        let a = a.inner();
                        let n = a.len();
                        if n <= 512 && a.provenance().ptrs().is_empty() {
                            let bytes = a.inspect_with_uninit_and_ptr_outside_interpreter(0..n);
                            return J::obj(vec![
                                ("c", J::s("bytes")),
                                ("via", J::s("alloc")),
                                ("v", J::A(bytes.iter().map(|b| J::U(*b as u128)).collect())),
                            ]);
                        }
                    }
                }
                if let ConstValue::ZeroSized = cv {
                    return J::obj(vec![("c", J::s("zst")), ("ty", J::S(ty_str(ty)))]);
                }
                J::obj(vec![("c", J::s("other")), ("ty", J::S(ty_str(ty))), ("s", J::S(format!("{:?}", cv).chars().take(120).collect()))])
            }
        }
    }

    fn operand(&self, o: &Operand<'tcx>) -> J {
        match o {
            Operand::Copy(p) => {
                let mut j = self.place(p);
                if let J::O(ref mut v) = j {
                    v.insert(0, ("o", J::s("copy")));
                }
                j
            }
            Operand::Move(p) => {
                let mut j = self.place(p);
                if let J::O(ref mut v) = j {
                    v.insert(0, ("o", J::s("move")));
                }
                j
            }
            Operand::Constant(box c) => {
                let mut j = self.konst(&c.const_);
                if let J::O(ref mut v) = j {
                    v.insert(0, ("o", J::s("const")));
                }
                j
            }
            #[allow(unreachable_patterns)]
            _ => J::obj(vec![("o", J::s("other")), ("s", J::S(format!("{:?}", o)))]),
        }
    }

    fn rvalue(&self, rv: &Rvalue<'tcx>) -> J {
        let tcx = self.tcx;
        match rv {
            Rvalue::Use(op, _) => J::obj(vec![("r", J::s("use")), ("a", self.operand(op))]),
            Rvalue::CopyForDeref(p) => {
                let mut j = self.place(p);
                if let J::O(ref mut v) = j {
                    v.insert(0, ("o", J::s("copy")));
                }
                J::obj(vec![("r", J::s("use")), ("a", j)])
            }
            Rvalue::Repeat(op, n) => J::obj(vec![("r", J::s("repeat")), ("a", self.operand(op)), ("n", const_j(tcx, *n))]),
            Rvalue::Ref(_, bk, p) => {
                let m = match bk {
                    BorrowKind::Shared => "shared",
                    BorrowKind::Fake(_) => "fake",
                    BorrowKind::Mut { .. } => "mut",
                };
                J::obj(vec![("r", J::s("ref")), ("m", J::s(m)), ("pl", self.place(p))])
            }
            Rvalue::RawPtr(k, p) => {
                let m = format!("{:?}", k);
                let m = if m.contains("Mut") { "mut" } else { "const" };
                J::obj(vec![("r", J::s("rawptr")), ("m", J::s(m)), ("pl", self.place(p))])
            }
            Rvalue::Cast(k, op, ty) => {
                let ks = match k {
                    CastKind::PointerCoercion(c, _) => format!("PointerCoercion({:?})", c),
                    other => format!("{:?}", other),
                };
                J::obj(vec![
                    ("r", J::s("cast")),
                    ("kind", J::S(ks)),
                    ("a", self.operand(op)),
                    ("ty", ty_j(tcx, *ty)),
                ])
            }
            Rvalue::BinaryOp(op, box (a, b)) => J::obj(vec![
                ("r", J::s("bin")),
                ("op", J::S(format!("{:?}", op))),
                ("a", self.operand(a)),
                ("b", self.operand(b)),
            ]),
            Rvalue::UnaryOp(op, a) => J::obj(vec![
                ("r", J::s("un")),
                ("op", J::S(format!("{:?}", op))),
                ("a", self.operand(a)),
            ]),
            Rvalue::Discriminant(p) => J::obj(vec![("r", J::s("discr")), ("pl", self.place(p))]),
            Rvalue::Aggregate(box kind, ops) => {
                let mut v = vec![("r", J::s("agg"))];
                match kind {
                    AggregateKind::Array(_) => v.push(("kind", J::s("array"))),
                    AggregateKind::Tuple => v.push(("kind", J::s("tuple"))),
                    AggregateKind::Adt(did, variant, args, _, _) => {
                        v.push(("kind", J::s("adt")));
                        v.push(("def", J::S(key(tcx, *did))));
                        v.push(("args", args_j(tcx, args)));
                        let adt = tcx.adt_def(*did);
                        v.push(("variant", J::S(adt.variant(*variant).name.to_string())));
                        v.push(("vidx", J::U(variant.as_u32() as u128)));
                    }
                    AggregateKind::Closure(did, _) => {
                        v.push(("kind", J::s("closure")));
                        v.push(("def", J::S(key(tcx, *did))));
                    }
                    AggregateKind::RawPtr(..) => v.push(("kind", J::s("rawptr"))),
                    _ => v.push(("kind", J::s("other"))),
                }
                v.push(("ops", J::A(ops.iter().map(|o| self.operand(o)).collect())));
                J::obj(v)
            }
            Rvalue::ThreadLocalRef(_) | Rvalue::WrapUnsafeBinder(..) => {
                J::obj(vec![("r", J::s("other")), ("s", J::S(format!("{:?}", rv)))])
            }
            #[allow(unreachable_patterns)]
            _ => J::obj(vec![("r", J::s("other")), ("s", J::S(format!("{:?}", rv)))]),
        }
    }

    fn bb(b: BasicBlock) -> J {
        J::U(b.as_u32() as u128)
    }

    fn body(&self, body: &Body<'tcx>) -> Vec<(&'static str, J)> {
        let tcx = self.tcx;
        let mut locals = Vec::new();
        let mut names: Vec<Option<String>> = vec![None; body.local_decls.len()];
        for vdi in &body.var_debug_info {
            if let mir::VarDebugInfoContents::Place(p) = &vdi.value {
                if p.projection.is_empty() {
                    names[p.local.as_usize()] = Some(vdi.name.to_string());
                }
            }
        }
        for (i, d) in body.local_decls.iter_enumerated() {
            let mut v = vec![("ty", ty_j(tcx, d.ty)), ("s", J::S(ty_str(d.ty)))];
            if let Some(n) = &names[i.as_usize()] {
                v.push(("name", J::S(n.clone())));
            }
            if d.mutability.is_mut() {
                v.push(("mut", J::B(true)));
            }
            locals.push(J::obj(v));
        }
        let mut blocks = Vec::new();
        for (_bbi, bbd) in body.basic_blocks.iter_enumerated() {
            let mut stmts = Vec::new();
            for st in &bbd.statements {
                let (_f, line, macros) = span_j(tcx, st.source_info.span);
                match &st.kind {
                    StatementKind::Assign(box (pl, rv)) => {
                        stmts.push(J::obj(vec![
                            ("s", J::s("assign")),
                            ("pl", self.place(pl)),
                            ("rv", self.rvalue(rv)),
                            ("line", line),
                            ("mac", macros),
                        ]));
                    }
                    StatementKind::SetDiscriminant { place, variant_index } => {
                        stmts.push(J::obj(vec![
                            ("s", J::s("setdiscr")),
                            ("pl", self.place(place)),
                            ("v", J::U(variant_index.as_u32() as u128)),
                            ("line", line),
                        ]));
                    }
                    StatementKind::Intrinsic(box NonDivergingIntrinsic::Assume(op)) => {
                        stmts.push(J::obj(vec![("s", J::s("assume")), ("a", self.operand(op)), ("line", line), ("mac", macros)]));
                    }
                    StatementKind::Intrinsic(box NonDivergingIntrinsic::CopyNonOverlapping(c)) => {
                        stmts.push(J::obj(vec![
                            ("s", J::s("copy_nonoverlapping")),
                            ("src", self.operand(&c.src)),
                            ("dst", self.operand(&c.dst)),
                            ("count", self.operand(&c.count)),
                            ("line", line),
                        ]));
                    }
                    _ => {}
                }
            }
            let term = bbd.terminator();
            let (_f, line, macros) = span_j(tcx, term.source_info.span);
            let mut t: Vec<(&'static str, J)> = Vec::new();
            match &term.kind {
                TerminatorKind::Goto { target } => {
                    t.push(("t", J::s("goto")));
                    t.push(("target", Self::bb(*target)));
                }
                TerminatorKind::SwitchInt { discr, targets } => {
                    t.push(("t", J::s("switch")));
                    t.push(("discr", self.operand(discr)));
                    let mut tv = Vec::new();
                    for (val, bb) in targets.iter() {
                        tv.push(J::A(vec![J::U(val), Self::bb(bb)]));
                    }
                    t.push(("targets", J::A(tv)));
                    t.push(("otherwise", Self::bb(targets.otherwise())));
                }
                TerminatorKind::Return => t.push(("t", J::s("return"))),
                TerminatorKind::Unreachable => t.push(("t", J::s("unreachable"))),
                TerminatorKind::UnwindResume => t.push(("t", J::s("resume"))),
                TerminatorKind::UnwindTerminate(_) => t.push(("t", J::s("terminate"))),
                TerminatorKind::Drop { place, target, .. } => {
                    t.push(("t", J::s("drop")));
                    t.push(("pl", self.place(place)));
                    t.push(("target", Self::bb(*target)));
                }
                TerminatorKind::Call { func, args, destination, target, unwind, .. } => {
                    t.push(("t", J::s("call")));
                    t.push(("fn", self.operand(func)));
                    t.push(("args", J::A(args.iter().map(|a| self.operand(&a.node)).collect())));
                    t.push(("dest", self.place(destination)));
                    t.push(("target", target.map(Self::bb).unwrap_or(J::Null)));
                    if let UnwindAction::Cleanup(b) = unwind {
                        t.push(("cleanup", Self::bb(*b)));
                    }
                }
                TerminatorKind::TailCall { func, args, .. } => {
                    t.push(("t", J::s("tailcall")));
                    t.push(("fn", self.operand(func)));
                    t.push(("args", J::A(args.iter().map(|a| self.operand(&a.node)).collect())));
                }
                TerminatorKind::Assert { cond, expected, msg, target, .. } => {
                    t.push(("t", J::s("assert")));
                    t.push(("cond", self.operand(cond)));
                    t.push(("expected", J::B(*expected)));
                    t.push(("target", Self::bb(*target)));
                    match &**msg {
                        AssertKind::BoundsCheck { len, index } => {
                            t.push(("kind", J::s("BoundsCheck")));
                            t.push(("len", self.operand(len)));
                            t.push(("index", self.operand(index)));
                        }
                        AssertKind::Overflow(op, a, b) => {
                            t.push(("kind", J::s("Overflow")));
                            t.push(("op", J::S(format!("{:?}", op))));
                            t.push(("a", self.operand(a)));
                            t.push(("b", self.operand(b)));
                        }
                        AssertKind::OverflowNeg(a) => {
                            t.push(("kind", J::s("OverflowNeg")));
                            t.push(("a", self.operand(a)));
                        }
                        AssertKind::DivisionByZero(a) => {
                            t.push(("kind", J::s("DivisionByZero")));
                            t.push(("a", self.operand(a)));
                        }
                        AssertKind::RemainderByZero(a) => {
                            t.push(("kind", J::s("RemainderByZero")));
                            t.push(("a", self.operand(a)));
                        }
                        other => {
                            let s = format!("{:?}", other);
                            t.push(("kind", J::S(s.split(|c: char| !c.is_alphanumeric()).next().unwrap_or("").to_string())));
                        }
                    }
                }
                TerminatorKind::FalseEdge { real_target, .. } => {
                    t.push(("t", J::s("goto")));
                    t.push(("target", Self::bb(*real_target)));
                }
                TerminatorKind::FalseUnwind { real_target, .. } => {
                    t.push(("t", J::s("goto")));
                    t.push(("target", Self::bb(*real_target)));
                }
                other => {
                    t.push(("t", J::s("other")));
                    t.push(("s", J::S(format!("{:?}", other).chars().take(80).collect())));
                }
            }
            t.push(("line", line));
            t.push(("mac", macros));
            let mut b = vec![("stmts", J::A(stmts)), ("term", J::obj(t))];
            if bbd.is_cleanup {
                b.push(("cleanup", J::B(true)));
            }
            blocks.push(J::obj(b));
        }
        let mut req = Vec::new();
        for c in body.required_consts() {
            if let Const::Unevaluated(uv, _) = c.const_ {
                if uv.promoted.is_none() {
                    req.push(J::obj(vec![("def", J::S(key(tcx, uv.def))), ("args", args_j(tcx, uv.args))]));
                }
            }
        }
        let mut mentioned = Vec::new();
        if let Some(ms) = &body.mentioned_items {
            for m in ms.iter() {
                if let mir::MentionedItem::Fn(fty) = m.node {
                    if let ty::TyKind::FnDef(did, args) = fty.kind() {
                        mentioned.push(J::obj(self.fn_ref(*did, args)));
                    }
                }
            }
        }
        vec![
            ("arg_count", J::U(body.arg_count as u128)),
            ("locals", J::A(locals)),
            ("blocks", J::A(blocks)),
            ("required_consts", J::A(req)),
            ("mentioned", J::A(mentioned)),
        ]
    }
}

trait HasParamGuard {
    fn has_param_guard(&self) -> bool;
}
impl<'tcx> HasParamGuard for Const<'tcx> {
    fn has_param_guard(&self) -> bool {
        use rustc_middle::ty::TypeVisitableExt;
        self.has_non_region_param()
    }
}

fn generics_j(tcx: TyCtxt<'_>, did: DefId) -> J {
    let g = tcx.generics_of(did);
    let mut v = Vec::new();
    let mut cur = Some(g);
    let mut stack = Vec::new();
    while let Some(gg) = cur {
        stack.push(gg);
        cur = gg.parent.map(|p| tcx.generics_of(p));
    }
    for gg in stack.iter().rev() {
        for p in &gg.own_params {
            let kind = match p.kind {
                ty::GenericParamDefKind::Lifetime => "lt",
                ty::GenericParamDefKind::Type { .. } => "ty",
                ty::GenericParamDefKind::Const { .. } => "const",
            };
            if kind != "lt" {
                v.push(J::A(vec![J::s(kind), J::S(p.name.to_string())]));
            }
        }
    }
    J::A(v)
}

fn impl_header_j<'tcx>(tcx: TyCtxt<'tcx>, impl_did: DefId) -> J {
    let self_ty = tcx.type_of(impl_did).instantiate_identity().skip_norm_wip();
    let mut v = vec![
        ("key", J::S(key(tcx, impl_did))),
        ("self", ty_j(tcx, self_ty)),
        ("self_s", J::S(ty_str(self_ty))),
        ("generics", generics_j(tcx, impl_did)),
    ];
    if let DefKind::Impl { of_trait: true } = tcx.def_kind(impl_did) {
        let tr = tcx.impl_trait_ref(impl_did).instantiate_identity().skip_norm_wip();
        v.push(("trait", J::S(key(tcx, tr.def_id))));
        v.push(("trait_s", J::S(with_crate_prefix!(with_no_visible_paths!(with_no_trimmed_paths!(format!("{}", tr.print_only_trait_path())))))));
        // trait args without Self
        let mut ta = Vec::new();
        for a in tr.args.iter().skip(1) {
            match a.kind() {
                GenericArgKind::Type(t) => ta.push(ty_j(tcx, t)),
                GenericArgKind::Const(c) => ta.push(const_j(tcx, c)),
                _ => {}
            }
        }
        v.push(("trait_args", J::A(ta)));
        let h = tcx.impl_trait_header(impl_did);
        v.push(("unsafe", J::B(format!("{:?}", h.safety).contains("Unsafe"))));
        v.push(("negative", J::B(format!("{:?}", h.polarity).contains("Negative"))));
    } else {
        v.push(("trait", J::Null));
    }
    let derived = tcx.is_automatically_derived(impl_did);
    v.push(("derived", J::B(derived)));
    let (f, l, m) = span_j(tcx, tcx.def_span(impl_did));
    v.push(("file", f));
    v.push(("line", l));
    v.push(("mac", m));
    // associated items
    let mut items = Vec::new();
    for it in tcx.associated_items(impl_did).in_definition_order() {
        items.push(J::A(vec![J::S(format!("{:?}", it.tag())), J::S(it.name().to_string()), J::S(key(tcx, it.def_id))]));
    }
    v.push(("items", J::A(items)));
    J::obj(v)
}

fn parse_configs() -> Vec<(u64, u64)> {
    let s = std::env::var("MIRFACTS_CONFIGS").unwrap_or_default();
    let mut v = Vec::new();
    for part in s.split(';') {
        let mut it = part.split(',');
        if let (Some(a), Some(b)) = (it.next(), it.next()) {
            if let (Ok(a), Ok(b)) = (a.trim().parse(), b.trim().parse()) {
                v.push((a, b));
            }
        }
    }
    v
}

fn mk_usize<'tcx>(tcx: TyCtxt<'tcx>, v: u64) -> ty::Const<'tcx> {
    let si = ty::ScalarInt::try_from_target_usize(v as u128, tcx).unwrap();
    ty::Const::new_value(tcx, ty::ValTree::from_scalar_int(tcx, si), tcx.types.usize)
}

fn eval_value_j<'tcx>(tcx: TyCtxt<'tcx>, did: DefId, args: GenericArgsRef<'tcx>) -> Option<J> {
    let ty = tcx.type_of(did).instantiate(tcx, args).skip_norm_wip();
    let ok = match ty.kind() {
        ty::TyKind::Bool | ty::TyKind::Int(_) | ty::TyKind::Uint(_) | ty::TyKind::Char => true,
        ty::TyKind::Ref(_, t, _) if t.is_str() => true,
        _ => false,
    };
    if !ok {
        return None;
    }
    let inst = Instance::new_raw(did, args);
    let r = tcx.const_eval_instance(TypingEnv::fully_monomorphized(), inst, DUMMY_SP);
    match r {
        Ok(cv) => {
            if let Some(si) = cv.try_to_scalar_int() {
                Some(J::U(si.to_bits_unchecked()))
            } else if let Some(b) = cv.try_get_slice_bytes_for_diagnostics(tcx) {
                Some(J::S(String::from_utf8_lossy(b).to_string()))
            } else {
                None
            }
        }
        Err(_) => None,
    }
}

fn dump<'tcx>(tcx: TyCtxt<'tcx>, crate_name: &str) -> J {
    let mut bodies = Vec::new();
    let mut configs = parse_configs();
    // add every well-formed concrete (BITS, LIMBS) pair that occurs in an impl header or alias
    {
        let items = tcx.hir_crate_items(());
        let mut texts = Vec::new();
        for ldid in items.definitions() {
            let did = ldid.to_def_id();
            match tcx.def_kind(did) {
                DefKind::Impl { of_trait } => {
                    texts.push(ty_str(tcx.type_of(did).instantiate_identity().skip_norm_wip()));
                    if of_trait {
                        let tr = tcx.impl_trait_ref(did).instantiate_identity().skip_norm_wip();
                        texts.push(with_no_trimmed_paths!(format!("{}", tr)));
                    }
                }
                DefKind::TyAlias => texts.push(ty_str(tcx.type_of(did).instantiate_identity().skip_norm_wip())),
                _ => {}
            }
        }
        for t in texts {
            let mut rest = t.as_str();
            while let Some(i) = rest.find("Uint<") {
                rest = &rest[i + 5..];
                let end = rest.find('>').unwrap_or(0);
                let inner = &rest[..end];
                let mut it = inner.split(',');
                if let (Some(a), Some(b)) = (it.next(), it.next()) {
                    if let (Ok(a), Ok(b)) = (a.trim().parse::<u64>(), b.trim().parse::<u64>()) {
                        if b == (a + 63) / 64 && !configs.contains(&(a, b)) {
                            configs.push((a, b));
                        }
                    }
                }
            }
        }
    }
    let mut keys_seen: std::collections::HashMap<String, u32> = Default::default();

    let mut uniq = |k: String| -> String {
        let n = keys_seen.entry(k.clone()).or_insert(0);
        *n += 1;
        if *n == 1 { k } else { format!("{}#{}", k, *n) }
    };

    let mut mir_keys: Vec<LocalDefId> = tcx.mir_keys(()).iter().copied().collect();
    mir_keys.sort_by_key(|d| tcx.def_span(d.to_def_id()).lo());
    for ldid in mir_keys {
        let did = ldid.to_def_id();
        let kind = tcx.def_kind(did);
        let is_const = matches!(
            kind,
            DefKind::Const { .. } | DefKind::AssocConst { .. } | DefKind::InlineConst | DefKind::Static { .. }
        );
        let is_fn = matches!(kind, DefKind::Fn | DefKind::AssocFn | DefKind::Closure | DefKind::Ctor(..));
        if !is_const && !is_fn {
            continue;
        }
        if matches!(kind, DefKind::Ctor(..)) {
            continue;
        }
        let body: &Body<'tcx> = if is_const { tcx.mir_for_ctfe(did) } else { tcx.optimized_mir(did) };
        let cx = Cx { tcx, env: TypingEnv::post_analysis(tcx, did), owner: did };
        let _ = cx.owner;
        let k = uniq(key(tcx, did));
        let (file, line, macros) = span_j(tcx, tcx.def_span(did));
        let mut v: Vec<(&'static str, J)> = vec![
            ("key", J::S(k)),
            ("kind", J::S(format!("{:?}", kind).split(|c: char| !c.is_alphanumeric()).next().unwrap_or("").to_string())),
            ("name", J::S(tcx.opt_item_name(did).map(|s| s.to_string()).unwrap_or_default())),
            ("file", file),
            ("line", line),
            ("mac", macros),
            ("generics", generics_j(tcx, did)),
        ];
        // parent impl / trait
        let typeck_root = tcx.typeck_root_def_id(did);
        if typeck_root != did {
            v.push(("root", J::S(key(tcx, typeck_root))));
        }
        if let Some(parent) = tcx.opt_parent(typeck_root) {
            match tcx.def_kind(parent) {
                DefKind::Impl { .. } => {
                    v.push(("impl", J::S(key(tcx, parent))));
                }
                DefKind::Trait => {
                    v.push(("in_trait", J::S(key(tcx, parent))));
                }
                _ => {}
            }
            v.push(("module", J::S(key(tcx, tcx.parent_module_from_def_id(typeck_root.expect_local()).to_def_id()))));
        }
        if matches!(kind, DefKind::Fn | DefKind::AssocFn) {
            let vis = tcx.visibility(did);
            v.push(("vis", J::S(if vis.is_public() { "pub".into() } else { format!("{:?}", vis) })));
            let sig = tcx.fn_sig(did).instantiate_identity().skip_norm_wip().skip_binder();
            let sig = tcx.try_normalize_erasing_regions(TypingEnv::post_analysis(tcx, did), rustc_type_ir::Unnormalized::new_wip(sig)).unwrap_or(sig);
            v.push(("unsafe", J::B(format!("{:?}", sig.safety()).contains("Unsafe"))));
            v.push(("inputs", J::A(sig.inputs().iter().map(|t| ty_j(tcx, *t)).collect())));
            v.push(("output", ty_j(tcx, sig.output())));
            v.push(("sig_s", J::S(with_crate_prefix!(with_no_visible_paths!(with_no_trimmed_paths!(format!("{}", sig)))))));
            v.push(("const_fn", J::B(tcx.is_const_fn(did))));
            if let Some(ai) = tcx.opt_associated_item(did) {
                if let Some(tid) = ai.trait_item_def_id() {
                    v.push(("trait_item", J::S(key(tcx, tid))));
                }
            }
        }
        if matches!(kind, DefKind::Const { .. } | DefKind::AssocConst { .. }) {
            let vis = tcx.visibility(did);
            v.push(("vis", J::S(if vis.is_public() { "pub".into() } else { format!("{:?}", vis) })));
            let t = tcx.type_of(did).instantiate_identity().skip_norm_wip();
            v.push(("output", ty_j(tcx, t)));
            if let Some(ai) = tcx.opt_associated_item(did) {
                if let Some(tid) = ai.trait_item_def_id() {
                    v.push(("trait_item", J::S(key(tcx, tid))));
                }
            }
            // evaluate concrete constants / constants generic over exactly (BITS, LIMBS)
            let g = tcx.generics_of(did);
            let total = g.count();
            if total == 0 {
                let args = ty::GenericArgs::identity_for_item(tcx, did);
                if let Some(j) = eval_value_j(tcx, did, args) {
                    v.push(("value", j));
                }
            } else if total == 2 && want_eval(&key(tcx, did)) {
                let names: Vec<String> = {
                    let mut n = Vec::new();
                    let mut cur = Some(g);
                    let mut st = Vec::new();
                    while let Some(gg) = cur {
                        st.push(gg);
                        cur = gg.parent.map(|p| tcx.generics_of(p));
                    }
                    for gg in st.iter().rev() {
                        for p in &gg.own_params {
                            if matches!(p.kind, ty::GenericParamDefKind::Const { .. }) {
                                n.push(p.name.to_string());
                            }
                        }
                    }
                    n
                };
                if names == ["BITS", "LIMBS"] {
                    let mut per = Vec::new();
                    for (b, l) in &configs {
                        let args = tcx.mk_args(&[mk_usize(tcx, *b).into(), mk_usize(tcx, *l).into()]);
                        if let Some(j) = eval_value_j(tcx, did, args) {
                            per.push(J::A(vec![J::U(*b as u128), J::U(*l as u128), j]));
                        }
                    }
                    v.push(("values", J::A(per)));
                }
            }
        }
        v.extend(cx.body(body));
        if is_fn {
            // promoted constants (`&CONST` temporaries): exported so that a reference to e.g. Uint::ZERO is recognisable
            let proms = tcx.promoted_mir(did);
            if !proms.is_empty() {
                let mut pj = Vec::new();
                for pb in proms.iter() {
                    pj.push(J::obj(cx.body(pb)));
                }
                v.push(("promoted", J::A(pj)));
            }
        }
        bodies.push(J::obj(v));
    }

    // impl headers, aliases, struct fields
    let mut impls = Vec::new();
    let mut aliases = Vec::new();
    let mut structs = Vec::new();
    let mut traits = Vec::new();
    let items = tcx.hir_crate_items(());
    for ldid in items.definitions() {
        let did = ldid.to_def_id();
        match tcx.def_kind(did) {
            DefKind::Impl { .. } => impls.push(impl_header_j(tcx, did)),
            DefKind::TyAlias => {
                let t = tcx.type_of(did).instantiate_identity().skip_norm_wip();
                let (f, l, _m) = span_j(tcx, tcx.def_span(did));
                aliases.push(J::obj(vec![
                    ("key", J::S(key(tcx, did))),
                    ("generics", generics_j(tcx, did)),
                    ("ty", ty_j(tcx, t)),
                    ("s", J::S(ty_str(t))),
                    ("vis", J::B(tcx.visibility(did).is_public())),
                    ("file", f),
                    ("line", l),
                ]));
            }
            DefKind::Struct | DefKind::Enum => {
                let adt = tcx.adt_def(did);
                let mut vs = Vec::new();
                for var in adt.variants() {
                    let mut fs = Vec::new();
                    for f in &var.fields {
                        let t = tcx.type_of(f.did).instantiate_identity().skip_norm_wip();
                        fs.push(J::obj(vec![
                            ("name", J::S(f.name.to_string())),
                            ("pub", J::B(f.vis.is_public())),
                            ("vis", J::S(format!("{:?}", f.vis))),
                            ("ty", ty_j(tcx, t)),
                        ]));
                    }
                    vs.push(J::obj(vec![("name", J::S(var.name.to_string())), ("fields", J::A(fs))]));
                }
                structs.push(J::obj(vec![
                    ("key", J::S(key(tcx, did))),
                    ("vis", J::B(tcx.visibility(did).is_public())),
                    ("repr", J::S(format!("{:?}", adt.repr()))),
                    ("variants", J::A(vs)),
                ]));
            }
            DefKind::Trait => {
                traits.push(J::obj(vec![
                    ("key", J::S(key(tcx, did))),
                    ("vis", J::B(tcx.visibility(did).is_public())),
                ]));
            }
            _ => {}
        }
    }

    J::obj(vec![
        ("crate", J::S(crate_name.to_string())),
        ("configs", J::A(configs.iter().map(|(b, l)| J::A(vec![J::U(*b as u128), J::U(*l as u128)])).collect())),
        ("bodies", J::A(bodies)),
        ("impls", J::A(impls)),
        ("aliases", J::A(aliases)),
        ("structs", J::A(structs)),
        ("traits", J::A(traits)),
    ])
}

fn want_eval(k: &str) -> bool {
    // Constants generic over (BITS, LIMBS) that are evaluated per configuration.
    // Only scalar constants are evaluated (eval_value_j filters by type); the
    // name filter avoids evaluating Self-typed constants such as MAX for nothing.
    let _ = k;
    true
}
