#!/usr/bin/env python3
"""Validate the checker itself: apply each case's edit to a scratch worktree of /repo (outside /repo and
/verif), run the property's check against it and require FIRES-and-names-the-instance (breaking edits) or
SILENT (benign, behaviour-preserving edits).  Not evidence for any property.

usage: selftest/run.py [case-name-substring ...]   (--keep to keep the worktree)"""
import json
import os
import shutil
import subprocess
import sys
import tempfile
import time

HERE = os.path.dirname(os.path.abspath(__file__))
VERIF = os.path.dirname(HERE)
sys.path.insert(0, HERE)
from cases import CASES  # noqa: E402


def sh(cmd, **kw):
    return subprocess.run(cmd, stdout=subprocess.PIPE, stderr=subprocess.STDOUT, text=True, **kw)


def main():
    pats = [a for a in sys.argv[1:] if not a.startswith("--")]
    wt = tempfile.mkdtemp(prefix="ruint_selftest_")
    os.rmdir(wt)
    r = sh(["git", "-C", "/repo", "worktree", "add", "--detach", wt, "HEAD"])
    if r.returncode != 0:
        print(r.stdout)
        return 2
    results = []
    try:
        for c in CASES:
            if pats and not any(p in c["name"] for p in pats):
                continue
            t0 = time.time()
            ok_apply = True
            for (path, old, new) in c["edits"]:
                fp = os.path.join(wt, path)
                s = open(fp).read()
                if s.count(old) < 1:
                    ok_apply = False
                    break
                s = s.replace(old, new, 1)
                open(fp, "w").write(s)
            if not ok_apply:
                results.append((c["name"], "STALE", "edit anchor not found in %s" % path))
                sh(["git", "-C", wt, "checkout", "--", "."])
                continue
            env = dict(os.environ, VERIF_REPO=wt, VERIF_EVIDENCE_DIR=os.path.join(wt, ".evidence"))
            out = ""
            fired = False
            named = False
            for prop in c["props"]:
                r = sh([os.path.join(VERIF, "check"), prop, "--tier", "quick"], env=env, cwd=VERIF)
                out += r.stdout
                if r.returncode == 2:
                    results.append((c["name"], "ERROR", r.stdout[-600:]))
                    break
                if "VIOLATION property=" in r.stdout:
                    fired = True
                    if c.get("expect") and c["expect"] in r.stdout:
                        named = True
            else:
                if c["kind"] == "B":
                    if fired and (named or not c.get("expect")):
                        results.append((c["name"], "PASS", "fires and names %s" % c.get("expect")))
                    elif fired:
                        viol = [l for l in out.splitlines() if l.startswith("  R-")][:3]
                        results.append((c["name"], "FAIL", "fires but does not name %r: %s" % (c.get("expect"), viol)))
                    else:
                        results.append((c["name"], "FAIL", "breaking edit not detected"))
                else:
                    if fired:
                        viol = [l for l in out.splitlines() if l.startswith("  R-")][:3]
                        results.append((c["name"], "FAIL", "false alarm on benign edit: %s" % viol))
                    else:
                        results.append((c["name"], "PASS", "silent"))
            sh(["git", "-C", wt, "checkout", "--", "."])
            print("%-6s %-55s %5.1fs  %s" % (results[-1][1], c["name"], time.time() - t0, results[-1][2][:160]), flush=True)
    finally:
        if "--keep" not in sys.argv:
            sh(["git", "-C", "/repo", "worktree", "remove", "--force", wt])
            shutil.rmtree(wt, ignore_errors=True)
    bad = [r for r in results if r[1] != "PASS"]
    print("selftest: %d cases, %d pass, %d not" % (len(results), len(results) - len(bad), len(bad)))
    with open(os.path.join(HERE, "last_result.json"), "w") as fh:
        json.dump([{"case": a, "result": b, "detail": c} for a, b, c in results], fh, indent=1)
    return 1 if bad else 0


if __name__ == "__main__":
    sys.exit(main())
