"""Self-test cases: (name, kind B=breaking|N=benign, properties to run, edits, expected key substring)."""

CASES = []


def B(name, props, edits, expect=None):
    CASES.append({"name": name, "kind": "B", "props": props, "edits": edits, "expect": expect})


def N(name, props, edits):
    CASES.append({"name": name, "kind": "N", "props": props, "edits": edits})


# ---- R-LIMBS
B("limbs-from_limbs-no-mention", ["C04"],
  [("src/lib.rs", "limbs[Self::LIMBS - 1] <= Self::MASK", "limbs[LIMBS - 1] <= Self::MASK"),
   ("src/lib.rs", "        let _ = Self::LIMBS;\n", "")], "R-LIMBS")
B("limbs-new-const", ["C04"],
  [("src/lib.rs", "    /// View the array of limbs.\n", "    /// All ones.\n    pub const ONES: Self = Self { limbs: [u64::MAX; LIMBS] }.masked();\n\n    /// View the array of limbs.\n")],
  "ONES")
N("limbs-helper-check", ["C04"],
  [("src/lib.rs", "        let _ = Self::LIMBS;\n        Self { limbs }.masked()", "        Self::check_limbs();\n        Self { limbs }.masked()"),
   ("src/lib.rs", "    #[inline(always)]\n    fn apply_mask(&mut self) {", "    const fn check_limbs() {\n        let _ = Self::LIMBS;\n    }\n\n    #[inline(always)]\n    fn apply_mask(&mut self) {")])

# ---- R-CANON
B("canon-add-no-mask", ["C04", "C01"],
  [("src/add.rs", "        let overflow = carry | (self.limbs[LIMBS - 1] > Self::MASK);\n        (self.masked(), overflow)",
    "        let overflow = carry | (self.limbs[LIMBS - 1] > Self::MASK);\n        (self, overflow)")], "overflowing_add|return-dirty")
B("canon-shl-no-mask", ["C04", "C05"], [("src/bits.rs", "        r.apply_mask();\n        (r, overflow)", "        (r, overflow)")],
  "overflowing_shl|return-dirty")
B("canon-set_bit-no-guard", ["C04", "C06"],
  [("src/bits.rs", "        if index >= BITS {\n            return;\n        }\n        let (limbs, bits) = (index / 64, index % 64);\n        if value {",
    "        let (limbs, bits) = ((index / 64) % LIMBS, index % 64);\n        if value {")], "set_bit")
B("canon-struct-literal-not", ["C04"],
  [("src/bits.rs", "    pub const fn not(mut self) -> Self {", "    pub const fn not2(self) -> Self {\n        Self::from_limbs_unmasked_raw([!0; LIMBS])\n    }\n\n    /// x\n    #[must_use]\n    pub const fn not(mut self) -> Self {"),
   ("src/lib.rs", "    #[inline(always)]\n    fn apply_mask(&mut self) {", "    pub(crate) const fn from_limbs_unmasked_raw(limbs: [u64; LIMBS]) -> Self {\n        Self { limbs }\n    }\n\n    #[inline(always)]\n    fn apply_mask(&mut self) {")],
  "from_limbs_unmasked_raw")
N("canon-inline-mask", ["C04", "C01"],
  [("src/add.rs", "        (self.masked(), overflow)\n    }\n\n    /// Calculates $\\mod{-\\mathtt{self}}",
    "        if LIMBS > 0 {\n            self.limbs[LIMBS - 1] &= Self::MASK;\n        }\n        (self, overflow)\n    }\n\n    /// Calculates $\\mod{-\\mathtt{self}}")])

# ---- R-MUTREF / R-MASKKIND / R-WF
B("mutref-safe-as_limbs_mut", ["C04"], [("src/lib.rs", "    pub unsafe fn as_limbs_mut(&mut self)", "    pub fn as_limbs_mut(&mut self)")], "R-MUTREF")
B("maskkind-rem", ["C07"], [("src/from.rs", "            limbs[1] &= Self::MASK;", "            limbs[1] %= Self::MASK;")], "R-MASKKIND")
N("maskkind-commuted", ["C07", "C04"], [("src/from.rs", "limbs[0] = value & Self::MASK;", "limbs[0] = Self::MASK & value;")])
B("wf-bad-alias", ["C04"], [("src/aliases.rs", "pub type U0 = Uint<0, 0>;", "pub type U0 = Uint<0, 0>;\n/// bad\npub type U96 = Uint<96, 1>;")], "R-WF")

# ---- R-FACADE
B("facade-sub-to-add", ["C20"], [("src/add.rs", "impl_bin_op!(Sub, sub, SubAssign, sub_assign, wrapping_sub);", "impl_bin_op!(Sub, sub, SubAssign, sub_assign, wrapping_add);")], "Sub")
B("facade-checked_mul-wrapping", ["C20"],
  [("src/support/num_traits.rs", "        <Self>::checked_mul(*self, *other)", "        Some(<Self>::wrapping_mul(*self, *other))")], "CheckedMul")
B("facade-wrapping_shl-to-shr", ["C20"],
  [("src/support/num_traits.rs", "        <Self>::wrapping_shl(*self, rhs as usize)", "        <Self>::wrapping_shr(*self, rhs as usize)")], "WrappingShl")
B("facade-bits-rotate", ["C20"],
  [("src/bit_arr.rs", "        fn rotate_left(self, rhs: usize) -> Self;\n", ""),
   ("src/bit_arr.rs", "    forward! {\n        fn try_from_be_slice(bytes: &[u8]) -> Option<Self>;",
    "    /// x\n    #[must_use]\n    pub fn rotate_left(self, rhs: usize) -> Self {\n        Self(self.0.rotate_right(rhs))\n    }\n    forward! {\n        fn try_from_be_slice(bytes: &[u8]) -> Option<Self>;")],
  "rotate_left")
B("facade-product-zero", ["C20"], [("src/mul.rs", "iter.fold(Self::ONE, Self::wrapping_mul)", "iter.fold(Self::ZERO, Self::wrapping_mul)")], "Product")

# ---- R-TOTAL / guards
B("total-try_from_be-no-len-guard", ["C08"],
  [("src/bytes.rs", "    pub const fn try_from_be_slice(bytes: &[u8]) -> Option<Self> {\n        if bytes.len() > Self::BYTES {\n            return None;\n        }\n",
    "    pub const fn try_from_be_slice(bytes: &[u8]) -> Option<Self> {\n")], "try_from_be_slice")
B("total-fast-path-no-check", ["C08", "C17"],
  [("src/bytes.rs", "            if Self::LIMBS > 0 && limbs[Self::LIMBS - 1] > Self::MASK {\n                return None;\n            }\n            return Some(Self::from_limbs(limbs));\n        }\n\n        let mut limbs = [0; LIMBS];\n        let mut i = 0;\n        let mut c = bytes.len();",
    "            return Some(Self::from_limbs(limbs));\n        }\n\n        let mut limbs = [0; LIMBS];\n        let mut i = 0;\n        let mut c = bytes.len();")], "from_limbs")
B("total-checked_rem-no-guard", ["C03"],
  [("src/div.rs", "    pub fn checked_rem(self, rhs: Self) -> Option<Self> {\n        if rhs.is_zero() {\n            return None;\n        }\n", "    pub fn checked_rem(self, rhs: Self) -> Option<Self> {\n")],
  "checked_rem")
B("total-mul_mod-no-guard", ["C10"],
  [("src/modular.rs", "        if modulus.is_zero() {\n            return Self::ZERO;\n        }\n\n        // Allocate", "        // Allocate")], "mul_mod")
B("total-ssz-from_le_slice", ["C17"],
  [("src/support/ssz.rs", """        Self::try_from_le_slice(bytes).ok_or_else(|| {
            DecodeError::BytesInvalid(alloc::format!(
                "value is larger than fits the {BITS}-bit Uint"
            ))
        })""", "        Ok(Self::from_le_slice(bytes))")],
  "from_le_slice")
B("total-postgres-numeric-len", ["C17"],
  [("src/support/postgres.rs", "                if raw.len() < 8 {\n                    return Err(Box::new(FromSqlError::ParseError(ty.clone())));\n                }\n                let digits", "                let digits")],
  "from_sql")
B("total-todo", ["C03"], [("src/special.rs", "        self.checked_next_multiple_of(rhs).unwrap()\n", "        let _ = self.checked_next_multiple_of(rhs).unwrap();\n        todo!()\n")], "R-UNIMPL")
N("total-guard-as-match", ["C08"],
  [("src/bytes.rs", "    pub const fn try_from_le_slice(bytes: &[u8]) -> Option<Self> {\n        if bytes.len() > Self::BYTES {\n            return None;\n        }\n",
    "    pub const fn try_from_le_slice(bytes: &[u8]) -> Option<Self> {\n        let n = bytes.len();\n        match n > Self::BYTES {\n            true => return None,\n            false => {}\n        }\n")])

# ---- R-FLAG / R-LOWLIMB / R-VARIANT
B("flag-add-drop-mask-compare", ["C01"],
  [("src/add.rs", "        let overflow = carry | (self.limbs[LIMBS - 1] > Self::MASK);", "        let overflow = carry;")], "overflowing_add|mask-discard")
B("flag-pow-drop-base-overflow", ["C13"], [("src/pow.rs", "                overflow |= o | base_overflow;", "                overflow |= o;"),
                                         ("src/pow.rs", "            base_overflow |= o;", "            let _ = o;")], "R-FLAG")
B("flag-shl-drop-window-scan", ["C05"],
  [("src/bits.rs", "        for i in Self::LIMBS - limbs..Self::LIMBS {\n            overflow |= self.limbs[i] != 0;\n        }\n", "")], "overflowing_shl|window-discard")
B("lowlimb-shl-uint-low-limb", ["C05"],
  [("src/bits.rs", "        match usize::try_from(rhs) {\n            Ok(rhs) => self.wrapping_shl(rhs),\n            Err(_) => Self::ZERO,\n        }",
    "        self.wrapping_shl(rhs.as_limbs()[0] as usize)")], "R-LOWLIMB")
B("variant-saturating_sub-max", ["C01"], [("src/add.rs", "            (value, false) => value,\n            _ => Self::ZERO,", "            (value, false) => value,\n            _ => Self::MAX,")], "saturating_sub|bound")
B("variant-wrapping_to-max-field", ["C07"], [("src/from.rs", "            Ok(n) | Err(FromUintError::Overflow(_, n, _)) => n,", "            Ok(n) | Err(FromUintError::Overflow(_, _, n)) => n,")], "wrapping_to|payload")
N("flag-rename-and-reorder", ["C01"],
  [("src/add.rs", "        let overflow = carry | (self.limbs[LIMBS - 1] > Self::MASK);\n        (self.masked(), overflow)",
    "        let top_overflow = self.limbs[LIMBS - 1] > Self::MASK;\n        let o = top_overflow | carry;\n        (self.masked(), o)")])

# ---- R-TABLE / R-FLOAT / R-GUARD / R-SIBLING / R-CODEC / R-MACRO
B("table-base36-a-to-y", ["C09"], [("src/string.rs", "                    'a'..='z' => u64::from(c) - u64::from('a') + 10,", "                    'a'..='y' => u64::from(c) - u64::from('a') + 10,")], "radix<=36")
B("table-plus-is-63", ["C09"], [("src/string.rs", "                    '+' | '-' => 62,", "                    '+' | '-' => 63,")], "radix>36")
B("table-octal-prefix-16", ["C09"], [("src/string.rs", "                \"0o\" | \"0O\" => (rest, 8),", "                \"0o\" | \"0O\" => (rest, 16),")], "prefix:0o")
B("table-octal-width-22", ["C09"], [("src/fmt.rs", "        const WIDTH: usize = 21;", "        const WIDTH: usize = 22;")], "fmt:Octal:MAX")
N("table-alphabet-arms-reordered", ["C09"],
  [("src/string.rs", "                    '0'..='9' => u64::from(c) - u64::from('0'),\n                    'a'..='z' => u64::from(c) - u64::from('a') + 10,",
    "                    'a'..='z' => u64::from(c) - 97 + 10,\n                    '0'..='9' => u64::from(c) - u64::from('0'),")])
N("table-hex-smaller-chunk", ["C09"], [("src/fmt.rs", "        const MAX: u64 = 1 << 60;\n        const WIDTH: usize = 15;", "        const MAX: u64 = 1 << 56;\n        const WIDTH: usize = 14;")])
B("float-scale-before-to_bits", ["C18"], [("src/from.rs", "        let bits = value.to_bits();\n        let sign = bits >> 63;", "        let value = value * 1.000_000_000_000_000_2;\n        let bits = value.to_bits();\n        let sign = bits >> 63;")], "rounding-before-to_bits")
B("guard-alloy-no-leading-zero", ["C17"],
  [("src/support/alloy_rlp.rs", "        if !bytes.is_empty() && bytes[0] == 0 {\n            return Err(Error::LeadingZero);\n        }\n", "")], "LeadingZero")
B("guard-checked_copy-no-len", ["C08"],
  [("src/bytes.rs", "    pub fn checked_copy_be_bytes_to(&self, buf: &mut [u8]) -> Option<usize> {\n        if buf.len() < Self::BYTES {\n            return None;\n        }\n",
    "    pub fn checked_copy_be_bytes_to(&self, buf: &mut [u8]) -> Option<usize> {\n")], "checked_copy_be")
B("sibling-ct_gt-swapped", ["C20"], [("src/support/subtle.rs", "            greater |= equal & l.ct_gt(r);", "            greater |= equal & r.ct_gt(l);")], "ct_gt")
B("sibling-select-swapped", ["C20"], [("src/support/subtle.rs", "            *limb = u64::conditional_select(a, b, choice);", "            *limb = u64::conditional_select(b, a, choice);")], "conditional_select")
B("sibling-ct_lt-zip-misaligned", ["C20"], [("src/support/subtle.rs", "            .zip(rhs.as_limbs().iter().rev())\n        {\n            less |=", "            .zip(rhs.as_limbs().iter())\n        {\n            less |=")], "ct_lt|positions")
N("sibling-ct_gt-via-u64-ct_lt", ["C20"], [("src/support/subtle.rs", "            greater |= equal & l.ct_gt(r);", "            greater |= equal & r.ct_lt(l);")])
N("sibling-ct_gt-delegates-to-ct_lt", ["C20"], [("src/support/subtle.rs", "        let mut equal = Choice::from(1); // True\n        let mut greater = Choice::from(0); // False\n\n        // Iterate limbs in big-endian order.\n        for (l, r) in self\n            .as_limbs()\n            .iter()\n            .rev()\n            .zip(rhs.as_limbs().iter().rev())\n        {\n            greater |= equal & l.ct_gt(r);\n            equal &= l.ct_eq(r);\n        }\n        greater\n", "        rhs.ct_lt(self)\n")])
N("sibling-ct_eq-full-range-index", ["C20"], [("src/support/subtle.rs", "        self.as_limbs().ct_eq(rhs.as_limbs())", "        self.limbs[..].ct_eq(&rhs.limbs[..])")])
B("codec-ssz-big-endian", ["C16"], [("src/support/ssz.rs", "        buf.extend_from_slice(&self.as_le_bytes());", "        buf.extend_from_slice(&self.to_be_bytes_vec());")], "ssz")
N("codec-scale-to_le_bytes_vec", ["C16"], [("src/support/ssz.rs", "        buf.extend_from_slice(&self.as_le_bytes());", "        buf.extend_from_slice(&self.to_le_bytes_vec());")])
B("macro-pad_limbs-no-mask-test", ["C19"], [("ruint-macro/src/lib.rs", "    if limbs.len() > num_limbs || limbs.last().copied().unwrap_or(0) > mask {", "    let _ = mask;\n    if limbs.len() > num_limbs {")], "C19")
B("macro-error-swallowed", ["C19"], [("ruint-macro/src/lib.rs", "                    Err(message) => error(span, &message),", "                    Err(_message) => TokenTree::Literal(Literal::u8_suffixed(0)),")], "C19")
N("facade-qualified-path-style", ["C20"], [("src/support/num_traits.rs", "        <Self>::checked_add(*self, *other)", "        let (a, b) = (*self, *other);\n        Uint::checked_add(a, b)")])

# ---- round-2 seeds turned into self-tests
_FUSED = ("        // OPT: Expose actual merged mul_add algo.\n        (self * a) + b",
          "        let mut limbs = b.into_limbs();\n        crate::algorithms::addmul_n(&mut limbs, self.as_limbs(), a.as_limbs());\n")
B("facade-fused-mul_add-from_limbs", ["C20"],
  [("src/support/num_traits.rs", _FUSED[0], _FUSED[1] + "        Self::from_limbs(limbs)")], "mul_add")
N("facade-fused-mul_add-masked", ["C20"],
  [("src/support/num_traits.rs", _FUSED[0], _FUSED[1] + "        if LIMBS > 0 {\n            limbs[LIMBS - 1] &= Self::MASK;\n        }\n        Self::from_limbs(limbs)")])
N("facade-mul_add_assign-delegates", ["C20"],
  [("src/support/num_traits.rs", "        *self *= a;\n        *self += b;", "        *self = MulAdd::mul_add(*self, a, b);")])
N("lowlimb-roundtrip-unsigned-check", ["C07"],
  [("src/from.rs", "        if value.bit_len() > 1 {\n            return Err(Self::Error::Overflow(BITS, value.bit(0), true));\n        }\n        Ok(value.as_limbs()[0] != 0)",
    "        let low = value.limbs[0];\n        if low > 1 || value.limbs[1..].iter().any(|&limb| limb != 0) {\n            return Err(Self::Error::Overflow(BITS, value.bit(0), true));\n        }\n        Ok(low != 0)")])
B("macro-hex-B-after-prefix", ["C19"],
  [("ruint-macro/src/lib.rs", "&& !value.ends_with('_')", "&& value.ends_with(|c: char| c.is_ascii_hexdigit())")], "hex-B-grid")
B("bytes-fast-path-no-range-check", ["C08"],
  [("src/bytes.rs", "            if Self::LIMBS > 0 && limbs[Self::LIMBS - 1] > Self::MASK {\n                return None;\n            }\n            return Some(Self::from_limbs(limbs));",
    "            return Some(Self::from_limbs(limbs));")], "from_limbs")

# ---- R-CASTFIT
B("castfit-signed-capacity-off-by-one", ["C07"],
  [("src/from.rs", "if SIGNED { <$int>::BITS - 1 } else { <$int>::BITS }", "if SIGNED { <$int>::BITS } else { <$int>::BITS }")],
  "cast->i8")
B("castfit-i128-bound-128", ["C07"],
  [("src/from.rs", "        if value.bit_len() > 127 {", "        if value.bit_len() > 128 {")], "->i128")
B("castfit-roundtrip-signed", ["C07"],
  [("src/from.rs", "                if value.bit_len() > CAPACITY {\n                    return Err(Self::Error::Overflow(\n                        BITS,\n                        value.limbs[0] as Self,\n                        Self::MAX,\n                    ));\n                }\n                Ok(value.as_limbs()[0] as Self)",
    "                let low = value.limbs[0];\n                let result = low as Self;\n                if result as u64 != low || value.limbs[1..].iter().any(|&limb| limb != 0) {\n                    return Err(Self::Error::Overflow(BITS, result, Self::MAX));\n                }\n                Ok(result)")],
  "cast->i64")
N("castfit-leading_zeros-form", ["C07"],
  [("src/from.rs", "                if value.bit_len() > CAPACITY {\n                    return Err(Self::Error::Overflow(",
    "                if BITS > CAPACITY && value.leading_zeros() < BITS - CAPACITY {\n                    return Err(Self::Error::Overflow(")])
N("castfit-direct-limb-compare", ["C07"],
  [("src/from.rs", "                if value.bit_len() > CAPACITY {\n                    return Err(Self::Error::Overflow(",
    "                if value.limbs[0] > (Self::MAX as u64) || value.bit_len() > 64 {\n                    return Err(Self::Error::Overflow(")])

# ---- R-TOTAL/overflow-checks
B("ovf-postgres-i16-add", ["C17"],
  [("src/support/postgres.rs", "|| i32::from(digits) > i32::from(exponent) + 1\n", "|| digits > exponent + 1\n")], "Overflow(Add")
B("ovf-bytes-len-minus", ["C08"],
  [("src/bytes.rs", "        let mut c = bytes.len();\n        while i < bytes.len() {\n            c -= 1;",
    "        let mut c = bytes.len() - 1;\n        while i < bytes.len() {\n            c -= 0;")], "Overflow(Sub")
N("ovf-from_base_be-casts", ["C09", "C17"],
  [("src/base_convert.rs", "                carry += u128::from(*limb) * u128::from(base);\n                *limb = carry as u64;\n                carry >>= 64;\n            }\n            if carry > 0 || (LIMBS != 0",
    "                carry = carry + (*limb as u128) * (base as u128);\n                *limb = carry as u64;\n                carry >>= 64;\n            }\n            if carry > 0 || (LIMBS != 0")])

# ---- R-FLOAT Uint->float: at most one inexact step
B("float-f32-through-f64", ["C18"],
  [("src/from.rs", "        let (bits, exponent) = value.most_significant_bits();\n        (bits as Self) * (exponent as Self).exp2()\n    }\n}\n\n#[cfg(feature = \"std\")]\nimpl<const BITS: usize, const LIMBS: usize> From<Uint<BITS, LIMBS>> for f64",
    "        f64::from(value) as Self\n    }\n}\n\n#[cfg(feature = \"std\")]\nimpl<const BITS: usize, const LIMBS: usize> From<Uint<BITS, LIMBS>> for f64")],
  "rounds more than once")
N("float-mul-commuted", ["C18"],
  [("src/from.rs", "        (bits as Self) * (exponent as Self).exp2()\n    }\n}\n\n#[cfg(feature = \"std\")]\nimpl<const BITS: usize, const LIMBS: usize> From<Uint<BITS, LIMBS>> for f64",
    "        let scale = (exponent as Self).exp2();\n        scale * (bits as Self)\n    }\n}\n\n#[cfg(feature = \"std\")]\nimpl<const BITS: usize, const LIMBS: usize> From<Uint<BITS, LIMBS>> for f64")])

# ---- R-FLAG/flag-range and the family-relative R-VARIANT (round-3 seed C01)
B("flagrange-neg-not-plus-one", ["C01"],
  [("src/add.rs", "        Self::ZERO.overflowing_sub(self)\n", "        let (value, carry) = self.not().overflowing_add(Self::ONE);\n        (value, !carry)\n")],
  "overflowing_neg|flag-range")
N("flagrange-neg-not-plus-one-guarded", ["C01", "C20"],
  [("src/add.rs", "        Self::ZERO.overflowing_sub(self)\n", "        if BITS == 0 {\n            return (Self::ZERO, false);\n        }\n        let (value, carry) = self.not().overflowing_add(Self::ONE);\n        (value, !carry)\n")])
B("variant-wrapping_sub-other-kernel", ["C01"],
  [("src/add.rs", "        self.overflowing_sub(rhs).0\n", "        self.overflowing_add(rhs).0\n")],
  "wrapping_sub|kernel")

# ---- D-zero is flow-aware: a write between the non-zero test and the division kills the guard
B("dzero-divisor-mutated-after-test", ["C10"],
  [("src/modular.rs", "        if modulus.is_zero() {\n            return Self::ZERO;\n        }\n\n        // Allocate at least",
    "        if modulus.is_zero() {\n            return Self::ZERO;\n        }\n        modulus >>= 1;\n\n        // Allocate at least")],
  "mul_mod->algorithms::div::div")
N("dzero-unrelated-later-assignment", ["C10"],
  [("src/algorithms/gcd/mod.rs", "            // will make a lot of progress since `q` will be large.\n            let q = a / b;\n            a -= q * b;\n            swap(&mut a, &mut b);\n            t0 -= q * t1;",
    "            // will make a lot of progress since `q` will be large.\n            if b == Uint::ONE {\n                a = b;\n                t0 = t1;\n                even = !even;\n                break;\n            }\n            let q = a / b;\n            a -= q * b;\n            swap(&mut a, &mut b);\n            t0 -= q * t1;")])

# ---- R-CODEC/compact-modes (round-3 seed C16)
B("compact-big4-strict-bound", ["C16"],
  [("src/support/scale.rs", "                    if x > u32::MAX >> 2 {", "                    if x > 1 << 30 {")], "big-4")
N("compact-canonical-tightening", ["C16", "C17"],
  [("src/support/scale.rs", "                if (0b0011_1111..=0b0011_1111_1111_1111).contains(&x) {", "                if (1 << 6..1 << 14).contains(&x) {"),
   ("src/support/scale.rs", "                if (0b0011_1111_1111_1111..=u32::MAX >> 2).contains(&x) {", "                if (1 << 14..1 << 30).contains(&x) {")])
B("compact-two-byte-too-tight", ["C16"],
  [("src/support/scale.rs", "                if (0b0011_1111..=0b0011_1111_1111_1111).contains(&x) {", "                if (1 << 6..(1 << 14) - 1).contains(&x) {")], "two-byte")

# ---- R-GUARD/fixed-length (defect F17, found by the rule; the breaking case re-creates it)
B("fixedlen-ssz-accepts-short", ["C17"],
  [("src/support/ssz.rs", "        if bytes.len() != nbytes(BITS) {", "        if bytes.len() > nbytes(BITS) {")], "from_ssz_bytes|length")
N("fixedlen-ssz-match-form", ["C17", "C16"],
  [("src/support/ssz.rs", "        if bytes.len() != nbytes(BITS) {\n            return Err(DecodeError::InvalidByteLength {\n                len:      bytes.len(),\n                expected: nbytes(BITS),\n            });\n        }\n",
    "        let expected = nbytes(BITS);\n        match bytes.len() == expected {\n            true => {}\n            false => {\n                return Err(DecodeError::InvalidByteLength {\n                    len: bytes.len(),\n                    expected,\n                })\n            }\n        }\n")])

# ---- R-GUARD/slice-length (C08): Some only for len <= BYTES (seed Q4/C08, re-created)
B("slicelen-fast-path-before-length-check", ["C08"],
  [("src/bytes.rs", "    pub const fn try_from_be_slice(bytes: &[u8]) -> Option<Self> {\n        if bytes.len() > Self::BYTES {\n            return None;\n        }\n\n        if Self::BYTES % 8 == 0 && bytes.len() == Self::BYTES {",
    "    pub const fn try_from_be_slice(bytes: &[u8]) -> Option<Self> {\n        if bytes.len() > Self::BYTES && bytes.len() != LIMBS * 8 {\n            return None;\n        }\n\n        if bytes.len() == LIMBS * 8 {")], "try_from_be_slice|length")
N("slicelen-check-spelled-backwards", ["C08"],
  [("src/bytes.rs", "    pub const fn try_from_be_slice(bytes: &[u8]) -> Option<Self> {\n        if bytes.len() > Self::BYTES {\n            return None;\n        }\n",
    "    pub const fn try_from_be_slice(bytes: &[u8]) -> Option<Self> {\n        let n = bytes.len();\n        if !(n <= Self::BYTES) {\n            return None;\n        }\n")])

# ---- R-FLAG mask-discard: a flag computed from the whole value beforehand is not a finding
N("idiom-shl-flag-from-leading_zeros", ["C05"],
  [("src/bits.rs", "        let mut overflow = carry != 0;\n        for i in Self::LIMBS - limbs..Self::LIMBS {\n            overflow |= self.limbs[i] != 0;\n        }\n        overflow |= r.limbs[Self::LIMBS - 1] > Self::MASK;\n        r.apply_mask();",
    "        let _ = carry;\n        let overflow = !self.is_zero() && rhs > self.leading_zeros();\n        r.apply_mask();")])
# ---- context-sensitive discharge: a helper with a precondition called with the precondition established
N("idiom-shl-in-place-with-helper-and-copy_within", ["C05"],
  [("src/bits.rs", "use crate::Uint;\nuse core::ops::{", "use crate::{algorithms, Uint};\nuse core::ops::{"),
   ("src/bits.rs", "    pub fn overflowing_shl(self, rhs: usize) -> (Self, bool) {", "    pub fn overflowing_shl(mut self, rhs: usize) -> (Self, bool) {"),
   ("src/bits.rs", "        let word_bits = 64;\n        let mut r = Self::ZERO;\n        let mut carry = 0;\n        for i in 0..Self::LIMBS - limbs {\n            let x = self.limbs[i];\n            r.limbs[i + limbs] = (x << bits) | carry;\n            carry = (x >> (word_bits - bits - 1)) >> 1;\n        }\n        // The bits shifted out are the final carry, the limbs above the\n        // shifted window and the bits above `BITS` in the last limb.\n        let mut overflow = carry != 0;\n        for i in Self::LIMBS - limbs..Self::LIMBS {\n            overflow |= self.limbs[i] != 0;\n        }\n        overflow |= r.limbs[Self::LIMBS - 1] > Self::MASK;\n        r.apply_mask();\n        (r, overflow)",
    "        let mut overflow = false;\n        for i in LIMBS - limbs..LIMBS {\n            overflow |= self.limbs[i] != 0;\n        }\n        self.limbs.copy_within(..LIMBS - limbs, limbs);\n        self.limbs[..limbs].fill(0);\n        if bits != 0 {\n            overflow |= algorithms::shift_left_small(&mut self.limbs, bits) != 0;\n        }\n        overflow |= self.limbs[LIMBS - 1] > Self::MASK;\n        self.apply_mask();\n        (self, overflow)")])
B("copy_within-dest-out-of-range", ["C05"],
  [("src/bits.rs", "        let word_bits = 64;\n        let mut r = Self::ZERO;", "        let mut probe = self.limbs;\n        probe.copy_within(..LIMBS - limbs, limbs + 1);\n        let word_bits = 64 + (probe[0] & 0) as usize;\n        let mut r = Self::ZERO;")], "copy_within")

# ---- R-CODEC/rlp-header (C16): 0x80 + n only for n <= 55 (seed Q6/C16, re-created)
B("rlp-short-header-threshold-56", ["C16"],
  [("src/support/alloy_rlp.rs", "const MAX_BITS: usize = 55 * 8;", "const MAX_BITS: usize = 56 * 8;")], "short-header")
N("rlp-short-header-by-payload-length", ["C16"],
  [("src/support/alloy_rlp.rs", "                if bits > MAX_BITS {", "                let _ = MAX_BITS;\n                if trimmed.len() >= 56 {")])

# ---- R-EXTREMES (C06): counting functions can return both extremes (seed Q8/C06, re-created)
B("extremes-byte_len-from-leading_zeros", ["C06"],
  [("src/bits.rs", "        (self.bit_len() + 7) / 8\n", "        Self::BYTES - self.leading_zeros() / 8\n")], "byte_len|extreme")
N("extremes-byte_len-div_ceil", ["C06"],
  [("src/bits.rs", "        (self.bit_len() + 7) / 8\n", "        self.bit_len().div_ceil(8)\n")])
B("extremes-bit_len-off-by-one", ["C06"],
  [("src/bits.rs", "        BITS - self.leading_zeros()\n", "        BITS - self.leading_zeros() + (BITS > 0) as usize\n")], "bit_len|extreme")

# ---- R-CARRY (C01, C02, C15): a carry word is read before it is overwritten
B("carry-add-chain-cut", ["C01"],
  [("src/add.rs", "            (self.limbs[i], carry) = carrying_add(self.limbs[i], rhs.limbs[i], carry);", "            (self.limbs[i], carry) = carrying_add(self.limbs[i], rhs.limbs[i], false);")], "overflowing_add|carry:carrying_add")
B("carry-mul_nx1-chain-cut", ["C15", "C02"],
  [("src/algorithms/mul.rs", "        (*lhs, carry) = u128::muladd(*lhs, a, carry).split();", "        (*lhs, carry) = u128::muladd(*lhs, a, 0).split();")], "mul_nx1|carry:split")
B("carry-sbb_n-borrow-dropped", ["C15"],
  [("src/algorithms/add.rs", "        (lhs[i], borrow) = sbb(lhs[i], rhs[i], borrow);", "        (lhs[i], _) = sbb(lhs[i], rhs[i], borrow);")], "sbb_n|carry:sbb")
N("carry-adc_n-zip-form", ["C15"],
  [("src/algorithms/add.rs", "    for i in 0..lhs.len() {\n        (lhs[i], carry) = adc(lhs[i], rhs[i], carry);\n    }\n    carry", "    for (l, r) in lhs.iter_mut().zip(rhs) {\n        let (sum, c) = adc(*l, *r, carry);\n        *l = sum;\n        carry = c;\n    }\n    carry")])
N("carry-add-chain-through-temp", ["C01"],
  [("src/add.rs", "            (self.limbs[i], carry) = carrying_add(self.limbs[i], rhs.limbs[i], carry);", "            let (sum, c) = carrying_add(self.limbs[i], rhs.limbs[i], carry);\n            self.limbs[i] = sum;\n            carry = c;")])
B("kernel-addmul_nx1-index-past-window", ["C15", "C02"],
  [("src/algorithms/mul.rs", "            addmul_nx1(lhs, &a[..lhs.len()], b);", "            addmul_nx1(lhs, &a[..lhs.len() + 1], b);")], "addmul")

# ---- defect F18 re-created (C15): the zero-amount early return of the shift helpers removed
B("kernel-shift_left_small-zero-amount", ["C15"],
  [("src/algorithms/shift.rs", "pub fn shift_left_small(limbs: &mut [u64], amount: usize) -> u64 {\n    debug_assert!(amount < 64);\n    if amount == 0 {\n        return 0;\n    }\n", "pub fn shift_left_small(limbs: &mut [u64], amount: usize) -> u64 {\n    debug_assert!(amount < 64);\n")], "Overflow(Shr:*limb,Sub(64,amount))")
N("kernel-shift_left_small-zero-amount-match-form", ["C15"],
  [("src/algorithms/shift.rs", "pub fn shift_left_small(limbs: &mut [u64], amount: usize) -> u64 {\n    debug_assert!(amount < 64);\n    if amount == 0 {\n        return 0;\n    }\n", "pub fn shift_left_small(limbs: &mut [u64], amount: usize) -> u64 {\n    debug_assert!(amount < 64);\n    match amount {\n        0 => return 0,\n        _ => {}\n    }\n")])

# ---- R-CODEC/der-length (C16) (seed C16d, re-created) and benign re-spelling
B("der-length-bound-without-sign-byte", ["C16"],
  [("src/support/der.rs", "        if header.length > Length::try_from(Self::BYTES + 1)? {", "        if header.length > Length::try_from(Self::BYTES)? {")], "decode_value|length-bound")
N("der-length-bound-hoisted", ["C16", "C17"],
  [("src/support/der.rs", "        if header.length > Length::try_from(Self::BYTES + 1)? {", "        let longest = 1 + Self::BYTES;\n        let limit = Length::try_from(longest)?;\n        if header.length > limit {")])
# ---- R-FACADE: the delegate call inside a closure handed to a combinator
N("idiom-shl-uint-map_or", ["C05", "C20"],
  [("src/bits.rs", "        match usize::try_from(rhs) {\n            Ok(rhs) => self.wrapping_shl(rhs),\n            Err(_) => Self::ZERO,\n        }", "        usize::try_from(rhs).map_or(Self::ZERO, |rhs| self.wrapping_shl(rhs))")])
B("facade-shl-uint-map_or-wrong-direction", ["C05"],
  [("src/bits.rs", "        match usize::try_from(rhs) {\n            Ok(rhs) => self.wrapping_shl(rhs),\n            Err(_) => Self::ZERO,\n        }", "        usize::try_from(rhs).map_or(Self::ZERO, |rhs| self.wrapping_shr(rhs))")], "Shl")
# ---- interval engine: `len - 1 - i` under `i < len`; from_fn callback index; otherwise-edge
N("idiom-be-slice-index-from-end", ["C08", "C17"],
  [("src/bytes.rs", "        let mut c = bytes.len();\n        while i < bytes.len() {\n            c -= 1;\n            let (limb, byte) = (i / 8, i % 8);\n            limbs[limb] += (bytes[c] as u64) << (byte * 8);", "        let len = bytes.len();\n        while i < len {\n            let (limb, byte) = (i / 8, i % 8);\n            limbs[limb] += (bytes[len - 1 - i] as u64) << (byte * 8);")])
B("be-slice-index-from-end-off-by-one", ["C08"],
  [("src/bytes.rs", "        let mut c = bytes.len();\n        while i < bytes.len() {\n            c -= 1;\n            let (limb, byte) = (i / 8, i % 8);\n            limbs[limb] += (bytes[c] as u64) << (byte * 8);", "        let len = bytes.len();\n        while i < len {\n            let (limb, byte) = (i / 8, i % 8);\n            limbs[limb] += (bytes[len - i] as u64) << (byte * 8);")], "try_from_be_slice")
N("idiom-select-from_fn", ["C20"],
  [("src/support/subtle.rs", "        let mut limbs = [0_u64; LIMBS];\n        for (limb, (a, b)) in limbs\n            .iter_mut()\n            .zip(a.as_limbs().iter().zip(b.as_limbs().iter()))\n        {\n            *limb = u64::conditional_select(a, b, choice);\n        }\n        Self::from_limbs(limbs)", "        Self::from_limbs(core::array::from_fn(|i| {\n            u64::conditional_select(&a.limbs[i], &b.limbs[i], choice)\n        }))")])
N("idiom-ct_eq-accumulating-loop", ["C20"],
  [("src/support/subtle.rs", "        self.as_limbs().ct_eq(rhs.as_limbs())", "        let mut equal = Choice::from(1);\n        for (l, r) in self.as_limbs().iter().zip(rhs.as_limbs().iter()) {\n            equal &= l.ct_eq(r);\n        }\n        equal")])
B("sibling-ct_eq-ignores-rhs", ["C20"],
  [("src/support/subtle.rs", "        self.as_limbs().ct_eq(rhs.as_limbs())", "        let _ = rhs;\n        self.as_limbs().ct_eq(self.as_limbs())")], "ct_eq")

# ---- reviewed rows survive a rename of the local variables in their discriminator
N("idiom-rename-locals-in-row-sites", ["C06", "C08"],
  [("src/bits.rs", "        let mut total = 0;\n\n        let mut i = 0;\n        while i < LIMBS {\n            total += self.limbs[i].count_ones() as usize;\n            i += 1;\n        }\n\n        total", "        let mut ones = 0;\n        let mut k = 0;\n        while k < LIMBS {\n            ones += self.limbs[k].count_ones() as usize;\n            k += 1;\n        }\n        ones"),
   ("src/bytes.rs", "        let mut c = bytes.len();\n        while i < bytes.len() {\n            c -= 1;\n            let (limb, byte) = (i / 8, i % 8);\n            limbs[limb] += (bytes[c] as u64) << (byte * 8);", "        let mut cursor = bytes.len();\n        while i < bytes.len() {\n            cursor -= 1;\n            let (word, lane) = (i / 8, i % 8);\n            limbs[word] += (bytes[cursor] as u64) << (lane * 8);")])

# ---- offset-window loops: `&mut lhs[i..]` with i from enumerate() is in range because the previous window was not empty
N("window-addmul-enumerate-offset", ["C15", "C02"],
  [("src/algorithms/mul.rs", "    for &b in b {\n        if lhs.len() >= a.len() {\n            let (target, rest) = lhs.split_at_mut(a.len());\n            let carry = addmul_nx1(target, a, b);\n            let carry = add_nx1(rest, carry);\n            overflow |= carry != 0;\n        } else {\n            overflow = true;\n            if lhs.is_empty() {\n                break;\n            }\n            addmul_nx1(lhs, &a[..lhs.len()], b);\n        }\n        lhs = &mut lhs[1..];\n    }\n", "    for (i, &b) in b.iter().enumerate() {\n        let window = &mut lhs[i..];\n        if window.len() >= a.len() {\n            let carry = addmul_nx1(&mut window[..a.len()], a, b);\n            let carry = add_nx1(&mut window[a.len()..], carry);\n            overflow |= carry != 0;\n        } else {\n            overflow = true;\n            if window.is_empty() {\n                break;\n            }\n            addmul_nx1(window, &a[..window.len()], b);\n        }\n    }\n")])
B("window-addmul-enumerate-offset-no-break", ["C15"],
  [("src/algorithms/mul.rs", "    for &b in b {\n        if lhs.len() >= a.len() {\n            let (target, rest) = lhs.split_at_mut(a.len());\n            let carry = addmul_nx1(target, a, b);\n            let carry = add_nx1(rest, carry);\n            overflow |= carry != 0;\n        } else {\n            overflow = true;\n            if lhs.is_empty() {\n                break;\n            }\n            addmul_nx1(lhs, &a[..lhs.len()], b);\n        }\n        lhs = &mut lhs[1..];\n    }\n", "    for (i, &b) in b.iter().enumerate() {\n        let window = &mut lhs[i..];\n        if window.len() >= a.len() {\n            let carry = addmul_nx1(&mut window[..a.len()], a, b);\n            let carry = add_nx1(&mut window[a.len()..], carry);\n            overflow |= carry != 0;\n        } else {\n            overflow = true;\n            addmul_nx1(window, &a[..window.len()], b);\n        }\n    }\n")], "addmul")

# ---- R-FACADE: complementary sibling delegation is fine one way, a cycle is not
N("idiom-is_even-via-is_odd", ["C20"],
  [("src/support/num_integer.rs", "        !self.bit(0)\n", "        !Integer::is_odd(self)\n")])
B("facade-is_even-is_odd-cycle", ["C20"],
  [("src/support/num_integer.rs", "        !self.bit(0)\n", "        !Integer::is_odd(self)\n"),
   ("src/support/num_integer.rs", "    fn is_odd(&self) -> bool {\n        self.bit(0)\n", "    fn is_odd(&self) -> bool {\n        !Integer::is_even(self)\n")], "mutual-recursion")
# ---- R-CANON: apply_mask through masked(); R-LOWLIMB / R-CASTFIT: a private helper returning the low limbs
N("idiom-apply_mask-via-masked", ["C04", "C02"],
  [("src/lib.rs", "        if Self::SHOULD_MASK {\n            self.limbs[LIMBS - 1] &= Self::MASK;\n        }\n", "        *self = self.masked();\n")])

# ---- D-zero through a closure handed to bool::then
N("idiom-checked_rem-bool-then", ["C03"],
  [("src/div.rs", "        if rhs.is_zero() {\n            return None;\n        }\n        Some(self.rem(rhs))", "        let divisible = !rhs.is_zero();\n        divisible.then(|| self.wrapping_rem(rhs))")])
B("dzero-checked_rem-bool-then-wrong-polarity", ["C03"],
  [("src/div.rs", "        if rhs.is_zero() {\n            return None;\n        }\n        Some(self.rem(rhs))", "        let divisible = rhs.is_zero();\n        divisible.then(|| self.wrapping_rem(rhs))")], "checked_rem")
# ---- reviewed call rows survive `match flag` <-> `match option` in front of an explicit panic
N("idiom-from_limbs_slice-via-checked", ["C17", "C07"],
  [("src/lib.rs", "        match Self::overflowing_from_limbs_slice(slice) {\n            (n, false) => n,\n            (_, true) => panic!(\"Value too large for this Uint\"),\n        }", "        match Self::checked_from_limbs_slice(slice) {\n            Some(n) => n,\n            None => panic!(\"Value too large for this Uint\"),\n        }")])

# ---- R-GUARD/TryFrom<u64> on intervals: errors only where the value does not fit, Ok only where it fits
B("u64-model-rejects-value-equal-to-mask", ["C07"],
  [("src/from.rs", "    fn try_from(value: u64) -> Result<Self, Self::Error> {\n        if LIMBS <= 1 {\n            if value > Self::MASK {", "    fn try_from(value: u64) -> Result<Self, Self::Error> {\n        if LIMBS <= 1 {\n            if value >= Self::MASK && value != 0 {")], "try_from_u64")
N("idiom-u64-model-renamed-and-restructured", ["C07"],
  [("src/from.rs", "    fn try_from(value: u64) -> Result<Self, Self::Error> {\n        if LIMBS <= 1 {\n            if value > Self::MASK {\n                // Construct wrapped value\n                let mut limbs = [0; LIMBS];\n                if LIMBS == 1 {\n                    limbs[0] = value & Self::MASK;\n                }\n                return Err(ToUintError::ValueTooLarge(BITS, Self::from_limbs(limbs)));\n            }\n            if LIMBS == 0 {\n                return Ok(Self::ZERO);\n            }\n        }\n        let mut limbs = [0; LIMBS];\n        limbs[0] = value;\n        Ok(Self::from_limbs(limbs))",
    "    fn try_from(n: u64) -> Result<Self, Self::Error> {\n        let fits = LIMBS > 1 || n <= Self::MASK;\n        if !fits {\n            let mut wrapped = [0; LIMBS];\n            if LIMBS == 1 {\n                wrapped[0] = n & Self::MASK;\n            }\n            return Err(ToUintError::ValueTooLarge(BITS, Self::from_limbs(wrapped)));\n        }\n        if LIMBS == 0 {\n            return Ok(Self::ZERO);\n        }\n        let mut limbs = [0; LIMBS];\n        limbs[0] = n;\n        Ok(Self::from_limbs(limbs))")])

# ---- R-FLOAT classification: provable violations only; other spellings are not decided
B("float-negative-by-negated-ge-before-nan-test", ["C18"],
  [("src/from.rs", "        if value.is_nan() {\n            return Err(ToUintError::NotANumber(BITS));\n        }\n        if value < 0.0 {\n            let wrapped = match Self::try_from(value.abs()) {", "        if !(value >= 0.0) {\n            let wrapped = match Self::try_from(value.abs()) {")], "ValueNegative")
N("idiom-float-classification-renamed-and-reordered", ["C18"],
  [("src/from.rs", "    fn try_from(value: f64) -> Result<Self, Self::Error> {\n        if value.is_nan() {\n            return Err(ToUintError::NotANumber(BITS));\n        }\n        if value < 0.0 {\n            let wrapped = match Self::try_from(value.abs()) {", "    fn try_from(value: f64) -> Result<Self, Self::Error> {\n        let x = value;\n        if x != x {\n            return Err(ToUintError::NotANumber(BITS));\n        }\n        if x < 0.0 {\n            let wrapped = match Self::try_from(x.abs()) {")])

# ---- R-TABLE char truncation (seed C09d re-created, and the guarded form)
B("char-cast-unguarded-u8", ["C09"],
  [("src/string.rs", "                    '0'..='9' => u64::from(c) - u64::from('0'),\n                    'a'..='z' => u64::from(c) - u64::from('a') + 10,", "                    _ if (c as u8).is_ascii_digit() => u64::from(c as u8) - u64::from(b'0'),\n                    'a'..='z' => u64::from(c) - u64::from('a') + 10,")], "char-cast->u8")
N("idiom-char-cast-behind-is_ascii", ["C09"],
  [("src/string.rs", "                    '0'..='9' => u64::from(c) - u64::from('0'),\n                    'a'..='z' => u64::from(c) - u64::from('a') + 10,", "                    '0'..='9' => u64::from(c as u8) - u64::from(b'0'),\n                    'a'..='z' => u64::from(c) - u64::from('a') + 10,")])
# ---- R-CASTFIT/payload (seed C07d re-created)
B("payload-u128-low-limb-only", ["C07"],
  [("src/from.rs", "        result |= (value.limbs[1] as u128) << 64;\n        if value.bit_len() > 128 {\n            return Err(Self::Error::Overflow(BITS, result, u128::MAX));\n        }", "        if value.bit_len() > 128 {\n            return Err(Self::Error::Overflow(BITS, result, u128::MAX));\n        }\n        result |= (value.limbs[1] as u128) << 64;")], "payload")
# ---- R-GUARD/write-extent (seed C08e re-created)
B("write-extent-le-whole-buffer-chunks", ["C08"],
  [("src/bytes.rs", "        #[cfg(target_endian = \"little\")]\n        buf[..Self::BYTES].copy_from_slice(self.as_le_slice());", "        #[cfg(target_endian = \"little\")]\n        for (&limb, chunk) in self.limbs.iter().zip(buf.chunks_mut(8)) {\n            let le = limb.to_le_bytes();\n            let n = chunk.len();\n            chunk.copy_from_slice(&le[..n]);\n        }")], "extent")
# ---- threshold widening: a `loop` with an `==` exit test
N("idiom-add-loop-with-eq-exit", ["C01"],
  [("src/add.rs", "        let mut i = 0;\n        while i < LIMBS {\n            (self.limbs[i], carry) = carrying_add(self.limbs[i], rhs.limbs[i], carry);\n            i += 1;\n        }", "        let mut i = 0;\n        loop {\n            if i == LIMBS {\n                break;\n            }\n            (self.limbs[i], carry) = carrying_add(self.limbs[i], rhs.limbs[i], carry);\n            i += 1;\n        }")])
B("add-loop-with-eq-exit-off-by-one", ["C01"],
  [("src/add.rs", "        let mut i = 0;\n        while i < LIMBS {\n            (self.limbs[i], carry) = carrying_add(self.limbs[i], rhs.limbs[i], carry);\n            i += 1;\n        }", "        let mut i = 0;\n        loop {\n            if i == LIMBS + 1 {\n                break;\n            }\n            (self.limbs[i], carry) = carrying_add(self.limbs[i], rhs.limbs[i], carry);\n            i += 1;\n        }")], "overflowing_add")
# ---- Sum<&Uint> through Iterator::sum
N("idiom-sum-ref-via-copied-sum", ["C01", "C04", "C20"],
  [("src/add.rs", "        iter.copied().fold(Self::ZERO, Self::wrapping_add)", "        iter.copied().sum()")])

# ---- helper returning Option<usize> + match guard (`Some(i) if i > 0`): payload summaries and refs to fields
N("idiom-msb-via-index-helper-and-match-guard", ["C06", "C18"],
  [("src/bits.rs", "        let first_set_limb = self\n            .as_limbs()\n            .iter()\n            .rposition(|&limb| limb != 0)\n            .unwrap_or(0);\n        if first_set_limb == 0 {\n            (self.as_limbs().first().copied().unwrap_or(0), 0)\n        } else {",
    "        let first_set_limb = match self.top_limb_index() {\n            Some(index) if index > 0 => index,\n            _ => return (self.as_limbs().first().copied().unwrap_or(0), 0),\n        };\n        {"),
   ("src/bits.rs", "    pub fn most_significant_bits(&self) -> (u64, usize) {", "    const fn top_limb_index(&self) -> Option<usize> {\n        let mut index = LIMBS;\n        while index > 0 {\n            index -= 1;\n            if self.limbs[index] != 0 {\n                return Some(index);\n            }\n        }\n        None\n    }\n\n    /// Returns the most significant 64 bits of the number and the exponent.\n    #[must_use]\n    pub fn most_significant_bits(&self) -> (u64, usize) {")])
B("msb-via-index-helper-without-guard", ["C06"],
  [("src/bits.rs", "        let first_set_limb = self\n            .as_limbs()\n            .iter()\n            .rposition(|&limb| limb != 0)\n            .unwrap_or(0);\n        if first_set_limb == 0 {\n            (self.as_limbs().first().copied().unwrap_or(0), 0)\n        } else {",
    "        let first_set_limb = match self.top_limb_index() {\n            Some(index) => index,\n            _ => return (self.as_limbs().first().copied().unwrap_or(0), 0),\n        };\n        {"),
   ("src/bits.rs", "    pub fn most_significant_bits(&self) -> (u64, usize) {", "    const fn top_limb_index(&self) -> Option<usize> {\n        let mut index = LIMBS;\n        while index > 0 {\n            index -= 1;\n            if self.limbs[index] != 0 {\n                return Some(index);\n            }\n        }\n        None\n    }\n\n    /// Returns the most significant 64 bits of the number and the exponent.\n    #[must_use]\n    pub fn most_significant_bits(&self) -> (u64, usize) {")], "most_significant_bits")

# ---- R-TOTAL/overflow-checks on C16 (defect F16, re-created)
B("ovf-scale-size_hint-256-bit-formula", ["C16"],
  [("src/support/scale.rs", "            _ => self.0.byte_len() + 1,\n", "            _ => (32 - self.0.leading_zeros() / 8) + 1,\n")], "Overflow(Sub:32")

# ---- idioms learnt from the benign-refactor campaign (DESIGN section 9): each must stay silent
N("idiom-str-get-prefix", ["C09", "C17"],
  [("src/string.rs", "        let (src, radix) = if src.is_char_boundary(2) {\n            let (prefix, rest) = src.split_at(2);\n            match prefix {\n                \"0x\" | \"0X\" => (rest, 16),\n                \"0o\" | \"0O\" => (rest, 8),\n                \"0b\" | \"0B\" => (rest, 2),\n                _ => (src, 10),\n            }\n        } else {\n            (src, 10)\n        };",
    "        let (src, radix) = match src.get(..2) {\n            Some(\"0x\" | \"0X\") => (&src[2..], 16),\n            Some(\"0o\" | \"0O\") => (&src[2..], 8),\n            Some(\"0b\" | \"0B\") => (&src[2..], 2),\n            _ => (src, 10),\n        };")])
B("idiom-str-get-prefix-wrong-offset", ["C09"],
  [("src/string.rs", "        let (src, radix) = if src.is_char_boundary(2) {\n            let (prefix, rest) = src.split_at(2);\n            match prefix {\n                \"0x\" | \"0X\" => (rest, 16),\n                \"0o\" | \"0O\" => (rest, 8),\n                \"0b\" | \"0B\" => (rest, 2),\n                _ => (src, 10),\n            }\n        } else {\n            (src, 10)\n        };",
    "        let (src, radix) = match src.get(..2) {\n            Some(\"0x\" | \"0X\") => (&src[3..], 16),\n            Some(\"0o\" | \"0O\") => (&src[2..], 8),\n            Some(\"0b\" | \"0B\") => (&src[2..], 2),\n            _ => (src, 10),\n        };")], "for str>::index")
N("idiom-get_mut-question-mark", ["C08"],
  [("src/bytes.rs", "        if buf.len() < Self::BYTES {\n            return None;\n        }\n\n        Some(self.copy_le_bytes_to(buf))", "        let dst = buf.get_mut(..Self::BYTES)?;\n        Some(self.copy_le_bytes_to(dst))")])
B("idiom-get_mut-too-short", ["C08"],
  [("src/bytes.rs", "        if buf.len() < Self::BYTES {\n            return None;\n        }\n\n        Some(self.copy_le_bytes_to(buf))", "        let dst = buf.get_mut(..Self::BYTES - 1)?;\n        Some(self.copy_le_bytes_to(dst))")], "checked_copy_le")
N("idiom-sum-as-loop", ["C20", "C01"],
  [("src/add.rs", "        iter.fold(Self::ZERO, Self::wrapping_add)", "        let mut total = Self::ZERO;\n        for term in iter {\n            total = total.wrapping_add(term);\n        }\n        total")])
N("idiom-while-decrement-index", ["C08", "C16"],
  [("src/utils.rs", "    x.iter().rposition(|b| b != value).map_or(0, |idx| idx + 1)", "    let mut len = x.len();\n    while len > 0 {\n        if x[len - 1] != *value {\n            break;\n        }\n        len -= 1;\n    }\n    len")])
B("idiom-while-decrement-off-by-one", ["C08"],
  [("src/utils.rs", "    x.iter().rposition(|b| b != value).map_or(0, |idx| idx + 1)", "    let mut len = x.len();\n    while len > 0 {\n        if x[len] != *value {\n            break;\n        }\n        len -= 1;\n    }\n    len")], "last_idx")
N("idiom-reduce_mod-eq-zero", ["C10", "C03"],
  [("src/modular.rs", "        if modulus.is_zero() {\n            return Self::ZERO;\n        }\n        if self >= modulus {\n            self %= modulus;\n        }\n        self",
    "        if modulus == Self::ZERO {\n            return Self::ZERO;\n        }\n        if self >= modulus {\n            self %= modulus;\n        }\n        self")])
N("idiom-checked_log-ok-question", ["C13"],
  [("src/log.rs", "        let two = match Self::try_from(2_u64) {\n            Ok(two) => two,\n            Err(_) => return None,\n        };", "        let two = Self::try_from(2_u64).ok()?;")])
N("idiom-set_bit-nested-branch", ["C04", "C06"],
  [("src/bits.rs", "        if index >= BITS {\n            return;\n        }\n        let (limbs, bits) = (index / 64, index % 64);\n        if value {\n            self.limbs[limbs] |= 1 << bits;\n        } else {\n            self.limbs[limbs] &= !(1 << bits);\n        }",
    "        if index < BITS {\n            let (limbs, bits) = (index / 64, index % 64);\n            if value {\n                self.limbs[limbs] |= 1 << bits;\n            } else {\n                self.limbs[limbs] &= !(1 << bits);\n            }\n        }")])
B("signed-negative-includes-zero", ["C07"],
  [("src/from.rs", "                if value.is_negative() {\n                    Err(match Self::try_from(value as $uint) {", "                if value <= 0 {\n                    Err(match Self::try_from(value as $uint) {")],
  "negative")
N("idiom-signed-ge-zero-early-return", ["C07"],
  [("src/from.rs", "                if value.is_negative() {\n                    Err(match Self::try_from(value as $uint) {\n                        Ok(n) | Err(ToUintError::ValueTooLarge(_, n)) => {\n                            ToUintError::ValueNegative(BITS, n)\n                        }\n                        _ => unreachable!(),\n                    })\n                } else {\n                    Self::try_from(value as $uint)\n                }",
    "                let unsigned = Self::try_from(value as $uint);\n                if value >= 0 {\n                    return unsigned;\n                }\n                match unsigned {\n                    Ok(n) | Err(ToUintError::ValueTooLarge(_, n)) => {\n                        Err(ToUintError::ValueNegative(BITS, n))\n                    }\n                    _ => unreachable!(),\n                }")])

# ---- idioms learnt from refactor round 2
N("idiom-u128-hoisted-halves", ["C07", "C04"],
  [("src/from.rs", "        let mut limbs = [0; LIMBS];\n        limbs[0] = value as u64;\n        limbs[1] = (value >> 64) as u64;\n        if Self::LIMBS == 2 && limbs[1] > Self::MASK {\n            limbs[1] &= Self::MASK;",
    "        let lo = value as u64;\n        let hi = (value >> 64) as u64;\n        let mut limbs = [0; LIMBS];\n        limbs[0] = lo;\n        limbs[1] = hi;\n        if Self::LIMBS == 2 && hi > Self::MASK {\n            limbs[1] = hi & Self::MASK;")])
B("idiom-u128-hoisted-halves-no-mask", ["C07"],
  [("src/from.rs", "        let mut limbs = [0; LIMBS];\n        limbs[0] = value as u64;\n        limbs[1] = (value >> 64) as u64;\n        if Self::LIMBS == 2 && limbs[1] > Self::MASK {\n            limbs[1] &= Self::MASK;",
    "        let lo = value as u64;\n        let hi = (value >> 64) as u64;\n        let mut limbs = [0; LIMBS];\n        limbs[0] = lo;\n        limbs[1] = hi;\n        if Self::LIMBS == 2 && hi > Self::MASK {\n            limbs[1] = hi;")], "from_limbs")
N("idiom-shr-flag-precomputed-any", ["C05"],
  [("src/bits.rs", "        let word_bits = 64;\n        let mut r = Self::ZERO;\n        let mut carry = 0;\n        for i in 0..LIMBS - limbs {\n            let x = self.limbs[LIMBS - 1 - i];",
    "        let dropped_limbs = self.limbs[..limbs].iter().any(|&limb| limb != 0);\n        let word_bits = 64;\n        let mut r = Self::ZERO;\n        let mut carry = 0;\n        for i in 0..LIMBS - limbs {\n            let x = self.limbs[LIMBS - 1 - i];"),
   ("src/bits.rs", "        let mut overflow = carry != 0;\n        for i in 0..limbs {\n            overflow |= self.limbs[i] != 0;\n        }\n        (r, overflow)", "        (r, dropped_limbs || carry != 0)")])
N("idiom-fastrlp-split_at-first", ["C17", "C16"],
  [("src/support/fastrlp_04.rs", "        let bytes = &buf[..header.payload_length];\n        *buf = &buf[header.payload_length..];", "        let (bytes, rest) = buf.split_at(header.payload_length);\n        *buf = rest;"),
   ("src/support/fastrlp_04.rs", "        if !bytes.is_empty() && bytes[0] == 0 {", "        if bytes.first() == Some(&0) {")])
B("idiom-fastrlp-split_at-other-bound", ["C17"],
  [("src/support/fastrlp_04.rs", "        let bytes = &buf[..header.payload_length];\n        *buf = &buf[header.payload_length..];", "        let (bytes, rest) = buf.split_at(header.payload_length + 1);\n        *buf = rest;")], "split_at")
N("idiom-mul_mod-private-helper", ["C04", "C10"],
  [("src/modular.rs", "    pub fn mul_mod(self, rhs: Self, mut modulus: Self) -> Self {\n        if modulus.is_zero() {\n            return Self::ZERO;\n        }\n",
    "    pub fn mul_mod(self, rhs: Self, modulus: Self) -> Self {\n        if modulus == Self::ZERO {\n            Self::ZERO\n        } else {\n            self.mul_mod_nonzero(rhs, modulus)\n        }\n    }\n\n    #[inline]\n    fn mul_mod_nonzero(self, rhs: Self, mut modulus: Self) -> Self {\n")])

# ---- R-EQORD as necessary conditions
N("eqord-handwritten-eq", ["C04"],
  [("src/lib.rs", "#[derive(Clone, Copy, Eq, PartialEq, Hash)]", "#[derive(Clone, Copy, Eq, Hash)]\n#[allow(clippy::derived_hash_with_manual_eq)]"),
   ("src/cmp.rs", "impl<const BITS: usize, const LIMBS: usize> Ord for Uint<BITS, LIMBS> {",
    "impl<const BITS: usize, const LIMBS: usize> PartialEq for Uint<BITS, LIMBS> {\n    #[inline]\n    fn eq(&self, other: &Self) -> bool {\n        self.limbs == other.limbs\n    }\n}\n\nimpl<const BITS: usize, const LIMBS: usize> Ord for Uint<BITS, LIMBS> {")])
B("eqord-handwritten-eq-low-limb-only", ["C04"],
  [("src/lib.rs", "#[derive(Clone, Copy, Eq, PartialEq, Hash)]", "#[derive(Clone, Copy, Eq, Hash)]\n#[allow(clippy::derived_hash_with_manual_eq)]"),
   ("src/cmp.rs", "impl<const BITS: usize, const LIMBS: usize> Ord for Uint<BITS, LIMBS> {",
    "impl<const BITS: usize, const LIMBS: usize> PartialEq for Uint<BITS, LIMBS> {\n    #[inline]\n    fn eq(&self, other: &Self) -> bool {\n        self.limbs[..LIMBS.min(1)] == other.limbs[..LIMBS.min(1)]\n    }\n}\n\nimpl<const BITS: usize, const LIMBS: usize> Ord for Uint<BITS, LIMBS> {")],
  "not-derived")
N("eqord-handwritten-cmp-loop", ["C04"],
  [("src/cmp.rs", "        crate::algorithms::cmp(self.as_limbs(), rhs.as_limbs())",
    "        let mut i = LIMBS;\n        while i > 0 {\n            i -= 1;\n            match self.limbs[i].cmp(&rhs.limbs[i]) {\n                Ordering::Equal => {}\n                other => return other,\n            }\n        }\n        Ordering::Equal")])
B("eqord-cmp-args-swapped", ["C04"],
  [("src/cmp.rs", "        crate::algorithms::cmp(self.as_limbs(), rhs.as_limbs())", "        crate::algorithms::cmp(rhs.as_limbs(), self.as_limbs())")], "R-EQORD")

# ---- D-lin (C14 / C11 / C12: linear-inequality discharge in the division and Montgomery kernels)
B("dlin-knuth-m-off-by-one", ["C14", "C03"],
  [("src/algorithms/div/knuth.rs", "    let n = divisor.len();\n    let m = numerator.len() - n;\n",
    "    let n = divisor.len();\n    let m = numerator.len() - n + 1;\n")], "div_nxm")
B("dlin-div-dispatch-two-limb-to-knuth", ["C14", "C12"],
  [("src/algorithms/div/mod.rs", "    if divisor.len() <= 2 {\n        if divisor.len() == 1 {", "    if divisor.len() <= 1 {\n        if divisor.len() == 1 {")],
  "requires")
B("dlin-div-shorter-numerator-check-removed", ["C14"],
  [("src/algorithms/div/mod.rs", "    if numerator.len() < divisor.len() {\n        let (remainder, padding) = divisor.split_at_mut(numerator.len());",
    "    if numerator.len() + 1 < divisor.len() {\n        let (remainder, padding) = divisor.split_at_mut(numerator.len());")], "div")
B("dlin-square_redc-inclusive-range", ["C11"],
  [("src/algorithms/mul_redc.rs", "        for j in 1..N {\n            let (value, next_carry) = carrying_mul_add(modulus[j], m, result[j], carry);",
    "        for j in 1..=N {\n            let (value, next_carry) = carrying_mul_add(modulus[j], m, result[j], carry);")], "square_redc")
N("dlin-knuth-hoisted-top", ["C14", "C03"],
  [("src/algorithms/div/knuth.rs", "            let n2 = numerator.get(j + n).copied().unwrap_or_default();\n            let n21 = u128::join(n2, numerator[j + n - 1]);\n            let n0 = numerator[j + n - 2];",
    "            let top = j + n;\n            let n2 = numerator.get(top).copied().unwrap_or_default();\n            let n21 = u128::join(n2, numerator[top - 1]);\n            let n0 = numerator[top - 2];")])
N("dlin-div-len-locals", ["C14", "C12"],
  [("src/algorithms/div/mod.rs", "    if numerator.len() < divisor.len() {\n        let (remainder, padding) = divisor.split_at_mut(numerator.len());",
    "    let nl = numerator.len();\n    if nl < divisor.len() {\n        let (remainder, padding) = divisor.split_at_mut(nl);")])
_SIG_OLD = "    let i = divisor\n        .iter()\n        .rposition(|&x| x != 0)\n        .expect(\"Divisor is zero\");\n    let divisor = &mut divisor[..=i];\n"
_SIG_NEW = "    let dl = sig_len(divisor).expect(\"Divisor is zero\");\n    let divisor = &mut divisor[..dl];\n"
_SIG_FN = "#[inline]\nfn sig_len(limbs: &[u64]) -> Option<usize> {\n    limbs.iter().rposition(|&limb| limb != 0).map(|i| i + %d)\n}\n\n#[cfg(test)]\nmod tests {\n    use super::*;\n    use crate::aliases::U512;\n"
N("dlin-div-helper-significant-len", ["C14", "C03"],
  [("src/algorithms/div/mod.rs", _SIG_OLD, _SIG_NEW),
   ("src/algorithms/div/mod.rs", "#[cfg(test)]\nmod tests {\n    use super::*;\n    use crate::aliases::U512;\n", _SIG_FN % 1)])
B("dlin-div-helper-significant-len-plus-two", ["C14", "C03"],
  [("src/algorithms/div/mod.rs", _SIG_OLD, _SIG_NEW),
   ("src/algorithms/div/mod.rs", "#[cfg(test)]\nmod tests {\n    use super::*;\n    use crate::aliases::U512;\n", _SIG_FN % 2)], "div")
N("dlin-div-match-on-len", ["C14", "C12"],
  [("src/algorithms/div/mod.rs", "    if divisor.len() <= 2 {\n        if divisor.len() == 1 {", "    if divisor.len() < 3 {\n        if divisor.len() < 2 {")])
# ---- R-CODEC/rlp-length
B("rlp-length-threshold-8-bits", ["C16"],
  [("src/support/alloy_rlp.rs", "        let bits = self.bit_len();\n        if bits <= 7 {\n            1", "        let bits = self.bit_len();\n        if bits <= 8 {\n            1")],
  "rlp-length")
N("rlp-length-threshold-lt-8", ["C16"],
  [("src/support/alloy_rlp.rs", "        let bits = self.bit_len();\n        if bits <= 7 {\n            1", "        let bits = self.bit_len();\n        if bits < 8 {\n            1")])
B("rlp-length-forgot-header-byte", ["C16"],
  [("src/support/fastrlp_03.rs", "            bytes + length_of_length(bytes)\n", "            bytes + length_of_length(bytes) - 1\n")], "rlp-length")
# ---- D-lin: re-assigned loop counters (inductive invariants)
_KN_FOR = "    let mut q_high = 0;\n    for j in (0..=m).rev() {\n"
_KN_END = "            q_high = q;\n        }\n    }\n"
N("dlin-knuth-down-counter-loop", ["C14", "C03"],
  [("src/algorithms/div/knuth.rs", _KN_FOR, "    let mut q_high = 0;\n    let mut j = m;\n    loop {\n"),
   ("src/algorithms/div/knuth.rs", _KN_END, "            q_high = q;\n        }\n        if j == 0 {\n            break;\n        }\n        j -= 1;\n    }\n")])
B("dlin-knuth-down-counter-loop-starts-above", ["C14"],
  [("src/algorithms/div/knuth.rs", _KN_FOR, "    let mut q_high = 0;\n    let mut j = m + 1;\n    loop {\n"),
   ("src/algorithms/div/knuth.rs", _KN_END, "            q_high = q;\n        }\n        if j == 0 {\n            break;\n        }\n        j -= 1;\n    }\n")], "div_nxm")
_SQ_FOR = "        for j in 1..N {\n            let (value, next_carry) = carrying_mul_add(modulus[j], m, result[j], carry);\n            result[j - 1] = value;\n            carry = next_carry;\n        }\n"
N("dlin-square_redc-while-ne", ["C11"],
  [("src/algorithms/mul_redc.rs", _SQ_FOR, "        let mut j = 1;\n        while j != N {\n            let (value, next_carry) = carrying_mul_add(modulus[j], m, result[j], carry);\n            result[j - 1] = value;\n            carry = next_carry;\n            j += 1;\n        }\n")])
B("dlin-square_redc-while-le", ["C11"],
  [("src/algorithms/mul_redc.rs", _SQ_FOR, "        let mut j = 1;\n        while j <= N {\n            let (value, next_carry) = carrying_mul_add(modulus[j], m, result[j], carry);\n            result[j - 1] = value;\n            carry = next_carry;\n            j += 1;\n        }\n")], "square_redc")
B("dlin-square_redc-while-ne-from-zero", ["C11"],
  [("src/algorithms/mul_redc.rs", _SQ_FOR, "        let mut j = 0;\n        while j != N {\n            let (value, next_carry) = carrying_mul_add(modulus[j], m, result[j], carry);\n            result[j.wrapping_sub(1) % N] = value;\n            carry = next_carry;\n            j += 2;\n        }\n")], "square_redc")
# ---- linear preconditions proved at call sites (adc_n / sbb_n: rhs at least as long as lhs)
B("dlin-adc_n-shorter-rhs", ["C14"],
  [("src/algorithms/div/knuth.rs", "            let carry = adc_n(&mut numerator[j..j + n], &divisor[..n], 0);\n            // Expect carry because we flip sign back to positive.\n            debug_assert_eq!(carry, 1);\n        }\n\n        // Store quotient in the unused bits of numerator",
    "            let carry = adc_n(&mut numerator[j..j + n], &divisor[..n - 1], 0);\n            // Expect carry because we flip sign back to positive.\n            debug_assert_eq!(carry, 1);\n        }\n\n        // Store quotient in the unused bits of numerator")],
  "adc_n requires")
N("rlp-length-via-byte_len", ["C16"],
  [("src/support/alloy_rlp.rs", "        let bits = self.bit_len();\n        if bits <= 7 {\n            1\n        } else {\n            let bytes = (bits + 7) / 8;\n            bytes + length_of_length(bytes)\n        }",
    "        if self.bit_len() <= 7 {\n            1\n        } else {\n            let bytes = self.byte_len();\n            bytes + length_of_length(bytes)\n        }")])
N("rlp-length-match-form", ["C16"],
  [("src/support/fastrlp_03.rs", "        let bits = self.bit_len();\n        if bits <= 7 {\n            1\n        } else {\n            let bytes = (bits + 7) / 8;\n            bytes + length_of_length(bytes)\n        }",
    "        match self.bit_len() {\n            0..=7 => 1,\n            bits => {\n                let bytes = (bits + 7) / 8;\n                bytes + length_of_length(bytes)\n            }\n        }")])
