"""Self-test cases: (name, kind B=breaking|N=benign, properties to run, edits, expected key substring)."""

CASES = []


def B(name, props, edits, expect=None):
    CASES.append({"name": name, "kind": "B", "props": props, "edits": edits, "expect": expect})


def N(name, props, edits):
    CASES.append({"name": name, "kind": "N", "props": props, "edits": edits})


# ---- R-LIMBS
B("limbs-from_limbs-no-mention", ["C04"],
  [("src/lib.rs", "limbs[Self::LIMBS - 1] <= Self::MASK", "limbs[LIMBS - 1] <= Self::MASK"),
   ("src/lib.rs", "        let _ = Self::LIMBS;\n", "")], "R-LIMBS")
B("limbs-new-const", ["C04"],
  [("src/lib.rs", "    /// View the array of limbs.\n", "    /// All ones.\n    pub const ONES: Self = Self { limbs: [u64::MAX; LIMBS] }.masked();\n\n    /// View the array of limbs.\n")],
  "ONES")
N("limbs-helper-check", ["C04"],
  [("src/lib.rs", "        let _ = Self::LIMBS;\n        Self { limbs }.masked()", "        Self::check_limbs();\n        Self { limbs }.masked()"),
   ("src/lib.rs", "    #[inline(always)]\n    fn apply_mask(&mut self) {", "    const fn check_limbs() {\n        let _ = Self::LIMBS;\n    }\n\n    #[inline(always)]\n    fn apply_mask(&mut self) {")])

# ---- R-CANON
B("canon-add-no-mask", ["C04", "C01"],
  [("src/add.rs", "        let overflow = carry | (self.limbs[LIMBS - 1] > Self::MASK);\n        (self.masked(), overflow)",
    "        let overflow = carry | (self.limbs[LIMBS - 1] > Self::MASK);\n        (self, overflow)")], "overflowing_add|return-dirty")
B("canon-shl-no-mask", ["C04", "C05"], [("src/bits.rs", "        r.apply_mask();\n        (r, carry != 0)", "        (r, carry != 0)")],
  "overflowing_shl|return-dirty")
B("canon-set_bit-no-guard", ["C04", "C06"],
  [("src/bits.rs", "        if index >= BITS {\n            return;\n        }\n        let (limbs, bits) = (index / 64, index % 64);\n        if value {",
    "        let (limbs, bits) = ((index / 64) % LIMBS, index % 64);\n        if value {")], "set_bit")
B("canon-struct-literal-not", ["C04"],
  [("src/bits.rs", "    pub const fn not(mut self) -> Self {", "    pub const fn not2(self) -> Self {\n        Self::from_limbs_unmasked_raw([!0; LIMBS])\n    }\n\n    /// x\n    #[must_use]\n    pub const fn not(mut self) -> Self {"),
   ("src/lib.rs", "    #[inline(always)]\n    fn apply_mask(&mut self) {", "    pub(crate) const fn from_limbs_unmasked_raw(limbs: [u64; LIMBS]) -> Self {\n        Self { limbs }\n    }\n\n    #[inline(always)]\n    fn apply_mask(&mut self) {")],
  "from_limbs_unmasked_raw")
N("canon-inline-mask", ["C04", "C01"],
  [("src/add.rs", "        (self.masked(), overflow)\n    }\n\n    /// Calculates $\\mod{-\\mathtt{self}}",
    "        if LIMBS > 0 {\n            self.limbs[LIMBS - 1] &= Self::MASK;\n        }\n        (self, overflow)\n    }\n\n    /// Calculates $\\mod{-\\mathtt{self}}")])

# ---- R-MUTREF / R-MASKKIND / R-WF
B("mutref-safe-as_limbs_mut", ["C04"], [("src/lib.rs", "    pub unsafe fn as_limbs_mut(&mut self)", "    pub fn as_limbs_mut(&mut self)")], "R-MUTREF")
B("maskkind-rem", ["C07"], [("src/from.rs", "            limbs[1] &= Self::MASK;", "            limbs[1] %= Self::MASK;")], "R-MASKKIND")
N("maskkind-commuted", ["C07", "C04"], [("src/from.rs", "limbs[0] = value & Self::MASK;", "limbs[0] = Self::MASK & value;")])
B("wf-bad-alias", ["C04"], [("src/aliases.rs", "pub type U0 = Uint<0, 0>;", "pub type U0 = Uint<0, 0>;\n/// bad\npub type U96 = Uint<96, 1>;")], "R-WF")

# ---- R-FACADE
B("facade-sub-to-add", ["C20"], [("src/add.rs", "impl_bin_op!(Sub, sub, SubAssign, sub_assign, wrapping_sub);", "impl_bin_op!(Sub, sub, SubAssign, sub_assign, wrapping_add);")], "Sub")
B("facade-checked_mul-wrapping", ["C20"],
  [("src/support/num_traits.rs", "        <Self>::checked_mul(*self, *other)", "        Some(<Self>::wrapping_mul(*self, *other))")], "CheckedMul")
B("facade-wrapping_shl-to-shr", ["C20"],
  [("src/support/num_traits.rs", "        <Self>::wrapping_shl(*self, rhs as usize)", "        <Self>::wrapping_shr(*self, rhs as usize)")], "WrappingShl")
B("facade-bits-rotate", ["C20"],
  [("src/bit_arr.rs", "        fn rotate_left(self, rhs: usize) -> Self;\n", ""),
   ("src/bit_arr.rs", "    forward! {\n        fn try_from_be_slice(bytes: &[u8]) -> Option<Self>;",
    "    /// x\n    #[must_use]\n    pub fn rotate_left(self, rhs: usize) -> Self {\n        Self(self.0.rotate_right(rhs))\n    }\n    forward! {\n        fn try_from_be_slice(bytes: &[u8]) -> Option<Self>;")],
  "rotate_left")
B("facade-product-zero", ["C20"], [("src/mul.rs", "iter.fold(Self::ONE, Self::wrapping_mul)", "iter.fold(Self::ZERO, Self::wrapping_mul)")], "Product")

# ---- R-TOTAL / guards
B("total-try_from_be-no-len-guard", ["C08"],
  [("src/bytes.rs", "    pub const fn try_from_be_slice(bytes: &[u8]) -> Option<Self> {\n        if bytes.len() > Self::BYTES {\n            return None;\n        }\n",
    "    pub const fn try_from_be_slice(bytes: &[u8]) -> Option<Self> {\n")], "try_from_be_slice")
B("total-fast-path-no-check", ["C08", "C17"],
  [("src/bytes.rs", "            if Self::LIMBS > 0 && limbs[Self::LIMBS - 1] > Self::MASK {\n                return None;\n            }\n            return Some(Self::from_limbs(limbs));\n        }\n\n        let mut limbs = [0; LIMBS];\n        let mut i = 0;\n        let mut c = bytes.len();",
    "            return Some(Self::from_limbs(limbs));\n        }\n\n        let mut limbs = [0; LIMBS];\n        let mut i = 0;\n        let mut c = bytes.len();")], "from_limbs")
B("total-checked_rem-no-guard", ["C03"],
  [("src/div.rs", "    pub fn checked_rem(self, rhs: Self) -> Option<Self> {\n        if rhs.is_zero() {\n            return None;\n        }\n", "    pub fn checked_rem(self, rhs: Self) -> Option<Self> {\n")],
  "checked_rem")
B("total-mul_mod-no-guard", ["C10"],
  [("src/modular.rs", "        if modulus.is_zero() {\n            return Self::ZERO;\n        }\n\n        // Allocate", "        // Allocate")], "mul_mod")
B("total-ssz-from_le_slice", ["C17"],
  [("src/support/ssz.rs", """        Self::try_from_le_slice(bytes).ok_or_else(|| {
            DecodeError::BytesInvalid(alloc::format!(
                "value is larger than fits the {BITS}-bit Uint"
            ))
        })""", "        Ok(Self::from_le_slice(bytes))")],
  "from_le_slice")
B("total-postgres-numeric-len", ["C17"],
  [("src/support/postgres.rs", "                if raw.len() < 8 {\n                    return Err(Box::new(FromSqlError::ParseError(ty.clone())));\n                }\n                let digits", "                let digits")],
  "from_sql")
B("total-todo", ["C03"], [("src/special.rs", "        self.checked_next_multiple_of(rhs).unwrap()\n", "        let _ = self.checked_next_multiple_of(rhs).unwrap();\n        todo!()\n")], "R-UNIMPL")
N("total-guard-as-match", ["C08"],
  [("src/bytes.rs", "    pub const fn try_from_le_slice(bytes: &[u8]) -> Option<Self> {\n        if bytes.len() > Self::BYTES {\n            return None;\n        }\n",
    "    pub const fn try_from_le_slice(bytes: &[u8]) -> Option<Self> {\n        let n = bytes.len();\n        match n > Self::BYTES {\n            true => return None,\n            false => {}\n        }\n")])
